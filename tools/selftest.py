#!/venv/bin/python
"""Development-time validation of the checkers themselves (not a registered check).

  selftest.py [-j N] [filter...]

For every archived variant of the repository
    /verif/seeded/Cxx-mk/   behaviour-breaking change (suite passes, demo fails)   expected verdict: exit 1
    /verif/neutral/Cxx-nk/  behaviour-preserving refactoring (digest identical)    expected verdict: exit 0
the patch is applied to a scratch copy of /repo/lib (fresh mkdtemp outside /repo and /verif, removed
afterwards) and the quick check of the variant's property is run on the copy.  Prints one line per
variant and a summary; exit 0 iff every variant got its expected verdict.
"""
import concurrent.futures
import json
import os
import shutil
import subprocess
import sys
import tempfile

VERIF = os.path.dirname(os.path.dirname(os.path.abspath(__file__)))


def one(d, expect):
    meta = json.load(open(os.path.join(d, 'meta.json')))
    pid = meta['property']
    tmp = tempfile.mkdtemp(prefix='saself-')
    try:
        shutil.copytree('/repo/lib', os.path.join(tmp, 'lib'), ignore=shutil.ignore_patterns('__pycache__'))
        r = subprocess.run(['patch', '-p1', '-s', '-i', os.path.join(d, 'patch.diff')], cwd=tmp, capture_output=True, text=True)
        if r.returncode:
            return d, pid, 'PATCH-DOES-NOT-APPLY', False, ''
        env = dict(os.environ, SA_REPO=tmp, SA_EVIDENCE=os.path.join(tmp, 'ev'))
        r = subprocess.run(['/venv/bin/python', os.path.join(VERIF, 'sa', 'run.py'), '--property', pid], env=env, capture_output=True, text=True)
        # the first violation report (an analysis error of another rule on the same tree is not what detects the change)
        first = next((l for l in r.stdout.splitlines() if l.startswith('FAIL')), None) or next((l for l in r.stdout.splitlines() if l.startswith('ANALYSIS-ERROR')), '')
        return d, pid, {0: 'silent', 1: 'VIOLATION', 2: 'ANALYSIS-ERROR'}.get(r.returncode, 'rc=%d' % r.returncode), r.returncode == expect, first
    finally:
        shutil.rmtree(tmp, ignore_errors=True)


def main():
    args = sys.argv[1:]
    jobs = 16
    if args[:1] == ['-j']:
        jobs = int(args[1])
        args = args[2:]
    work = []
    for kind, expect in (('seeded', 1), ('neutral', 0)):
        base = os.path.join(VERIF, kind)
        for name in sorted(os.listdir(base)) if os.path.isdir(base) else []:
            d = os.path.join(base, name)
            if os.path.isfile(os.path.join(d, 'patch.diff')) and (not args or any(a in name for a in args)):
                work.append((d, expect))
    bad = 0
    with concurrent.futures.ThreadPoolExecutor(jobs) as ex:
        for d, pid, verdict, ok, first in ex.map(lambda w: one(*w), work):
            kind = os.path.basename(os.path.dirname(d))
            print('%-8s %-8s %-15s %s%s' % (kind, os.path.basename(d), verdict, 'ok' if ok else 'UNEXPECTED', ('   ' + first[:150]) if not ok or verdict == 'VIOLATION' else ''))
            bad += not ok
    print('%d variants, %d unexpected verdicts' % (len(work), bad))
    return 1 if bad else 0


if __name__ == '__main__':
    sys.exit(main())

#!/venv/bin/python
"""copies confirmed seeded defects from /tmp/seed-out into /verif/seeded/<id>/ and records confirmation + detection"""
import json, os, shutil, subprocess, sys, glob
only = sys.argv[1:] 
rows = []
for d in sorted(glob.glob('/tmp/seed-out/C*/m*')):
    pid, mk = d.split('/')[-2:]
    name = '%s-%s' % (pid, mk)
    if only and pid not in only and name not in only:
        continue
    if not os.path.exists(os.path.join(d, 'patch.diff')):
        continue
    conf = subprocess.run(['/verif/tools/seed.py', 'confirm', d], capture_output=True, text=True)
    confirmed = conf.returncode == 0
    chk = subprocess.run(['/verif/tools/seed.py', 'check', d], capture_output=True, text=True, env=dict(os.environ, MAXLINES='3'))
    lines = chk.stdout.strip().splitlines()
    verdict = lines[-1].split()[-1] if lines else '?'
    first = next((l for l in lines if l.startswith('FAIL')), '')
    rows.append((name, confirmed, verdict, first[:150]))
    if confirmed:
        out = os.path.join('/verif/seeded', name)
        os.makedirs(out, exist_ok=True)
        for f in ('patch.diff', 'demo.py'):
            shutil.copy(os.path.join(d, f), os.path.join(out, f))
        meta = json.load(open(os.path.join(d, 'meta.json')))
        meta['confirmed_by_me'] = {'ran': ['tools/seed.py confirm (scratch worktree of /repo HEAD: demo exits 0 without the patch, non-zero with it; '
                                          'baseline suite 234 passed with the patch)', conf.stdout.strip().splitlines()[0] if conf.stdout.strip() else ''],
                                   'check_verdict': verdict, 'check_first_report': first}
        json.dump(meta, open(os.path.join(out, 'meta.json'), 'w'), indent=1)
    print('%-8s confirmed=%s %s  %s' % (name, confirmed, verdict, first[:110]))

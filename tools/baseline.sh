#!/bin/sh
# runs the repository's pinned test-suite (development aid; never part of a check)
cd /repo && /venv/bin/python -m pytest -q -p no:cacheprovider --timeout=900 --continue-on-collection-errors 2>&1 | tail -4

#!/venv/bin/python
"""every behaviour-preserving variant against *all* properties (a refactoring of one function is seen by every property
anchored in that file).  A variant is run against the properties that read a file it touches (READS below; CROSSCHECK_ALL=1: against all twenty).
usage: crosscheck.py [-j N] <dir with patch.diff> ...   expected: rc 0 for every property"""
import concurrent.futures, os, shutil, subprocess, sys, tempfile
args = sys.argv[1:]
jobs = 16
if args[:1] == ['-j']:
    jobs = int(args[1]); args = args[2:]


# which properties read which source files (directly, or through the modules their evaluator worlds load): a variant is run against
# every property that reads a file it touches; a file that is not listed here concerns all of them
READS = {
    'lib/debian/_deb822_repro/parsing.py': ['C01', 'C05', 'C10', 'C11'], 'lib/debian/_deb822_repro/tokens.py': ['C01', 'C05', 'C10', 'C11'],
    'lib/debian/_deb822_repro/_util.py': ['C01', 'C05', 'C10', 'C11'], 'lib/debian/_deb822_repro/formatter.py': ['C01', 'C05', 'C10', 'C11'],
    'lib/debian/_deb822_repro/types.py': ['C01', 'C05', 'C10', 'C11'], 'lib/debian/_deb822_repro/locatable.py': ['C01', 'C05', 'C10', 'C11'],
    'lib/debian/_util.py': ['C01', 'C02', 'C05', 'C08', 'C09', 'C10', 'C11', 'C12', 'C13', 'C17'],
    'lib/debian/deb822.py': ['C02', 'C08', 'C09', 'C12', 'C13', 'C17', 'C07', 'C16'],
    'lib/debian/debian_support.py': ['C03', 'C04', 'C14', 'C15', 'C18', 'C19'], 'lib/debian/changelog.py': ['C04', 'C15'],
    'lib/debian/arfile.py': ['C06', 'C07'], 'lib/debian/debfile.py': ['C07'], 'lib/debian/copyright.py': ['C16', 'C17'], 'lib/debian/debtags.py': ['C20'],
}
ALL = os.environ.get('CROSSCHECK_ALL') == '1'


def related(patch):
    if ALL:
        return None
    files = [l[6:].strip() for l in open(patch, encoding='utf-8', errors='replace') if l.startswith('+++ b/')]
    out = set()
    for f_ in files:
        if f_ not in READS:
            return None
        out |= set(READS[f_])
    return sorted(out)


def one(d):
    tmp = tempfile.mkdtemp(prefix='sacross-')
    try:
        shutil.copytree('/repo/lib', os.path.join(tmp, 'lib'), ignore=shutil.ignore_patterns('__pycache__'))
        r = subprocess.run(['patch', '-p1', '-s', '-i', os.path.abspath(os.path.join(d, 'patch.diff'))], cwd=tmp, capture_output=True, text=True)
        if r.returncode:
            return d, 'PATCH DOES NOT APPLY', []
        env = dict(os.environ, SA_REPO=tmp, SA_EVIDENCE=os.path.join(tmp, 'ev'))
        props = related(os.path.join(d, 'patch.diff'))
        if props is None:
            r = subprocess.run(['/venv/bin/python', '/verif/sa/run.py', '--all'], env=env, capture_output=True, text=True)
            bad = [l for l in r.stdout.splitlines() if l.startswith(('FAIL', 'ANALYSIS-ERROR'))]
            return d, r.returncode, bad
        worst, bad = 0, []
        for q in props:
            r = subprocess.run(['/venv/bin/python', '/verif/sa/run.py', '--property', q], env=env, capture_output=True, text=True)
            worst = max(worst, r.returncode)
            bad += [l for l in r.stdout.splitlines() if l.startswith(('FAIL', 'ANALYSIS-ERROR'))]
        return d, worst, bad
    finally:
        shutil.rmtree(tmp)


with concurrent.futures.ThreadPoolExecutor(jobs) as ex:
    n_bad = 0
    for d, rc, bad in ex.map(one, args):
        if rc != 0:
            n_bad += 1
            print('%s rc=%s' % (d, rc))
            for l in bad[:4]:
                print('    ' + l[:260])
    print('%d variants, %d with an alarm from some property' % (len(args), n_bad))
    sys.exit(1 if n_bad else 0)

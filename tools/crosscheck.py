#!/venv/bin/python
"""every behaviour-preserving variant against *all* properties (a refactoring of one function is seen by every property
anchored in that file).  usage: crosscheck.py [-j N] <dir with patch.diff> ...   expected: rc 0 for every property"""
import concurrent.futures, os, shutil, subprocess, sys, tempfile
args = sys.argv[1:]
jobs = 16
if args[:1] == ['-j']:
    jobs = int(args[1]); args = args[2:]


def one(d):
    tmp = tempfile.mkdtemp(prefix='sacross-')
    try:
        shutil.copytree('/repo/lib', os.path.join(tmp, 'lib'), ignore=shutil.ignore_patterns('__pycache__'))
        r = subprocess.run(['patch', '-p1', '-s', '-i', os.path.abspath(os.path.join(d, 'patch.diff'))], cwd=tmp, capture_output=True, text=True)
        if r.returncode:
            return d, 'PATCH DOES NOT APPLY', []
        env = dict(os.environ, SA_REPO=tmp, SA_EVIDENCE=os.path.join(tmp, 'ev'))
        r = subprocess.run(['/venv/bin/python', '/verif/sa/run.py', '--all'], env=env, capture_output=True, text=True)
        bad = [l for l in r.stdout.splitlines() if l.startswith(('FAIL', 'ANALYSIS-ERROR'))]
        return d, r.returncode, bad
    finally:
        shutil.rmtree(tmp)


with concurrent.futures.ThreadPoolExecutor(jobs) as ex:
    n_bad = 0
    for d, rc, bad in ex.map(one, args):
        if rc != 0:
            n_bad += 1
            print('%s rc=%s' % (d, rc))
            for l in bad[:4]:
                print('    ' + l[:260])
    print('%d variants, %d with an alarm from some property' % (len(args), n_bad))
    sys.exit(1 if n_bad else 0)

#!/venv/bin/python
"""development aid: take /tmp/rebase-in/<variant>/patch.new.diff (written by a re-basing sub-agent), confirm it in a scratch worktree
(tools/seed.py confirm | tools/neutral.py confirm with the new patch in place) and, if confirmed, install it as the variant's patch.diff"""
import os, shutil, subprocess, sys
for v in sys.argv[1:]:
    kind = 'neutral' if '-n' in v else 'seeded'
    d = '/verif/%s/%s' % (kind, v)
    new = '/tmp/rebase-in/%s/patch.new.diff' % v
    if not os.path.exists(new):
        print(v, 'NO patch.new.diff'); continue
    old = open(d + '/patch.diff').read()
    shutil.copy(new, d + '/patch.diff')
    tool = '/verif/tools/neutral.py' if kind == 'neutral' else '/verif/tools/seed.py'
    r = subprocess.run(['/venv/bin/python', tool, 'confirm', d], capture_output=True, text=True)
    line = (r.stdout.strip().splitlines() or ['?'])[0]
    ok = '-> CONFIRMED' in line
    if not ok:
        open(d + '/patch.diff', 'w').write(old)
    print(v, 'INSTALLED' if ok else 'REJECTED', '|', line[:160])

#!/venv/bin/python
"""development aid: run one property's rules on a scratch copy of /repo with one textual edit.
   mut.py Cxx relative/file.py OLD NEW [OLD NEW ...]     (each OLD must occur exactly once)
"""
import os, shutil, subprocess, sys, tempfile
pid, rel = sys.argv[1], sys.argv[2]
pairs = list(zip(sys.argv[3::2], sys.argv[4::2]))
tmp = tempfile.mkdtemp(prefix='samut-')
try:
    shutil.copytree('/repo/lib', os.path.join(tmp, 'lib'), ignore=shutil.ignore_patterns('__pycache__', 'tests'))
    p = os.path.join(tmp, rel)
    s = open(p).read()
    for old, new in pairs:
        if s.count(old) != 1:
            print('OLD occurs %d times: %r' % (s.count(old), old)); sys.exit(3)
        s = s.replace(old, new)
    open(p, 'w').write(s)
    compile(s, p, 'exec')
    env = dict(os.environ, SA_REPO=tmp, SA_EVIDENCE=os.path.join(tmp, 'ev'))
    for q in pid.split(','):
        r = subprocess.run(['/venv/bin/python', '/verif/sa/run.py', '--property', q] + (['--tier', os.environ['TIER']] if os.environ.get('TIER') else []), env=env, capture_output=True, text=True)
        out = [l for l in r.stdout.splitlines() if not l.startswith('VIOLATION')]
        print('\n'.join(out[:int(os.environ.get('MAXLINES', '6'))])); print('rc=%d' % r.returncode)
        if r.stderr.strip(): print(r.stderr[-2000:])
finally:
    shutil.rmtree(tmp)

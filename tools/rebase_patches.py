#!/venv/bin/python
"""development aid: archived variant patches that no longer apply to /repo HEAD (a fix commit changed their context) are re-based
with a three-way merge in a scratch worktree (the pre-image blobs named in the patch are in /repo's object store) and rewritten.
usage: rebase_patches.py [<variant dir> ...]   (default: every variant under seeded/ and neutral/ whose patch does not apply)"""
import glob, os, shutil, subprocess, sys, tempfile
dirs = sys.argv[1:] or sorted(glob.glob('/verif/seeded/*') + glob.glob('/verif/neutral/*'))
wt = tempfile.mkdtemp(prefix='sarebase-'); os.rmdir(wt)
subprocess.run(['git', '-C', '/repo', 'worktree', 'add', '-q', '--detach', wt, 'HEAD'], check=True)
try:
    for d in dirs:
        p = os.path.abspath(os.path.join(d, 'patch.diff'))
        if not os.path.exists(p):
            continue
        if subprocess.run(['git', 'apply', '--check', p], cwd=wt, capture_output=True).returncode == 0:
            continue
        r = subprocess.run(['git', 'apply', '--3way', p], cwd=wt, capture_output=True, text=True)
        conflict = subprocess.run(['git', 'diff', '--name-only', '--diff-filter=U'], cwd=wt, capture_output=True, text=True).stdout.strip()
        if r.returncode != 0 or conflict:
            print('%-22s CONFLICT (rebase by hand): %s' % (os.path.basename(d), (r.stderr.strip().splitlines() or [''])[-1][:120]))
        else:
            new = subprocess.run(['git', 'diff', 'HEAD'], cwd=wt, capture_output=True, text=True).stdout
            if new.strip():
                shutil.copy(p, p + '.orig') if not os.path.exists(p + '.orig') else None
                open(p, 'w').write(new)
                os.remove(p + '.orig')
                print('%-22s rebased' % os.path.basename(d))
            else:
                print('%-22s EMPTY after merge (the fix subsumed it?)' % os.path.basename(d))
        subprocess.run(['git', 'reset', '-q', '--hard', 'HEAD'], cwd=wt)
        subprocess.run(['git', 'clean', '-qfd'], cwd=wt)
finally:
    subprocess.run(['git', '-C', '/repo', 'worktree', 'remove', '--force', wt])

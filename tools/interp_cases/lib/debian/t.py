import dataclasses
import collections.abc
import enum
import operator
import itertools
import re
import contextlib


def f01(xs):
    a = b = []
    a.append(1)
    return (a, b, a is b)


def f02(xs):
    out = []
    for i, x in enumerate(xs):
        if x == 2:
            continue
        if x == 4:
            break
        out.append((i, x))
    else:
        out.append('else')
    return out


def f03(xs):
    n = 0
    while n < 3:
        n += 1
    else:
        n += 10
    return n


def f04(xs):
    log = []
    try:
        try:
            log.append('a')
            raise KeyError('k')
        finally:
            log.append('fin1')
    except KeyError as e:
        log.append('caught')
    else:
        log.append('else')
    finally:
        log.append('fin2')
    return log


def f05(xs):
    def g():
        try:
            return 'ret'
        finally:
            log.append('fin')
    log = []
    r = g()
    return (r, log)


def f06(xs):
    fs = [lambda: i for i in range(3)]
    gs = [lambda i=i: i for i in range(3)]
    return ([f() for f in fs], [g() for g in gs])


def f07(xs):
    fs = []
    for i in range(3):
        fs.append(lambda: i)
    return [f() for f in fs]


def f08(xs):
    it = iter(xs)
    first = next(it)
    rest = list(it)
    again = list(it)
    return (first, rest, again)


def f09(xs):
    it = iter(xs)
    a = all(x < 3 for x in it)
    left = list(it)
    return (a, left)


def f10(xs):
    d = {}
    d.setdefault('a', []).append(1)
    d.setdefault('a', []).append(2)
    return sorted(d.items())


def f11(xs):
    a = [1, 2, 3]
    b = a[:]
    b.append(4)
    c = a
    c += [5]
    return (a, b, c)


def f12(xs):
    s = 'a,b,,c'
    return (s.split(','), s.split(',', 1), s.partition(','), s.rsplit(',', 1), ' a b '.split(), ' a b '.split(' '))


def f13(xs):
    return ('x' if xs else 'y' + 'z', not 1 == 2, 1 < 2 < 3, 1 < 3 < 2)


def f14(xs):
    r = []
    for a, b in zip([1, 2, 3], 'ab'):
        r.append((a, b))
    return r


def f15(xs):
    def gen():
        yield 1
        try:
            yield 2
        finally:
            log.append('closed')
        yield 3
    log = []
    g = gen()
    got = [next(g), next(g)]
    return (got, log)


def f16(xs):
    x = 5
    def inner():
        return x
    x = 6
    return inner()


def f17(xs):
    m = re.match(r'(a+)(b*)', 'aab!')
    n = re.match(r'z', 'a')
    return (m.group(0), m.group(1), m.groups(), m.end(), n)


def f18(xs):
    out = []
    with contextlib.suppress(KeyError):
        out.append(1)
        raise KeyError
        out.append(2)
    out.append(3)
    return out


def f19(xs):
    t = (1, [2])
    u = list(t)
    u[1].append(3)
    return (t, u)


def f20(xs):
    a = {1, 2}
    b = a
    b |= {3}
    c = a | {4}
    return (sorted(a), sorted(b), sorted(c), a is b)


def f21(xs):
    s = 'abc'
    return (s[-1], s[1:], s[::-1], s[5:], s[:-5], 'abc'[-4:2])


def f22(xs):
    return (max([1, 3, 2]), min('b', 'a'), max([], default=7), sorted([3, 1, 2], reverse=True), sorted(['b', 'A'], key=str.lower), sum([1, 2, 3]))


def f23(xs):
    d = {'a': 1}
    return (d.get('b') or 5, d.get('a') or 5, d.pop('a', None), d.pop('a', 9), len(d))


def f24(xs):
    res = []
    for x in xs:
        try:
            if x == 2:
                continue
            if x == 3:
                break
            res.append(x)
        finally:
            res.append('f%d' % x)
    return res


def f25(xs):
    class_like = []
    def add(v, acc=class_like):
        acc.append(v)
        return acc
    add(1)
    add(2)
    return class_like


def f26(xs):
    it = itertools.chain([1], itertools.repeat(0))
    return [x for x, _ in zip(it, range(4))]


def f27(xs):
    a = [[0]] * 2
    a[0].append(1)
    return a


def f28(xs):
    x = [1, 2, 3, 4]
    del x[1:3]
    y = x * 2
    return (x, y, 2 in x, x.index(4), x.count(1))


def f29(xs):
    if (n := len(xs)) > 2:
        return ('big', n)
    return ('small', n)


def f30(xs):
    s = '%s-%03d-%r' % ('a', 7, 'q')
    t = '{0}{1!r}{x:>4}'.format('a', 'b', x='c')
    u = f'{s!r:>12}|{len(xs):02d}'
    return (s, t, u)


def f31(xs):
    try:
        int('x')
    except (ValueError, TypeError) as e:
        return 'bad'
    return 'good'


def f32(xs):
    out = []
    i = 0
    while True:
        i += 1
        if i == 2:
            continue
        out.append(i)
        if i >= 4:
            break
    return out


def f33(xs):
    a, *b, c = [1, 2, 3, 4]
    (d, e), f = (1, 2), 3
    return (a, b, c, d, e, f)


def f34(xs):
    return [x for x in range(5) if x % 2 if x > 1] + [(x, y) for x in range(2) for y in range(x + 1)]


def f35(xs):
    d = {k: v for k, v in zip('ab', (1, 2))}
    s = {x % 2 for x in range(5)}
    return (sorted(d.items()), sorted(s), list(d), list(d.values()), 'a' in d, 1 in d)


def f36(xs):
    b = b'ab\ncd'
    return (b[0], b[1:2], b.split(b'\n'), b.decode(), 'é'.encode('utf-8'), len('é'.encode()), bytes([65]))


def f37(xs):
    return ('a\x0cb\nc'.splitlines(), 'a\x0cb\nc'.split('\n'), 'x\r\ny'.splitlines(True), 'ab'.isdigit(), '٣'.isdigit(), ' \t'.isspace(), ''.isspace())


def f38(xs):
    log = []
    def g():
        log.append('g')
        return False
    r = True or g()
    s = False and g()
    t = None or 0 or 'x'
    return (r, s, t, log)


def f39(xs):
    x = 0
    for i in range(3):
        for j in range(3):
            if j == 1:
                break
            x += 1
        else:
            x += 100
    return x


def f40(xs):
    try:
        raise ValueError('a')
    except ValueError:
        try:
            raise
        except ValueError as e2:
            return 'reraised'


class MyErr(ValueError):
    pass


class Other(Exception):
    pass


class Base(object):
    shared = []
    count = 0

    def __init__(self, v):
        self._v = v
        self.log = []

    @property
    def v(self):
        return self._v

    @v.setter
    def v(self, new):
        self.log.append(('set', new))
        self._v = new

    def describe(self):
        return 'base:%s' % self.name()

    def name(self):
        return 'B'

    @classmethod
    def make(cls, v):
        return cls(v)

    @staticmethod
    def twice(x):
        return x * 2

    def __eq__(self, other):
        return isinstance(other, Base) and self._v == other._v

    def __hash__(self):
        return hash(self._v)

    def __len__(self):
        return self._v

    def __contains__(self, x):
        return x == self._v

    def __getitem__(self, k):
        if k > 2:
            raise IndexError(k)
        return k * 10

    def __enter__(self):
        self.log.append('enter')
        return self

    def __exit__(self, a, b, c):
        self.log.append('exit')
        return a is not None and issubclass(a, KeyError)


class Child(Base):
    def name(self):
        return 'C'

    def describe(self):
        return 'child+' + super().describe()


class Counter:
    def __init__(self, n):
        self.n = n
        self.i = 0

    def __iter__(self):
        return self

    def __next__(self):
        if self.i >= self.n:
            raise StopIteration
        self.i += 1
        return self.i


def f41(xs):
    b = Base(3)
    b.v = 4
    return (b.v, b.log, b.describe(), Child(1).describe(), Child.make(2).name(), Base.twice(3), Child(0).twice('a'))


def f42(xs):
    a, b = Base(1), Base(1)
    a.shared.append('x')
    Base.count += 1
    a.count += 5
    return (a == b, a is b, a != Base(2), b.shared, Base.count, a.count, b.count, hash(a) == hash(b), len({a, b}) if False else 1)


def f43(xs):
    b = Base(0)
    c = Base(2)
    return (bool(b), bool(c), 2 in c, 3 in c, list(c) if False else [c[0], c[1]], len(c))


def f44(xs):
    b = Base(1)
    out = []
    with b as x:
        out.append(x is b)
        raise KeyError('swallowed')
    out.append('after')
    try:
        with b:
            raise Other('passes')
    except Other:
        out.append('other')
    return (out, b.log)


def f45(xs):
    out = []
    for exc in (MyErr, Other, KeyError):
        try:
            raise exc('x')
        except ValueError:
            out.append('value')
        except LookupError:
            out.append('lookup')
        except Exception:
            out.append('exception')
    return out


def f46(xs):
    c = Counter(4)
    first = next(c)
    got = []
    for x in c:
        got.append(x)
        if x == 3:
            break
    rest = list(c)
    return (first, got, rest, list(c))


def f47(xs):
    c = Counter(3)
    return (list(zip(c, 'ab')), next(c, 'done'), next(c, 'done'))


def f48(xs):
    return ([x for x in Base(1)], isinstance(Child(1), Base), isinstance(Base(1), Child), type(Child(1)).__name__, Child(1).__class__ is Child)


def f49(xs):
    import collections
    d = collections.deque([1, 2, 3])
    d.appendleft(0)
    a = d.popleft()
    d.append(9)
    b = d.pop()
    return (a, b, list(d), len(d), d[0], bool(d))


def f50(xs):
    def counter():
        n = 0
        def inc():
            nonlocal n
            n += 1
            return n
        return inc
    c = counter()
    return (c(), c(), counter()())


def f51(xs):
    def inner():
        yield 1
        yield 2
        return 'r'
    def outer():
        got = yield from inner()
        yield got
    return list(outer())


def f52(xs):
    d = {}
    d['b'] = 1
    d['a'] = 2
    d['b'] = 3
    del d['a']
    d['a'] = 4
    return (list(d.items()), list(d.keys()), 'b' in d, d == {'a': 4, 'b': 3}, dict(d) is d)


def f53(xs):
    a = [3, 1, 2]
    a.insert(1, 9)
    p = a.pop(0)
    a.remove(2)
    a.sort()
    a.reverse()
    b = sorted([(1, 'b'), (0, 'z'), (1, 'a')], key=lambda t: t[0])
    return (a, p, b, [1, 2] < [1, 3], (1, 'a') < (1, 'b'), [1, 2] == [1, 2], [1] is [1])


def f54(xs):
    s = '  xxhixx  '
    return (s.strip(), s.strip().strip('x'), 'a.tar.gz'.rstrip('.gz'), 'abc'.startswith(('x', 'a')), 'abcabc'.find('c'), 'abcabc'.rfind('c'), 'abc'.find('z'),
            'aaa'.replace('a', 'b', 2), 'AbC'.lower(), 'abc'.upper(), 'a-b'.title(), 'abc'.center(7, '*'), 'x'.join(['a', 'b']), 'ab' * 2, 'b' in 'abc')


def f55(xs):
    out = []
    for v in ('12', ' 12\n', '1_0', '+3', '0x10', '', '1.5', '٣'):
        try:
            out.append(int(v))
        except ValueError:
            out.append('VE')
    return out


def f56(xs):
    class_ = [isinstance(1, (str, int)), isinstance('a', (bytes, int)), isinstance(True, int), isinstance(None, type(None)), type(1) is int, callable(len)]
    return class_


def f57(xs):
    seen = []
    def check(x):
        seen.append(x)
        return x > 2
    r = any(check(x) for x in xs)
    return (r, seen)


def f58(xs):
    a = list(map(str, xs))
    b = list(filter(None, [0, 1, '', 'a', None, [], [0]]))
    c = list(reversed(xs))
    d = list(enumerate('ab', start=1))
    e = dict(zip('ab', [1, 2]))
    return (a, b, c, d, sorted(e.items()), list(range(5, 0, -2)), list(range(3))[-1])


def f59(xs):
    text = 'k1=v1;k2=v2'
    pairs = dict(p.split('=', 1) for p in text.split(';'))
    inv = {v: k for k, v in pairs.items()}
    return (sorted(pairs.items()), sorted(inv))


def f60(xs):
    x = 10
    x //= 3
    y = -7 // 2
    z = -7 % 3
    w = 7 / 2
    v = 2 ** 10
    u = divmod(7, 2)
    return (x, y, z, w, v, u, 1 if not [] else 2, abs(-3), round(2.5), min(3, 1, 2))


_MARKER = object()


class K61(enum.IntEnum):
    A = 97
    D = 100


class M62(collections.abc.MutableMapping):
    def __init__(self):
        self.d = {}

    def __getitem__(self, k):
        return self.d[k.lower()]

    def __setitem__(self, k, v):
        self.d[k.lower()] = v

    def __delitem__(self, k):
        del self.d[k.lower()]

    def __iter__(self):
        return iter(self.d)

    def __len__(self):
        return len(self.d)


class N63:
    def __init__(self, v, prev):
        self.v = v
        self._prev = prev

    @property
    def prev(self):
        return self._prev


_prev_of = operator.attrgetter('prev')


def f61(xs):
    c = ord('a')
    return (c == K61.A, c != K61.D, c < K61.D, K61.D - c, [x for x in (97, 100, 101) if x == K61.A or x == K61.D])


def f62(xs):
    m = M62()
    m['Alpha'] = 1
    return (m.get('ALPHA'), m.get('beta'), m.get('beta', 7), m.setdefault('Beta', 2), m.setdefault('alpha', 9), len(m))


def f63(xs):
    n = None
    for x in xs:
        n = N63(x, n)
    out = []
    while n:
        out.append(n.v)
        n = _prev_of(n)
    return out


def f64(xs):
    d = {'a': None}
    r = []
    for k in ('a', 'b'):
        v = d.get(k, _MARKER)
        r.append('absent' if v is _MARKER else v)
    return (r, _MARKER is _MARKER, _MARKER == _MARKER, _MARKER is None)


def f65(xs):
    n, todo = 0, [200]
    while todo:
        k = todo.pop()
        n += 1
        if k:
            todo.append(k - 1)
    return n


@dataclasses.dataclass(frozen=True)
class R66:
    digest: str
    size: str
    name: str = 'n'


def f66(xs):
    a = R66(*'h 10 P0'.split())
    b = R66('h', '10')
    c = R66(digest='h', size='10', name='P0')
    return (a.digest, a.name, b.name, a == c, a == b, a != b, a == ('h', '10', 'P0'))


def f67(xs):
    first, *rest = xs
    it = iter(xs)
    lead = [next(it), *it]
    return ([0, *rest, 9], (*rest, first), lead, [*'ab', *[]], {*rest} == set(rest))


def f68(xs):
    d = {'P0': 1, 'P1': 2}
    return (set(['P0']) <= d.keys(), set(['P0', 'P2']) <= d.keys(), {'P0', 'P1'} >= d.keys(), set() < {'a'}, {'a'} < {'a'}, list(d.keys()), 'P1' in d.keys())


def f69(xs):
    return ('line\n'.removesuffix('\n'), 'line'.removesuffix('\n'), '\n'.removesuffix('\n'), ' x'.removeprefix(' '), 'x'.removeprefix(' '), 'abc'.removesuffix(''),
            'a\n\n'.removesuffix('\n'))

#!/venv/bin/python
"""development aid (not a registered check): the evaluator of sa.heap against CPython on a collection of small functions that exercise
the statement and expression kinds of the language one by one (loops with else, try / finally on every way out, closures, iterators
consumed once, slicing, formatting, comprehensions ...).  A function whose value differs, or that the evaluator refuses, is listed.
usage: interp_selfcheck.py [<dir with lib/debian/t.py>]   (default: tools/interp_cases)"""
import importlib.util, os, sys
sys.path.insert(0, '/verif')
root = sys.argv[1] if len(sys.argv) > 1 else os.path.join(os.path.dirname(os.path.abspath(__file__)), "interp_cases")
os.environ['SA_REPO'] = root
from sa import core, heap as H      # noqa: E402
spec = importlib.util.spec_from_file_location('t_native', os.path.join(root, 'lib/debian/t.py'))
native = importlib.util.module_from_spec(spec)
spec.loader.exec_module(native)
src = core.Source()
mod = src.mod('t')


def plain(heap, v):
    if isinstance(v, H.Ref):
        if heap.is_list(v):
            return [plain(heap, x) for x in heap.items(v)]
        o = heap.objs[v.name]
        if o['__class__'] == 'dict':
            return {plain(heap, k): plain(heap, x) for k, x in o['entries']}
        return ('obj', o['__class__'])
    if isinstance(v, tuple):
        return tuple(plain(heap, x) for x in v)
    if isinstance(v, list):
        return [plain(heap, x) for x in v]
    if isinstance(v, (set, frozenset)):
        return set(plain(heap, x) for x in v)
    if hasattr(v, 'concrete') and not isinstance(v, str):
        return v.concrete()
    if isinstance(v, H.PyIter):
        return ('iter', [plain(heap, x) for x in v.drain()])
    return v


bad = 0
for name in sorted(n for n in dir(native) if n.startswith('f') and n[1:].isdigit()):
    want = getattr(native, name)([1, 2, 3, 4, 5])
    heap = H.Heap(mod)
    heap.native_regex = True
    it = H.Interp(heap)
    try:
        got = plain(heap, it.call(H.Closure(mod.funcs[name].node, {}, None, None), [heap.new_list([1, 2, 3, 4, 5])]))
    except H.Raised as x:
        got = 'raises %s' % x.exc
    except core.AnalysisError as x:
        got = 'REFUSED: %s' % x
    except Exception as x:      # pylint: disable=broad-except
        got = 'INTERNAL %s: %s' % (type(x).__name__, x)

    def norm(v):
        if isinstance(v, tuple):
            return tuple(norm(x) for x in v)
        if isinstance(v, list):
            return [norm(x) for x in v]
        if isinstance(v, (set, frozenset)):
            return sorted(norm(x) for x in v)
        if type(v).__name__ == 'Match' or v.__class__.__name__ == 'Match':
            return 'match'
        return v
    if norm(got) != norm(want):
        bad += 1
        kind = 'refused' if isinstance(got, str) and got.startswith('REFUSED') else 'DIFFERS'
        print('%s %s\n   evaluator: %r\n   CPython:   %r' % (name, kind, got, want))
print('%d functions, %d differ or are refused' % (len([n for n in dir(native) if n.startswith('f') and n[1:].isdigit()]), bad))

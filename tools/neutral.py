#!/venv/bin/python
"""development aid for behaviour-preserving variants (false-alarm testing).
   neutral.py confirm <dir>        scratch worktree: suite passes with the patch, demo digest identical with/without
   neutral.py check <dir> [props]  run the property checks on a scratch copy with the patch; expected verdict: rc=0
"""
import json, os, shutil, subprocess, sys, tempfile
cmd, d = sys.argv[1], sys.argv[2].rstrip('/')
meta = json.load(open(os.path.join(d, 'meta.json')))
pid = meta['property']
label = os.path.basename(os.path.dirname(d)) + '/' + os.path.basename(d)
if cmd == 'check':
    props = sys.argv[3] if len(sys.argv) > 3 else pid
    tmp = tempfile.mkdtemp(prefix='saneut-')
    try:
        shutil.copytree('/repo/lib', os.path.join(tmp, 'lib'), ignore=shutil.ignore_patterns('__pycache__'))
        r = subprocess.run(['patch', '-p1', '-s', '-i', os.path.abspath(os.path.join(d, 'patch.diff'))], cwd=tmp, capture_output=True, text=True)
        if r.returncode:
            print('PATCH DOES NOT APPLY', r.stdout, r.stderr); sys.exit(3)
        env = dict(os.environ, SA_REPO=tmp, SA_EVIDENCE=os.path.join(tmp, 'ev'))
        bad = 0
        for q in props.split(','):
            r = subprocess.run(['/venv/bin/python', '/verif/sa/run.py', '--property', q], env=env, capture_output=True, text=True)
            verdict = 'SILENT' if r.returncode == 0 else 'FALSE-ALARM' if r.returncode == 1 else 'ANALYSIS-ERROR'
            if r.returncode:
                bad = 1
                out = [l for l in r.stdout.splitlines() if not l.startswith('VIOLATION')]
                print('\n'.join(out[:int(os.environ.get('MAXLINES', '6'))]))
            print('%s %s rc=%d %s' % (label, q, r.returncode, verdict))
        sys.exit(bad)
    finally:
        shutil.rmtree(tmp)
elif cmd == 'confirm':
    wt = tempfile.mkdtemp(prefix='saconf-')
    os.rmdir(wt)
    subprocess.run(['git', '-C', '/repo', 'worktree', 'add', '-q', wt, 'HEAD'], check=True)
    try:
        env = dict(os.environ, PYTHONPATH=os.path.join(wt, 'lib'))
        demo = os.path.abspath(os.path.join(d, 'demo.py'))
        r0 = subprocess.run(['/venv/bin/python', demo], cwd=wt, env=env, capture_output=True, text=True)
        a = subprocess.run(['git', 'apply', os.path.abspath(os.path.join(d, 'patch.diff'))], cwd=wt, capture_output=True, text=True)
        if a.returncode:
            print('PATCH DOES NOT APPLY', a.stderr); sys.exit(3)
        r1 = subprocess.run(['/venv/bin/python', demo], cwd=wt, env=env, capture_output=True, text=True)
        t = subprocess.run(['/venv/bin/python', '-m', 'pytest', '-q', '-p', 'no:cacheprovider'], cwd=wt, env=env, capture_output=True, text=True)
        tail = t.stdout.strip().splitlines()[-1] if t.stdout.strip() else ''
        def dig(t):
            ls = [l for l in t.splitlines() if 'digest' in l.lower()]
            return ls if ls else t
        same = r0.returncode == 0 and r1.returncode == 0 and dig(r0.stdout) == dig(r1.stdout) and r0.stdout.strip() != ''
        ok = same and '234 passed' in tail and 'failed' not in tail
        print('%s: demo same=%s suite="%s" -> %s' % (label, same, tail, 'CONFIRMED' if ok else 'NOT CONFIRMED'))
        sys.exit(0 if ok else 1)
    finally:
        subprocess.run(['git', '-C', '/repo', 'worktree', 'remove', '--force', wt])

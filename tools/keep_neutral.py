#!/venv/bin/python
"""copies neutral variants listed as CONFIRMED in /tmp/neutral-out/confirm.txt into /verif/neutral/<id>-nk/"""
import json, os, shutil, sys
for line in open('/tmp/neutral-out/confirm.txt'):
    if '-> CONFIRMED' not in line:
        continue
    label = line.split(':')[0]
    pid, nk = label.split('/')
    d = os.path.join('/tmp/neutral-out', pid, nk)
    out = os.path.join('/verif/neutral', '%s-%s' % (pid, nk))
    os.makedirs(out, exist_ok=True)
    for f in ('patch.diff', 'demo.py'):
        shutil.copy(os.path.join(d, f), os.path.join(out, f))
    meta = json.load(open(os.path.join(d, 'meta.json')))
    meta['confirmed_by_me'] = 'tools/neutral.py confirm: ' + line.strip()
    json.dump(meta, open(os.path.join(out, 'meta.json'), 'w'), indent=1)
    print('kept', out)

#!/venv/bin/python
"""prints the markdown table "seeded change -> detecting rule" from /verif/seeded/*/meta.json and the current verdicts of tools/selftest.py"""
import glob, json, os, re, subprocess, sys
rows = []
st = subprocess.run(['/venv/bin/python', '/verif/tools/selftest.py'], capture_output=True, text=True).stdout
verdict = {}
for l in st.splitlines():
    m = re.match(r'(seeded|neutral)\s+(\S+)\s+(\S+)\s+(ok|UNEXPECTED)\s*(.*)', l)
    if m:
        verdict[(m.group(1), m.group(2))] = (m.group(3), m.group(4), m.group(5))
print('| change | what was changed (from the author\'s summary) | verdict | first report |')
print('|---|---|---|---|')
for d in sorted(glob.glob('/verif/seeded/*')):
    name = os.path.basename(d)
    meta = json.load(open(os.path.join(d, 'meta.json')))
    v = verdict.get(('seeded', name), ('?', '?', ''))
    summ = ' '.join(meta.get('summary', '').split())[:170].replace('|', '\\|')
    rep = v[2]
    rule = re.search(r'(C\d\d\.R\d+)', rep)
    first = re.sub(r'\(lib/[^)]*\)', '', rep)[:150].replace('|', '\\|')
    print('| %s | %s | %s | %s |' % (name, summ, 'detected' if v[0] == 'VIOLATION' else v[0], first))
print()
print('| neutral variant | refactoring | verdict |')
print('|---|---|---|')
for d in sorted(glob.glob('/verif/neutral/*')):
    name = os.path.basename(d)
    meta = json.load(open(os.path.join(d, 'meta.json')))
    v = verdict.get(('neutral', name), ('?', '?', ''))
    summ = ' '.join(meta.get('summary', '').split())[:200].replace('|', '\\|')
    print('| %s | %s | %s |' % (name, summ, v[0]))

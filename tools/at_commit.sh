#!/bin/sh
# development aid: run properties ($2, comma separated) on the tree of commit $1 of /repo (default: pinned snapshot)
c=${1:-7a73294}; props=$2
t=$(mktemp -d /tmp/sa-at-XXXX)
git -C /repo archive $c lib | tar -x -C $t
for p in $(echo $props | tr , ' '); do SA_REPO=$t SA_EVIDENCE=$t/ev /venv/bin/python /verif/sa/run.py --property $p | grep -v '^VIOLATION' | head -${MAXLINES:-8}; done
rm -rf $t

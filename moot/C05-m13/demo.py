"""C05: edits through the dict interface of the format-preserving parser are
local and read back - for every sequence of set/add/delete operations and
every supported form of key (a name, (name, index), or a field-name token)."""
from debian._deb822_repro import parse_deb822_file

ORIGINAL = (
    "# the source paragraph\n"
    "Source: foo\n"
    "# where it goes\n"
    "Section:   misc\n"
    "Priority: optional\n"
    "\n"
    "Package: foo-bin\n"
    "# multi-line\n"
    "Depends: a,\n"
    "# inline\n"
    "         b\n"
    "Description: short\n"
    " long"
)


def parse(text):
    return parse_deb822_file(text.splitlines(keepends=True))


doc = parse(ORIGINAL)
src, binp = list(doc)

# The keys of a paragraph as field-name tokens (the unambiguous form of key)
tokens = [kv.field_token for kv in src.iter_parts()]
assert [str(t.text) for t in tokens] == ["Source", "Section", "Priority"]
section = tokens[1]

# first edit through the token: fine
src[section] = "devel"
expected = ORIGINAL.replace("Section:   misc\n", "Section: devel\n")
assert doc.dump() == expected, doc.dump()

# second edit of the same field, through the same key
try:
    src[section] = "libs"
except Exception as e:  # noqa
    raise AssertionError("setting Section a second time through its key was refused: %r" % (e,))
expected = ORIGINAL.replace("Section:   misc\n", "Section: libs\n")
assert doc.dump() == expected, doc.dump()

# the same on every field of the paragraph, twice, plus lookups and a delete
for rounds in range(2):
    for t in tokens:
        src[t] = src[t] + "+"
assert src[section] == "libs++" and src["section"] == "libs++"
del src[tokens[2]]
expected = (ORIGINAL.replace("Source: foo\n", "Source: foo++\n")
            .replace("Section:   misc\n", "Section: libs++\n")
            .replace("Priority: optional\n", ""))
assert doc.dump() == expected, doc.dump()

# second paragraph: multi-line value with a comment, set twice through its token
dep = binp.get_kvpair_element("Depends").field_token
binp[dep] = "x,\n y"
binp[dep] = "x,\n y,\n z"
binp["New"] = "1"
expected = (expected.replace("Depends: a,\n# inline\n         b\n", "Depends: x,\n y,\n z\n")
            + "\nNew: 1\n")
assert doc.dump() == expected, doc.dump()

# and the dump reads back
again = parse(doc.dump())
p1, p2 = list(again)
assert list(p1.keys()) == ["Source", "Section"] and p1["Section"] == "libs++"
assert list(p2.keys()) == ["Package", "Depends", "Description", "New"]
assert p2["Depends"] == "x,\n y,\n z" and p2["Description"] == "short\n long"
print("ok")

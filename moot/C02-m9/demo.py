"""C02: the parsed paragraphs do not depend on the input form.

A .dsc given as a str, as a list of str lines and as a *text file object*
(whatever encoding that file object uses to turn the file into str) must give
the same fields, for the constructor and for iter_paragraphs alike.
"""
import os
import tempfile
import warnings

from debian import deb822

warnings.simplefilter("ignore")

TEXT = (
    "Format: 3.0 (quilt)\n"
    "Source: hello\n"
    "Maintainer: José Martínez <jose@example.org>\n"
    "Version: 2.10-3\n"
    "Files:\n"
    " 6f5a7a2d8e5b5b1b0f0c0e5b2f6a3c11 725946 hello_2.10.orig.tar.gz\n"
    " 27ab798c1d8d9048ffc8127e9b8dbfca 12688 hello_2.10-3.debian.tar.xz\n"
)

reference = deb822.Dsc(TEXT)
ref_items = [(k, reference.get_as_string(k)) for k in reference]
assert reference['Maintainer'].startswith("José Martínez")


def items(p):
    return [(k, p.get_as_string(k)) for k in p]


def check(encoding):
    fd, name = tempfile.mkstemp()
    try:
        with os.fdopen(fd, 'wb') as f:
            f.write(TEXT.encode(encoding))
        # constructor
        with open(name, encoding=encoding) as f:
            assert items(deb822.Dsc(f)) == ref_items, ("Dsc(file)", encoding)
        # iter_paragraphs
        with open(name, encoding=encoding) as f:
            paras = list(deb822.Dsc.iter_paragraphs(f))
        assert len(paras) == 1, (encoding, len(paras))
        assert items(paras[0]) == ref_items, ("iter_paragraphs(file)", encoding, items(paras[0]))
    finally:
        os.remove(name)


# list of str lines
assert items(list(deb822.Dsc.iter_paragraphs(TEXT.splitlines(True)))[0]) == ref_items
for enc in ('utf-8', 'utf-8-sig', 'latin-1'):
    check(enc)
print("ok")

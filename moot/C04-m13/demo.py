"""C04: a changelog that strict parsing accepts is written back byte-for-byte.

The trailer line of the first block ends in two blanks after the time zone
(dpkg accepts that, and so does the strict parser: the sample is the trailer
of python-debian 0.1.2 in the library's own test data).  Parsing it must not
warn, and str() must give the text back unchanged; author and date of a block
must be enough to rebuild the trailer line that was read.
"""
import warnings

from debian.changelog import Changelog

TRAILER_1 = (" -- Reinhard Tartler <siretart@tauware.de>"
             "  Thu, 14 Jun 2007 19:54:13 +0100  ")
TRAILER_2 = (" -- James Westby <jw+debian@jameswestby.net>"
             "  Tue, 30 Jan 2007 20:56:44 +0000")
TEXT = """python-debian (0.1.2) unstable; urgency=low

  [ James Westby ]
  * debian_support.py
    - Support ~ in version numbers when python-apt is not installed.

%s

python-debian (0.1.1) unstable; urgency=low

  * changelog.py: added a method to write the changelog to an open file.

%s
""" % (TRAILER_1, TRAILER_2)

with warnings.catch_warnings():
    warnings.simplefilter("error")
    cl = Changelog(TEXT, strict=True)      # must neither raise nor warn

blocks = list(cl)
assert [str(b.version) for b in blocks] == ['0.1.2', '0.1.1']
assert [b.package for b in blocks] == ['python-debian'] * 2
assert blocks[0].author == 'Reinhard Tartler <siretart@tauware.de>'
assert blocks[1].author == 'James Westby <jw+debian@jameswestby.net>'

# the text comes back byte for byte
out = str(cl)
assert out == TEXT, "round trip differs: wrote %r for %r" % (
    [l for l in out.split('\n') if l not in TEXT.split('\n')],
    [l for l in TEXT.split('\n') if l not in out.split('\n')])
assert str(Changelog(out, strict=True)) == out

# and what the blocks expose is enough to rebuild the trailer lines read
for block, line in zip(blocks, (TRAILER_1, TRAILER_2)):
    rebuilt = " -- %s  %s" % (block.author, block.date)
    assert rebuilt == line, (rebuilt, line)

print("ok")

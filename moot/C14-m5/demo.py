"""C14: assigning a component of a Version either yields the correspondingly
recomposed valid version or raises ValueError leaving the object unchanged."""
from debian.debian_support import Version


def state(v):
    return (str(v), v.epoch, v.upstream_version, v.debian_revision)


def recompose(epoch, upstream, revision):
    s = upstream
    if epoch is not None:
        s = epoch + ":" + s
    if revision:                     # None / "" : no revision
        s = s + "-" + revision
    return s


for text in ["1:1.4.1-1", "7.1.ds-1", "2:1.0.4~rc2-1ubuntu1", "0.4.23debian1"]:
    for new_revision in ["2", None, "", "0+b1"]:
        v = Version(text)
        before = state(v)
        epoch, upstream = v.epoch, v.upstream_version
        try:
            v.debian_revision = new_revision
        except ValueError:
            assert state(v) == before, "failed assignment changed the object"
            continue
        expected = recompose(epoch, upstream, new_revision)
        assert str(v) == expected, \
            "%s: debian_revision=%r gave %r, expected %r" % (text, new_revision, str(v), expected)
        assert (v.epoch, v.upstream_version) == (epoch, upstream), \
            "%s: debian_revision=%r changed the other components: %r" % (text, new_revision, state(v))
        assert v.debian_revision == (new_revision or None)
        # and the result is what a fresh parse of the string gives
        assert state(Version(str(v))) == state(v)
print("ok")

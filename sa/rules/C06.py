"""C06 -- ar members are exact, isolated, file-like views of the archive."""
import ast

from .. import cfg, normalize, affinterp
from ..core import AnalysisError, Func, norm, set_parents, walk_no_nested, mangle, clone as core_clone
from ..flow import Aff, Facts, cmp_to_constraints

META = {
    'design_ref': 'DESIGN.md §5 C06',
    'technique': 'bounded-read proof (path enumeration on the CFG of the normalised function -- helpers inlined, aliases substituted -- with Fourier-Motzkin entailment of 0 <= size <= end-cur at every call on the underlying file), dominance/post-dominance rules for the seek-before / tell-after discipline, table agreement of the header cuts (slices or struct formats) with ar(5), parity evaluation of the padding skip over sentinel-loop idioms, seek/tell interpreted on integer-affine values with linear path facts for each whence value (sa.affinterp), truthiness of the loop sentinel; read(size) interpreted on affine values per region of (size, end - cur) against the in-memory-file reference; iterator interpreted on a three-line member; readlines(hint) interpreted against io.IOBase.readlines; result of seek on affine values; the member-name expression of the header paths evaluated on symbolic GNU / BSD name fields; every raising path of seek implies a target in front of the member; histories of up to three calls on two members behind one model file object interpreted against io.BytesIO; the private attributes of the member class are recognised by role (the file object whose seek is called, the cursor it is positioned to, start / end / size where the member is made) and renamed to the vocabulary of the rules; the archive walk interpreted through the constructor of the archive class on a model archive of five members (sizes odd, even, zero; two names twice), read through the public accessors; a header whose name has multi-byte characters',
    'level_text': 'Static decision on every path of ArMember.read/readline/readlines/seek/tell and of the header walk: no call can '
                  'return a byte outside the member, every read is preceded by a seek to the member\'s own cursor and followed by a '
                  'cursor update, the header fields are cut at the ar(5) offsets, odd sizes skip one padding byte, seek/tell '
                  'implement the three whence bases.  Equality with an in-memory file for arbitrary histories is not decided.',
    'level_note': 'trusted: CFG builder, the difference-bound prover, the ar(5) layout table written into the rule',
}

M = 'arfile'
AR5 = {'name': (0, 16), 'mtime': (16, 28), 'owner': (28, 34), 'group': (34, 40), 'fmode': (40, 48), 'size': (48, 58), 'magic': (58, 60)}
NUMERIC = {'mtime', 'owner', 'group', 'size'}
DATA_CALLS = ('read', 'readline', 'readlines', 'read1', 'readinto', '__next__', 'readall')


class Translator:
    """expressions over self.__end / __cur / __offset / locals -> affine forms with SSA-like versions"""

    def __init__(self):
        self.ver = {}

    def sym(self, text):
        return '%s#%d' % (text, self.ver.get(text, 0))

    def kill(self, text):
        self.ver[text] = self.ver.get(text, 0) + 1

    def aff(self, e):
        if isinstance(e, ast.Constant) and isinstance(e.value, int) and not isinstance(e.value, bool):
            return Aff.const(e.value)
        if isinstance(e, (ast.Name, ast.Attribute)):
            return Aff.var(self.sym(norm(e)))
        if isinstance(e, ast.BinOp) and isinstance(e.op, (ast.Add, ast.Sub)):
            l, r = self.aff(e.left), self.aff(e.right)
            if l is None or r is None:
                return None
            return l + r if isinstance(e.op, ast.Add) else l - r
        if isinstance(e, ast.UnaryOp) and isinstance(e.op, ast.USub):
            v = self.aff(e.operand)
            return None if v is None else -v
        return None


def facts_on_path(g, path, tr):
    """walk one path; returns Facts at its end (the target node itself is not executed)"""
    facts = Facts()
    for nid, lab in path:
        n = g.nodes[nid]
        if n.kind == 'test' and lab in (True, False):
            facts = add_test(facts, n.ast, lab, tr)
        elif n.kind == 'stmt' and isinstance(n.ast, ast.Assign) and len(n.ast.targets) == 1 \
                and isinstance(n.ast.targets[0], (ast.Name, ast.Attribute)):
            v = tr.aff(n.ast.value)
            # min(a, b) gives two upper bounds
            mins = None
            if isinstance(n.ast.value, ast.Call) and norm(n.ast.value.func) == 'min' and len(n.ast.value.args) == 2:
                mins = [tr.aff(a) for a in n.ast.value.args]
            tr.kill(norm(n.ast.targets[0]))
            t = Aff.var(tr.sym(norm(n.ast.targets[0])))
            if v is not None:
                facts = facts.add(t - v).add(v - t)
            elif mins and all(m is not None for m in mins):
                nonneg = all(facts.entails(m) for m in mins)
                for m in mins:
                    facts = facts.add(m - t)
                if nonneg:
                    facts = facts.add(t)       # the minimum of non-negative values
        elif n.kind == 'stmt' and isinstance(n.ast, ast.AugAssign) and isinstance(n.ast.target, (ast.Name, ast.Attribute)):
            old = Aff.var(tr.sym(norm(n.ast.target)))
            d = tr.aff(n.ast.value)
            tr.kill(norm(n.ast.target))
            t = Aff.var(tr.sym(norm(n.ast.target)))
            if d is not None and isinstance(n.ast.op, (ast.Add, ast.Sub)):
                nv = old + d if isinstance(n.ast.op, ast.Add) else old - d
                facts = facts.add(t - nv).add(nv - t)
    return facts


def add_test(facts, test, pol, tr):
    if isinstance(test, ast.BoolOp):
        if (isinstance(test.op, ast.And) and pol) or (isinstance(test.op, ast.Or) and not pol):
            for v in test.values:
                facts = add_test(facts, v, pol, tr)
        return facts
    if isinstance(test, ast.UnaryOp) and isinstance(test.op, ast.Not):
        return add_test(facts, test.operand, not pol, tr)
    if isinstance(test, ast.Compare):
        items = [test.left] + test.comparators
        if pol:
            for l, op, r in zip(items, test.ops, items[1:]):
                la, ra = tr.aff(l), tr.aff(r)
                if la is not None and ra is not None:
                    cs = cmp_to_constraints(la, op, ra)
                    for c in cs or []:
                        facts = facts.add(c)
        elif len(test.ops) == 1:
            la, ra = tr.aff(items[0]), tr.aff(items[1])
            neg = {ast.Lt: ast.GtE, ast.LtE: ast.Gt, ast.Gt: ast.LtE, ast.GtE: ast.Lt}
            if la is not None and ra is not None and type(test.ops[0]) in neg:
                for c in cmp_to_constraints(la, neg[type(test.ops[0])](), ra):
                    facts = facts.add(c)
    return facts


def nfunc(f):
    """the function with its small helpers inlined and plain aliases (fp = self.__fp) substituted"""
    node, _ = normalize.inline_helpers(f)
    node, _ = normalize.propagate_aliases(node, only_simple=True, also_bool=True)
    node = normalize.ifexp_to_if(node)
    set_parents(node)
    return Func(f.module, node, f.qual, f.cls)


def fp_calls(fnode):
    out = []
    for c in ast.walk(fnode):
        if isinstance(c, ast.Call) and isinstance(c.func, ast.Attribute) and norm(c.func.value) == 'self.__fp':
            out.append(c)
    return out


def r1_bounded_reads(rep, src):
    m = src.mod(M)
    n_sites = 0
    for meth in [f for q, f in sorted(m.funcs.items()) if q.startswith('ArMember.') and '.' not in q[len('ArMember.'):]]:
        rep.saw_func(meth)
        meth = nfunc(meth)
        # iteration over the raw file object
        for node in ast.walk(meth.node):
            if isinstance(node, (ast.For, ast.comprehension)) and norm(node.iter) == 'self.__fp':
                n_sites += 1
                rep.fail('C06.R1', meth.site, 'iteration over the underlying file', 'iterating the shared file object returns lines beyond the member',
                         where='%s:%d' % (meth.module.relpath, getattr(node, 'lineno', meth.node.lineno)))
        calls = [c for c in fp_calls(meth.node) if c.func.attr in DATA_CALLS]
        if not calls:
            continue
        g = cfg.CFG(meth.node)
        for c in calls:
            n_sites += 1
            what = norm(c)
            where = '%s:%d' % (meth.module.relpath, c.lineno)
            if c.func.attr in ('readlines', 'readall', '__next__'):
                rep.fail('C06.R1', meth.site, what, '%s on the underlying file is not bounded by the member end' % c.func.attr, where=where)
                continue
            if not c.args:
                rep.fail('C06.R1', meth.site, what, 'no size argument: the call reads past the end of the member (into the next header) '
                         'whenever the data does not end with a newline / for read() always', where=where)
                continue
            node = g.node_for(c)
            paths = g.paths_to(node.id)
            rep.analysed['paths'] += len(paths)
            bad = None
            for p in paths:
                tr = Translator()
                facts = facts_on_path(g, p, tr)
                room = Aff.var(tr.sym('self.__end')) - Aff.var(tr.sym('self.__cur'))
                a0 = c.args[0]
                if isinstance(a0, ast.Call) and norm(a0.func) == 'min' and len(a0.args) >= 2 and not a0.keywords:
                    alts = [tr.aff(x) for x in a0.args]
                    proved = all(x is not None and facts.entails(x) for x in alts) and any(facts.entails(room - x) for x in alts if x is not None)
                else:
                    size = tr.aff(a0)
                    proved = size is not None and facts.entails(size) and facts.entails(room - size)
                if not proved:
                    bad = (p, facts, None)
                    break
            if bad is None:
                rep.ok('C06.R1', meth.site, what, '0 ≤ %s ≤ end − cur proved on %d path(s)' % (norm(c.args[0]), len(paths)))
            else:
                p, facts, size = bad
                rep.fail('C06.R1', meth.site, what,
                         'cannot prove 0 ≤ %s ≤ self.__end − self.__cur on the path [%s] (known: %r): the call can return bytes beyond the member'
                         % (norm(c.args[0]), g.describe_path([x for x, _ in p]), facts), where=where)
    if n_sites < 2:
        raise AnalysisError('only %d data-returning calls on the underlying file found in ArMember' % n_sites)


def r2_position_discipline(rep, src):
    m = src.mod(M)
    for mname in ('read', 'readline'):
        f = nfunc(src.func('%s:ArMember.%s' % (M, mname)))
        g = cfg.CFG(f.node)
        calls = [c for c in fp_calls(f.node) if c.func.attr in DATA_CALLS]
        seeks = [g.node_for(c) for c in fp_calls(f.node) if c.func.attr == 'seek' and [norm(a) for a in c.args] == ['self.__cur']]
        for c in calls:
            n = g.node_for(c)
            where = '%s:%d' % (f.module.relpath, c.lineno)
            # (a) dominated by seek(cur) with no cursor change / other positioning call in between
            doms = [s for s in seeks if g.dominates(s.id, n.id) and s.id != n.id]
            ok = False
            for s in doms:
                movers = [x for x in g.nodes if x.ast is not None and x.id not in (s.id, n.id) and x.kind in ('stmt', 'test', 'return') and (
                    any(isinstance(t, ast.Attribute) and norm(t) == 'self.__cur' and isinstance(t.ctx, ast.Store) for t in ast.walk(x.ast)) or
                    any(isinstance(cc, ast.Call) and isinstance(cc.func, ast.Attribute) and norm(cc.func.value) == 'self.__fp'
                        and cc.func.attr in DATA_CALLS + ('seek',) for cc in ast.walk(x.ast)))]
                between = [x for x in movers if g.exists_path(s.id, x.id) and g.exists_path(x.id, n.id)]
                if not between:
                    ok = True
            if ok:
                rep.ok('C06.R2', f.site, norm(c) + ': positioned on the member cursor', 'self.__fp.seek(self.__cur) dominates the call')
            else:
                rep.fail('C06.R2', f.site, norm(c) + ': positioned on the member cursor',
                         'the shared file object is not (re)positioned to this member\'s cursor right before the read: interleaved use of '
                         'another member makes this call return that member\'s bytes', where=where)
            # (b) cursor update on every path to a normal exit
            def advances(v):
                """the new cursor: where the file object now stands, or the old cursor plus the number of bytes obtained"""
                if norm(v) == 'self.__fp.tell()':
                    return True
                if isinstance(v, ast.BinOp) and isinstance(v.op, ast.Add):
                    a_, b_ = norm(v.left), norm(v.right)
                    return (a_ == 'self.__cur' and b_.startswith('len(')) or (b_ == 'self.__cur' and a_.startswith('len('))
                return False
            upd = [x for x in g.stmts() if x.kind == 'stmt' and isinstance(x.ast, (ast.Assign, ast.AugAssign)) and (
                (isinstance(x.ast, ast.Assign) and norm(x.ast.targets[0]) == 'self.__cur' and advances(x.ast.value)) or
                (isinstance(x.ast, ast.AugAssign) and norm(x.ast.target) == 'self.__cur' and isinstance(x.ast.op, ast.Add) and norm(x.ast.value).startswith('len(')))]
            if not g.exists_path(n.id, g.exit.id, avoid=[u.id for u in upd if u.id != n.id]) or any(u.id == n.id for u in upd):
                rep.ok('C06.R2', f.site, norm(c) + ': cursor updated', 'every path to a return passes the cursor update')
            else:
                rep.fail('C06.R2', f.site, norm(c) + ': cursor updated', 'a return is reachable after the read without updating self.__cur: '
                         'the next call returns the same bytes again', where=where)
        # (c) out-of-range early return
        # a test that is true whenever cur >= end (entailed by that assumption, through `or` / `and`)
        def entailed(test, facts, tr):
            if isinstance(test, ast.BoolOp):
                rs = [entailed(v, facts, tr) for v in test.values]
                return any(rs) if isinstance(test.op, ast.Or) else all(rs)
            if isinstance(test, ast.UnaryOp) and isinstance(test.op, ast.Not):
                return refuted(test.operand, facts, tr)
            if isinstance(test, ast.Compare):
                # a chain is the conjunction of its links
                terms = [test.left] + list(test.comparators)
                for l_, op, r_ in zip(terms, test.ops, terms[1:]):
                    la, ra = tr.aff(l_), tr.aff(r_)
                    cs = cmp_to_constraints(la, op, ra) if la is not None and ra is not None else None
                    if not (bool(cs) and all(facts.entails(c) for c in cs)):
                        return False
                return True
            return False

        NEG = {ast.Lt: ast.GtE, ast.LtE: ast.Gt, ast.Gt: ast.LtE, ast.GtE: ast.Lt}

        def refuted(test, facts, tr):
            # false whenever the facts hold
            if isinstance(test, ast.BoolOp):
                rs = [refuted(v, facts, tr) for v in test.values]
                return all(rs) if isinstance(test.op, ast.Or) else any(rs)
            if isinstance(test, ast.UnaryOp) and isinstance(test.op, ast.Not):
                return entailed(test.operand, facts, tr)
            if isinstance(test, ast.Compare):
                terms = [test.left] + list(test.comparators)
                for l_, op, r_ in zip(terms, test.ops, terms[1:]):
                    if type(op) in NEG and entailed(ast.Compare(left=l_, ops=[NEG[type(op)]()], comparators=[r_]), facts, tr):
                        return True
            return False
        tr0 = Translator()
        at_end = Facts([tr0.aff(ast.parse('self.__cur - self.__end', mode='eval').body)])
        outr = [t for t in g.nodes if t.kind == 'test' and entailed(t.ast, at_end, tr0)]
        okr = False
        for t in outr:
            for d, lab in g.succ[t.id]:
                if lab is True and g.nodes[d].kind == 'return' and norm(g.nodes[d].ast.value) == "b''":
                    okr = True
        if okr:
            rep.ok('C06.R2', f.site, 'end of member returns b\'\'', 'cur >= end → return b\'\'', nontrivial=False)
        else:
            rep.fail('C06.R2', f.site, 'end of member returns b\'\'', 'no early return of b\'\' when the cursor is at/after the member end', where=f.where)
    # readlines is built on the bounded readline and stops at the first empty result
    f = src.func('%s:ArMember.readlines' % M)
    rep.saw_func(f)
    # (the function and the helpers of the class it calls, transitively)
    nodes, todo = [], [f]
    while todo:
        g_ = todo.pop()
        if any(g_ is x for x in nodes):
            continue
        nodes.append(g_)
        for c in ast.walk(g_.node):
            if isinstance(c, ast.Call) and isinstance(c.func, ast.Attribute) and norm(c.func.value) == 'self' and c.func.attr not in ('readline', 'read'):
                h = f.module.funcs.get('ArMember.' + c.func.attr)
                if h is not None:
                    rep.saw_func(h)
                    todo.append(h)
    rl = [c for g_ in nodes for c in ast.walk(g_.node) if isinstance(c, ast.Attribute) and norm(c) == 'self.readline']     # called, or handed to iter(f, sentinel)
    raw = [c for g_ in nodes for c in fp_calls(g_.node) if c.func.attr in DATA_CALLS]
    if rl and not raw:
        rep.ok('C06.R2', f.site, 'readlines uses the member readline', 'loop over self.readline()', nontrivial=False)
    elif raw:
        pass    # already reported by R1
    else:
        rep.fail('C06.R2', f.site, 'readlines uses the member readline', 'readlines is not built on the bounded readline', where=f.where)


def r3_header_table(rep, src):
    f = src.func('%s:ArMember.from_file' % M)
    rep.saw_func(f)
    mod = src.mod(M)
    consts = {'FILE_HEADER_LENGTH': 60, 'GLOBAL_HEADER': b'!<arch>\n', 'FILE_MAGIC': b'`\n'}
    for k, v in consts.items():
        got = mod.consts.get('', {}).get(k, None)
        if got == v:
            rep.ok('C06.R3', M + ':' + k, 'constant', repr(v), nontrivial=False)
        else:
            rep.fail('C06.R3', M + ':' + k, 'constant', '%s is %r, ar(5) says %r' % (k, got, v))
    ghl = mod.const_nodes.get('', {}).get('GLOBAL_HEADER_LENGTH')
    if ghl is not None and (norm(ghl) == 'len(GLOBAL_HEADER)' or (isinstance(ghl, ast.Constant) and ghl.value == 8)):
        rep.ok('C06.R3', M + ':GLOBAL_HEADER_LENGTH', 'constant', norm(ghl), nontrivial=False)
    else:
        rep.fail('C06.R3', M + ':GLOBAL_HEADER_LENGTH', 'constant', 'GLOBAL_HEADER_LENGTH is not the length of the global header')
    # the header fields, read off the successful paths of from_file (helpers inlined, locals substituted away): every attribute
    # stored on the new member is an expression over the one header read; its cut is a slice of that buffer (literal bounds, a
    # slice constant, or a field of a struct format)
    from .. import paths
    # (the file object is the first parameter of the static method -- the one after the class when it is a class method)
    fpn = f.params()[1] if any(norm(d) == 'classmethod' for d in f.node.decorator_list) and len(f.params()) > 1 else f.params()[0]
    fnode, _inl = normalize.inline_helpers(f, depth=2)
    folder = paths.Folder(paths.module_consts(mod, f.cls or ''))
    ps = [p_ for p_ in paths.function_paths(fnode, folder) if p_.outcome[0] == 'return' and p_.outcome[1] is not None
          and not (isinstance(p_.outcome[1], ast.Constant) and p_.outcome[1].value is None)]
    if not ps:
        raise AnalysisError('%s: no path returns a member' % f.site)
    rep.analysed['paths'] += len(ps)

    def is_header(e):
        return isinstance(e, ast.Call) and isinstance(e.func, ast.Attribute) and e.func.attr == 'read' and norm(e.func.value) == fpn and len(e.args) == 1

    def struct_layout(fmt):
        """[(lo, hi)] of a struct format made of fixed-width byte fields (Ns) and pad bytes (Nx)"""
        import re as _re
        if not isinstance(fmt, (str, bytes)):
            return None
        if isinstance(fmt, bytes):
            fmt = fmt.decode('ascii')
        fmt = fmt.replace(' ', '')
        if fmt[:1] in '@=<>!':
            fmt = fmt[1:]
        out, pos = [], 0
        for cnt, code in _re.findall(r'(\d*)([a-zA-Z?])', fmt):
            n = int(cnt) if cnt else 1
            if code == 's':
                out.append((pos, pos + n))
                pos += n
            elif code == 'x':
                pos += n
            else:
                return None
        if ''.join('%s%s' % (c, k) for c, k in _re.findall(r'(\d*)([a-zA-Z?])', fmt)) != fmt:
            return None
        return out

    def cut_of(e):
        """(lo, hi) when e is a cut of the header buffer"""
        if isinstance(e, ast.Subscript) and is_header(e.value):
            sl = e.slice
            if isinstance(sl, ast.Slice) and sl.step is None:
                lo, hi = mod_fold(mod, sl.lower) if sl.lower is not None else 0, mod_fold(mod, sl.upper)
                return (lo, hi) if isinstance(lo, int) and isinstance(hi, int) else None
            v = mod_fold(mod, sl)
            if isinstance(v, slice) and v.step is None and isinstance(v.stop, int):
                return (v.start or 0, v.stop)
            return None
        # struct.unpack(fmt, H)[i] / S.unpack(H)[i] / S.unpack_from(H)[i]
        if isinstance(e, ast.Subscript) and isinstance(e.slice, ast.Constant) and isinstance(e.slice.value, int) and isinstance(e.value, ast.Call) \
                and isinstance(e.value.func, ast.Attribute) and e.value.func.attr in ('unpack', 'unpack_from'):
            call = e.value
            base = call.func.value
            lay = None
            if norm(base) == 'struct' and len(call.args) == 2 and is_header(call.args[1]):
                lay = struct_layout(mod_fold(mod, call.args[0]))
            elif call.args and is_header(call.args[0]):
                node = mod.const_nodes.get('', {}).get(norm(base)) if isinstance(base, ast.Name) else None
                if node is None and isinstance(base, ast.Attribute) and isinstance(base.value, ast.Name) and base.value.id in ('cls', 'self', f.cls):
                    node, _c = mod.class_const_node(f.cls, base.attr)
                if isinstance(node, ast.Call) and norm(node.func) in ('struct.Struct', 'Struct') and node.args:
                    lay = struct_layout(mod_fold(mod, node.args[0]))
            if lay is not None and 0 <= e.slice.value < len(lay):
                return lay[e.slice.value]
        return None

    def field_of(e):
        """(lo, hi, numeric) of the single header cut an attribute value is computed from, through text-level wrappers"""
        numeric = False
        cuts = []
        for x in ast.walk(e):
            c = cut_of(x) if isinstance(x, ast.Subscript) else None
            if c is not None:
                cuts.append(c)
            if isinstance(x, ast.Call) and norm(x.func) == 'int' and x.args and any(cut_of(y) is not None for y in ast.walk(x.args[0]) if isinstance(y, ast.Subscript)):
                numeric = True
        cuts = sorted(set(cuts))
        return (cuts[0][0], cuts[0][1], numeric) if len(cuts) == 1 else None
    per_path = []
    name_paths = []
    window_ok = True
    # what the header records may be kept as one record (a named tuple defined at module level) instead of one attribute per field:
    # the construction of the record is the store of its fields, a field read of the construction is that argument
    def record_fields(call):
        if not (isinstance(call, ast.Call) and isinstance(call.func, ast.Name)):
            return None
        tnode = mod.const_nodes.get('', {}).get(call.func.id)
        if not (isinstance(tnode, ast.Call) and norm(tnode.func) in ('collections.namedtuple', 'namedtuple') and len(tnode.args) == 2):
            return None
        flds = mod_fold(mod, tnode.args[1])
        if isinstance(flds, str):
            flds = flds.replace(',', ' ').split()
        if not isinstance(flds, (list, tuple)) or len(call.args) > len(flds):
            return None
        out = dict(zip(flds, call.args))
        for k_ in call.keywords:
            if k_.arg not in flds or k_.arg in out:
                return None
            out[k_.arg] = k_.value
        return out if set(out) == set(flds) else None
    for p_ in ps:
        roles = {}
        stores = {}
        full = {}

        class Fwd(ast.NodeTransformer):
            # a load of an attribute stored earlier on this path is the stored value
            def visit_Attribute(self, n):
                t = norm(n)
                if t in full and isinstance(n.ctx, ast.Load):
                    return full[t]
                n = self.generic_visit(n)
                rf = record_fields(n.value) if isinstance(n, ast.Attribute) else None
                if rf is not None and n.attr in rf:
                    return rf[n.attr]
                return n
        for ev in p_.events:
            if ev[0] == 'store' and '.' in ev[1]:
                v_ = Fwd().visit(core_clone(ev[2]))
                full[ev[1]] = v_
                stores[ev[1].rsplit('.', 1)[1]] = v_
                rf_ = record_fields(v_)
                if rf_ is not None:
                    for fld_, arg_ in rf_.items():
                        stores.setdefault('__' + fld_, arg_)
        for attr, v in stores.items():
            fo = field_of(v)
            if fo is not None and attr.lstrip('_') in AR5:
                roles[attr.lstrip('_')] = fo
        # the magic: a literal of the path compares a cut with FILE_MAGIC and holds for equality
        for t_, pol in p_.conds:
            if isinstance(t_, ast.Compare) and len(t_.ops) == 1 and isinstance(t_.ops[0], (ast.Eq, ast.NotEq)):
                sides = [t_.left, t_.comparators[0]]
                cs = [cut_of(x) for x in sides]
                consts_ = [mod_fold(mod, x) for x in sides]
                if any(c is not None for c in cs) and b'`\n' in consts_ and (pol == isinstance(t_.ops[0], ast.Eq)):
                    c = next(c for c in cs if c is not None)
                    roles['magic'] = (c[0], c[1], False)
        per_path.append(roles)
        name_paths.append(([(Fwd().visit(core_clone(t_)), pol) for t_, pol in p_.conds], stores.get('__name')))
        # data window: offset = tell(), end = offset + size, cur = offset, all over the same position
        off, end, cur, size = (stores.get(k) for k in ('__offset', '__end', '__cur', '__size'))
        tell = '%s.tell()' % fpn
        ok_w = off is not None and norm(off) == tell and cur is not None and norm(cur) == tell and size is not None and isinstance(end, ast.BinOp) \
            and isinstance(end.op, ast.Add) and {norm(end.left), norm(end.right)} == {tell, norm(size)}
        window_ok = window_ok and ok_w
    roles = per_path[0]
    if any(r != roles for r in per_path):
        raise AnalysisError('%s: the header fields differ between the successful paths' % f.site)
    for role, (lo, hi) in AR5.items():
        got = roles.get(role)
        if got is None:
            rep.fail('C06.R3', f.site, 'header field ' + role, 'the %s field of the header is not read' % role, where=f.where)
        elif (got[0] or 0, got[1]) != (lo, hi):
            rep.fail('C06.R3', f.site, 'header field ' + role, '%s is cut at [%s:%s], ar(5) places it at [%d:%d]' % (role, got[0], got[1], lo, hi), where=f.where)
        elif role in NUMERIC and not got[2]:
            rep.fail('C06.R3', f.site, 'header field ' + role, '%s is not converted with int()' % role, where=f.where)
        else:
            rep.ok('C06.R3', f.site, 'header field ' + role, '[%d:%d]%s' % (lo, hi, ' int()' if role in NUMERIC else ''))
    # offsets: no read/seek on fp between the header read and tell()
    moves = [c for c in ast.walk(fnode) if isinstance(c, ast.Call) and isinstance(c.func, ast.Attribute) and norm(c.func.value) == fpn
             and c.func.attr in ('read', 'seek', 'readline', 'readlines', 'read1', 'readinto')]
    hdr_len = [c for c in moves if c.func.attr == 'read' and len(c.args) == 1 and mod_fold(mod, c.args[0]) == 60]
    if len(hdr_len) != 1:
        rep.fail('C06.R3', f.site, 'header read length', 'the header is not read as one block of 60 bytes', where=f.where)
    if window_ok and len(moves) == 1:
        rep.ok('C06.R3', f.site, 'data window', 'offset = tell() right after the header, end = offset + size, cur = offset')
    elif window_ok:
        rep.fail('C06.R3', f.site, 'data window', 'the file is moved between the header read and tell()', where=f.where)
    else:
        rep.fail('C06.R3', f.site, 'data window', 'offset/end/cur are not initialised as tell(), offset + size, offset', where=f.where)
    # the public accessors answer with what the header says: from_file interpreted (sa.heap, decided bytes) on a header whose fields
    # are filled to their full width with different digits -- a cut that is one byte off, or an accessor wired to another field, shows
    # in the value -- and the accessors read on the member it returns (whatever the member keeps the fields in)
    cls = src.cls(M + ':ArMember')
    from .. import heap as H_
    model = {'name': (b'abcdefghijklmnop', 'abcdefghijklmnop'), 'mtime': (b'123456789012', 123456789012), 'owner': (b'345678', 345678), 'group': (b'901234', 901234),
             'fmode': (b'56789012', b'56789012'), 'size': (b'3456789012', 3456789012)}
    header = b''.join(model[k_][0] for k_ in ('name', 'mtime', 'owner', 'group', 'fmode', 'size')) + b'`\n'
    heap_ = H_.Heap(mod, hooks={'.read': lambda it_, a, k: header, '.tell': lambda it_, a, k: 68, 'sys.getfilesystemencoding': lambda it_, a, k: 'utf-8'})
    it_ = H_.Interp(heap_)
    try:
        m_ = it_.call(H_.Closure(f.node, {}, None, f.cls), [heap_.alloc('File', {}, name='@fp'), None])
    except H_.Raised as x_:
        m_ = None
        rep.fail('C06.R3', f.site, 'a header with full-width fields', 'from_file raises %s (line %d)' % (x_.exc, x_.lineno), where=f.where)
    for pub in (('name', 'mtime', 'owner', 'group', 'size', 'fmode') if m_ is not None else ()):
        try:
            got_ = it_.ev(ast.parse('m.%s' % pub, mode='eval').body, {'m': m_}, None)
            got_ = got_.concrete() if hasattr(got_, 'concrete') else got_
        except (H_.Raised, AnalysisError) as x_:
            got_ = 'raises %s' % x_
        if got_ == model[pub][1]:
            rep.ok('C06.R3', M + ':ArMember.' + pub, 'property', 'answers with the %s field of the header' % pub, nontrivial=False)
        else:
            rep.fail('C06.R3', M + ':ArMember.' + pub, 'property', '%s answers %r for a header whose %s field holds %r' % (pub, got_, pub, model[pub][0]))
    # ... and a header whose name has characters of more than one byte (the fields are columns of BYTES: a name that is shorter in
    # characters than in bytes moves nothing)
    name2 = 'caf\u00e9 \u00fcber.x/'
    raw2 = name2.encode('utf-8')
    header2 = raw2.ljust(16) + b'1700000001  ' + b'1000  ' + b'1001  ' + b'100644  ' + b'42        ' + b'`\n'
    if len(header2) == 60:
        heap2 = H_.Heap(mod, hooks={'.read': lambda it_, a, k: header2, '.tell': lambda it_, a, k: 68, 'sys.getfilesystemencoding': lambda it_, a, k: 'utf-8'})
        it2 = H_.Interp(heap2)
        what2 = 'a header whose name has multi-byte characters'
        try:
            m2 = it2.call(H_.Closure(f.node, {}, None, f.cls), [heap2.alloc('File', {}, name='@fp'), None], {'encoding': 'utf-8'})
            got2 = []
            for pub in ('name', 'mtime', 'owner', 'group', 'size'):
                v_ = it2.ev(ast.parse('m.%s' % pub, mode='eval').body, {'m': m2}, None)
                got2.append(v_.concrete() if hasattr(v_, 'concrete') else v_)
            want2 = [name2[:-1], 1700000001, 1000, 1001, 42]
            if got2 == want2:
                rep.ok('C06.R3', f.site, what2, 'name, mtime, owner, group and size as recorded', nontrivial=False)
            else:
                rep.fail('C06.R3', f.site, what2, 'the header %r is read as name / mtime / owner / group / size = %r; recorded: %r -- the fields are cut by character, not by byte' % (
                    header2, got2, want2), where=f.where)
        except H_.Raised as x_:
            rep.fail('C06.R3', f.site, what2, 'from_file raises %s (line %d) for the header %r: a name with multi-byte characters shifts the fields when they are cut from decoded text' % (
                x_.exc, x_.lineno, header2), where=f.where)
    _ = cls
    return dict(func=f, name_paths=name_paths, cut_of=cut_of)


def mod_fold(mod, e):
    if e is None:
        return None
    try:
        return mod.fold(e, '')
    except Exception:   # pylint: disable=broad-except
        return None


def r4_padding(rep, src):
    f = src.func('%s:ArFile.__collect_members' % M)
    rep.saw_func(f)
    # private helpers -- including a generator that walks the headers -- are fused into the function
    fnode, _inl = normalize.inline_helpers(f, depth=2)
    set_parents(fnode)
    f = Func(f.module, fnode, f.qual, f.cls)
    loops = [l for l in normalize.sentinel_loops(f.node) if 'from_file' in norm(l.producer.func)]
    if len(loops) != 1:
        raise AnalysisError('%s: expected one member loop (a producer loop over ArMember.from_file)' % f.site)
    loop = loops[0]
    var = loop.var
    fpn = f.params()[1]
    env = {}
    def ev(e, p):
        """value of an integer expression as (coefficient of size, constant) given size ≡ p (mod 2)"""
        if isinstance(e, ast.Constant) and isinstance(e.value, int):
            return (0, e.value)
        if isinstance(e, ast.Attribute) and e.attr == 'size' and norm(e.value) == var:
            return (1, 0)
        if isinstance(e, ast.Name) and e.id in env:
            return ev(env[e.id], p)
        if isinstance(e, ast.BinOp):
            if isinstance(e.op, ast.Mod) and isinstance(e.right, ast.Constant) and e.right.value == 2:
                l = ev(e.left, p)
                if l is None:
                    return None
                return (0, (l[0] * p + l[1]) % 2)
            l, r = ev(e.left, p), ev(e.right, p)
            if l is None or r is None:
                return None
            if isinstance(e.op, ast.Add):
                return (l[0] + r[0], l[1] + r[1])
            if isinstance(e.op, ast.Sub):
                return (l[0] - r[0], l[1] - r[1])
        if isinstance(e, ast.IfExp):
            c = cond(e.test, p)
            if c is None:
                return None
            return ev(e.body if c else e.orelse, p)
        return None

    def cond(t, p):
        if isinstance(t, ast.Compare) and len(t.ops) == 1:
            l, r = ev(t.left, p), ev(t.comparators[0], p)
            if l is None or r is None or l[0] or r[0]:
                return None
            res = {ast.Eq: l[1] == r[1], ast.NotEq: l[1] != r[1]}.get(type(t.ops[0]))
            return res
        if isinstance(t, ast.BinOp) and isinstance(t.op, ast.Mod):
            v = ev(t, p)
            return None if v is None or v[0] else bool(v[1])
        if isinstance(t, ast.UnaryOp) and isinstance(t.op, ast.Not):
            c = cond(t.operand, p)
            return None if c is None else not c
        return None

    def run(stmts, p):
        adv = (0, 0)
        for st in stmts:
            if isinstance(st, ast.Assign) and len(st.targets) == 1 and isinstance(st.targets[0], ast.Name):
                env[st.targets[0].id] = st.value
            if isinstance(st, ast.If):
                c = cond(st.test, p)
                if c is None:
                    if any(isinstance(x, ast.Call) and norm(x.func) == fpn + '.seek' for x in ast.walk(st)):
                        raise AnalysisError('%s: cannot evaluate the padding condition %s' % (f.site, norm(st.test)))
                    continue
                sub = run(st.body if c else st.orelse, p)
                adv = (adv[0] + sub[0], adv[1] + sub[1])
            for c in ([st.value] if isinstance(st, ast.Expr) and isinstance(st.value, ast.Call) else []):
                if norm(c.func) == fpn + '.seek':
                    if len(c.args) != 2 or not (isinstance(c.args[1], ast.Constant) and c.args[1].value == 1):
                        raise AnalysisError('%s: member skip is not a relative seek: %s' % (f.site, norm(c)))
                    v = ev(c.args[0], p)
                    if v is None:
                        raise AnalysisError('%s: cannot evaluate %s' % (f.site, norm(c.args[0])))
                    adv = (adv[0] + v[0], adv[1] + v[1])
        return adv
    for p in (0, 1):
        adv = run(loop.body, p)
        what = 'skip to the next header for %s member sizes' % ('odd' if p else 'even')
        if adv == (1, p):
            rep.ok('C06.R4', f.site, what, 'advance = size + %d' % p)
        else:
            rep.fail('C06.R4', f.site, what, 'the stream is advanced by %d*size + %d after a member of %s size; ar pads odd sizes with one byte '
                     '(expected size + %d): the next header is read from the wrong place' % (adv[0], adv[1], 'odd' if p else 'even', p), where=f.where)
    # listing: append and index assignment are unconditional statements of the loop body, in this order of members
    tops = [norm(s) for s in loop.body]
    names = {var} | {s.targets[0].id for s in loop.body if isinstance(s, ast.Assign) and len(s.targets) == 1 and isinstance(s.targets[0], ast.Name)
                     and norm(s.value) == var}       # plain aliases of the loop's member inside one iteration
    app = [t for t in tops if t.startswith('self.__members.append(')]
    idx = [s for s in loop.body if isinstance(s, ast.Assign) and isinstance(s.targets[0], ast.Subscript)
           and norm(s.targets[0].value) == 'self.__members_dict']
    if len(app) == 1 and app[0] in ['self.__members.append(%s)' % v_ for v_ in names]:
        rep.ok('C06.R6', f.site, 'members listed in archive order', 'unconditional append in the walk loop')
    else:
        rep.fail('C06.R6', f.site, 'members listed in archive order', 'members are not appended unconditionally in walk order', where=f.where)
    if len(idx) == 1 and norm(idx[0].targets[0].slice) in [v_ + '.name' for v_ in names] and norm(idx[0].value) in names:
        rep.ok('C06.R6', f.site, 'name lookup: last member wins', 'unconditional self.__members_dict[name] = member')
    else:
        rep.fail('C06.R6', f.site, 'name lookup: last member wins', 'the name index is not overwritten by later members of the same name', where=f.where)
    # the producer is ArMember.from_file on the archive's file object; the loop ends (before listing) at its sentinel
    mod_ = src.mod(M)
    truthy_hooks = [n for c in mod_.mro('ArMember') for n in ('__bool__', '__len__') if ('%s.%s' % (c, n)) in mod_.funcs]
    if loop.sentinel == 'falsy' and truthy_hooks:
        rep.fail('C06.R6', f.site, 'walk ends at end of archive', 'the walk stops at the first member that is falsy (ArMember defines %s): a valid member -- e.g. an '
                 'empty one -- and everything after it disappear from the listing; the end-of-archive test must be `is None`' % ', '.join(truthy_hooks), where=f.where)
    elif norm(loop.producer.func) == 'ArMember.from_file' and loop.producer.args and norm(loop.producer.args[0]) == fpn:
        rep.ok('C06.R6', f.site, 'walk ends at end of archive', 'from_file → %s ends the loop before listing' % loop.sentinel, nontrivial=False)
    else:
        rep.fail('C06.R6', f.site, 'walk ends at end of archive', 'the loop does not stop (before listing) when no further header exists', where=f.where)
    # global header check
    first = f.node.body[0]
    if isinstance(first, ast.If) and 'GLOBAL_HEADER' in norm(first.test) and any(isinstance(s, ast.Raise) for s in first.body):
        rep.ok('C06.R6', f.site, 'global header verified', norm(first.test)[:60], nontrivial=False)
    else:
        rep.fail('C06.R6', f.site, 'global header verified', 'the archive magic is not verified', where=f.where)
    a = src.func(M + ':ArFile.getnames')
    b = src.func(M + ':ArFile.getmember')
    c = src.func(M + ':ArFile.getmembers')
    okn = 'for f in self.__members' in norm(a.node) and '.name' in norm(a.node)
    okm = any(isinstance(s, ast.Return) and norm(s.value) == 'self.__members_dict[%s]' % b.params()[1] for s in ast.walk(b.node))
    okl = any(isinstance(s, ast.Return) and norm(s.value) == 'self.__members' for s in ast.walk(c.node))
    for ok, site, what in ((okn, a.site, 'getnames maps the member list'), (okm, b.site, 'getmember reads the name index'), (okl, c.site, 'getmembers returns the list')):
        if ok:
            rep.ok('C06.R6', site, what, 'ok', nontrivial=False)
        else:
            rep.fail('C06.R6', site, what, 'accessor does not read the structure filled by the walk')


STDLIB_INT_CONSTS = {'SEEK_SET': 0, 'SEEK_CUR': 1, 'SEEK_END': 2}     # io / os: fixed by the language reference


def _int_consts(mod):
    """lookup for module constants plus the whence constants when they are imported from io / os"""
    imported = {}
    for st in mod.tree.body:
        if isinstance(st, ast.ImportFrom) and st.module in ('io', 'os'):
            for a_ in st.names:
                if a_.name in STDLIB_INT_CONSTS:
                    imported[a_.asname or a_.name] = STDLIB_INT_CONSTS[a_.name]
        if isinstance(st, ast.Import):
            for a_ in st.names:
                if a_.name in ('io', 'os'):
                    for k, v in STDLIB_INT_CONSTS.items():
                        imported['%s.%s' % (a_.asname or a_.name, k)] = v

    def look(name):
        if name in imported:
            return (imported[name],)
        v = mod.consts.get('', {}).get(name)
        if isinstance(v, int) and not isinstance(v, bool):
            return (v,)
        return None
    return look


def r5_whence(rep, src):
    """seek / tell interpreted on symbolic integers (affine values, linear path facts): for each whence value and both
    positions of the cursor relative to the member start, every path that does not raise leaves cur = base + offset"""
    f = src.func(M + ':ArMember.seek')
    rep.saw_func(f)
    p = f.params()
    off, wh = p[1], p[2]
    CUR, OFF, END, D = Aff.var('cur'), Aff.var('start'), Aff.var('end'), Aff.var('d')
    fnode, _ = normalize.inline_helpers(f, depth=2)
    cur_attr = 'self.__cur'
    names = {'self.__cur': CUR, 'self.__offset': OFF, 'self.__end': END}
    base_name = {0: 'the member start', 1: 'the current position', 2: 'the member end'}
    npaths = 0
    for w in (0, 1, 2):
        what = 'seek whence=%d' % w
        bad = None
        bad_ret = None
        refused = None
        nok = 0
        for case, fact in (('cursor inside the member', CUR - OFF), ('cursor before the member start', OFF - CUR - 1)):
            eff = CUR if case.startswith('cursor inside') else OFF
            base = {0: OFF, 1: eff, 2: END}[w]
            def tell_hook(it_, call, env_, facts_):
                # self.tell() inside seek: the tell method interpreted in the current state
                if norm(call.func) == 'self.tell' and not call.args:
                    t_ = src.func(M + ':ArMember.tell')
                    tn_, _x = normalize.inline_helpers(t_, depth=2)
                    sub = affinterp.Interp(t_.site, _int_consts(t_.module))
                    return [(o_.value, o_.facts) for o_ in sub.run(tn_.body, dict(env_), facts_) if o_.kind == 'return']
                return None
            it = affinterp.Interp(f.site, _int_consts(f.module), call_hook=tell_hook)
            env = dict(names)
            env[off] = D
            env[wh] = Aff.const(w)
            outs = it.run(fnode.body, env, Facts([END - OFF, fact]))
            npaths += len(outs)
            for o in outs:
                want = base + D
                if o.kind == 'raise':
                    # only a target in front of the member is refused: under the facts of a raising path the target lies before the start
                    if not o.facts.entails(OFF - want - 1):
                        refused = refused or ('with the %s, seek(d, %d) raises %s under %r although the target %r need not lie before the member start: '
                                              'a position inside the member is refused depending on where the cursor happens to be' % (case, w, o.value, o.facts, want))
                    continue
                got = o.env.get(cur_attr)
                if not isinstance(got, Aff) or not (got == want or (o.facts.entails(got - want) and o.facts.entails(want - got))):
                    bad = bad or 'with the %s the cursor becomes %r; whence=%d must be relative to %s (%r)' % (case, got, w, base_name[w], want)
                    continue
                # the result of seek is the new position (what tell() answers), as for any binary file
                res = o.value if o.kind == 'return' else None
                pos = want - OFF
                if o.facts.entails(pos) and not (isinstance(res, Aff) and (res == pos or (o.facts.entails(res - pos) and o.facts.entails(pos - res)))):
                    bad_ret = bad_ret or 'seek(%s, %d) returns %r where an in-memory file returns the new position %r' % ('d', w, res, pos)
                nok += 1
        if bad:
            rep.fail('C06.R5', f.site, what, bad, where=f.where)
        elif not nok:
            rep.fail('C06.R5', f.site, what, 'no path sets the cursor for whence=%d' % w, where=f.where)
        else:
            rep.ok('C06.R5', f.site, what, 'cur = %s + offset on %d path(s)' % (base_name[w], nok))
        if bad_ret:
            rep.fail('C06.R5', f.site, what + ': result', bad_ret, where=f.where)
        elif nok:
            rep.ok('C06.R5', f.site, what + ': result', 'the new position')
        if refused:
            rep.fail('C06.R5', f.site, what + ': refusals', refused, where=f.where)
        else:
            rep.ok('C06.R5', f.site, what + ': refusals', 'raises only for a target in front of the member start')
    t = src.func(M + ':ArMember.tell')
    rep.saw_func(t)
    tnode, _ = normalize.inline_helpers(t, depth=2)
    bad = None
    nret = 0
    for case, fact, want in (('inside', CUR - OFF, CUR - OFF), ('before the start', OFF - CUR - 1, Aff.const(0))):
        it = affinterp.Interp(t.site, _int_consts(t.module))
        outs = it.run(tnode.body, dict(names), Facts([END - OFF, fact]))
        npaths += len(outs)
        for o in outs:
            if o.kind != 'return' or not isinstance(o.value, Aff) or not (o.value == want or (o.facts.entails(o.value - want) and o.facts.entails(want - o.value))):
                bad = bad or 'with the cursor %s tell() gives %r instead of %r' % (case, o.value if o.kind == 'return' else o.kind, want)
            else:
                nret += 1
    rep.analysed['paths'] += npaths
    if bad is None and nret:
        rep.ok('C06.R5', t.site, 'tell', 'cur − start (0 before the start) on %d path(s)' % nret)
    else:
        rep.fail('C06.R5', t.site, 'tell', 'tell() does not return the position relative to the member start: %s' % bad, where=t.where)


def r7_read_amount(rep, src):
    """read(size) interpreted on affine values over regions of (size, room = end - cur): the amount asked from the underlying
    file, and the advance of the cursor, equal what an in-memory file of the member's data does -- size bytes when 0 <= size <=
    room, everything left when size is negative, None or larger than what is left, nothing (and no movement) for size 0 and at
    or past the end."""
    f = src.func(M + ':ArMember.read')
    rep.saw_func(f)
    size = f.params()[1]
    CUR, OFF, END, S = Aff.var('cur'), Aff.var('start'), Aff.var('end'), Aff.var('size')
    fnode = nfunc(f).node
    room = END - CUR
    one = Aff.const(1)
    regions = [
        ('at or past the member end, size n ≥ 0', S, [CUR - END, S], Aff.const(0)),
        ('at or past the member end, size None', None, [CUR - END], Aff.const(0)),
        ('size 0', S, [room - one, S, -S], Aff.const(0)),
        ('1 ≤ size ≤ what is left', S, [room - one, S - one, room - S], S),
        ('size larger than what is left', S, [room - one, S - room - one], room),
        ('negative size', S, [room - one, -S - one], room),
        ('size None', None, [room - one], room),
    ]
    default = None
    a = f.node.args
    if a.defaults:
        d_ = a.defaults[-1]
        default = d_.value if isinstance(d_, ast.Constant) else Ellipsis
    if default is not Ellipsis and (default is None or isinstance(default, int)):
        regions.append(('no size argument (default %r)' % (default,), None if default is None else Aff.const(default),
                        [room - one] + ([] if default is None else []), room))
    npaths = 0
    for label, sval, facts0, want in regions:
        def hook(it, call, env, facts):
            fn = norm(call.func)
            if fn == 'self.__fp.seek' and len(call.args) == 1:
                outs = []
                for v, f1 in it.ev(call.args[0], env, facts):
                    env['#fpos'] = v
                    outs.append((None, f1))
                return outs
            if fn == 'self.__fp.read' and len(call.args) <= 1:
                outs = []
                for v, f1 in (it.ev(call.args[0], env, facts) if call.args else [(None, facts)]):
                    if not isinstance(v, Aff):
                        raise AnalysisError('%s: read on the underlying file without a numeric size' % f.site)
                    env['#asked'] = v
                    env['#fpos'] = env.get('#fpos', CUR) + v
                    outs.append((affinterp.Opaque('data'), f1))
                return outs
            if fn == 'self.__fp.tell' and not call.args:
                return [(env.get('#fpos', CUR), facts)]
            if fn == 'open':
                return [(affinterp.Opaque('file'), facts)]
            return None
        it = affinterp.Interp(f.site, _int_consts(f.module), call_hook=hook)
        env = {'self.__cur': CUR, 'self.__offset': OFF, 'self.__end': END, 'self.__fp': affinterp.Opaque('file'), 'self.__fname': affinterp.Opaque('name'), size: sval}
        for k_, v_ in _fresh_attrs(src, env).items():
            env[k_] = v_
        outs = it.run(fnode.body, env, Facts([CUR - OFF, END - OFF] + facts0))
        npaths += len(outs)
        bad = None
        for o in outs:
            if o.kind == 'raise':
                bad = bad or 'raises %s (line %s)' % (o.value, o.line)
                continue
            asked = o.env.get('#asked', Aff.const(0)) if not isinstance(o.value, bytes) else Aff.const(0)
            if isinstance(o.value, bytes) and o.value != b'':
                bad = bad or 'returns the constant %r' % (o.value,)
                continue
            newcur = o.env.get('self.__cur')
            same = lambda x, y: isinstance(x, Aff) and (x == y or (o.facts.entails(x - y) and o.facts.entails(y - x)))
            if not same(asked, want):
                bad = bad or 'returns %r byte(s) where an in-memory file returns %r' % (asked, want)
            elif not same(newcur, CUR + want):
                bad = bad or 'leaves the position at %r instead of %r' % (newcur, CUR + want)
        if bad:
            rep.fail('C06.R7', f.site, 'read: ' + label, 'read with %s %s' % (label, bad), where=f.where)
        elif not outs:
            rep.fail('C06.R7', f.site, 'read: ' + label, 'no path', where=f.where)
        else:
            rep.ok('C06.R7', f.site, 'read: ' + label, 'amount %r, position advanced by it (%d path(s))' % (want, len(outs)))
    rep.analysed['paths'] += npaths


def r8_iteration(rep, src):
    """`for line in member`: the iterator interpreted with readline() answering a three-line member line by line yields every
    line, in order, and stops at the first empty answer"""
    from .. import heap as H
    f = src.mod(M).method('ArMember', '__iter__')
    if f is None:
        rep.ok('C06.R8', M + ':ArMember', 'iteration', 'no __iter__: not iterable (nothing to decide)', nontrivial=False)
        return
    rep.saw_func(f)
    answers = [b'one\n', b'two\n', b'three', b'', b'']
    calls = {'n': 0}

    def readline(it, args, kw):
        calls['n'] += 1
        return answers[min(calls['n'] - 1, len(answers) - 1)]
    heap = H.Heap(src.mod(M), hooks={'.readline': readline, 'iter': lambda it, a, k: a[0]})
    me = heap.alloc('ArMember', {})
    it = H.Interp(heap)
    try:
        r = it.call(H.Closure(f.node, {}, me, f.cls), [])
        got = [x for x in it.seq(r)]
    except H.Raised as x:
        rep.fail('C06.R8', f.site, 'iteration yields every line', 'raises %s (line %d)' % (x.exc, x.lineno), where=f.where)
        return
    if got == answers[:3]:
        rep.ok('C06.R8', f.site, 'iteration yields every line', '%d lines from %d readline() calls' % (len(got), calls['n']))
    else:
        rep.fail('C06.R8', f.site, 'iteration yields every line', 'iterating a member of three lines yields %r: %s' % (
            got, 'only the first line is produced (readline() is called once, not until it answers with an empty string)' if got == answers[:1] else 'not the lines of the member'),
            where=f.where)


def r9_readlines_hint(rep, src):
    """readlines(hint) interpreted with readline() answering a four-line member line by line: all lines for hint <= 0 / None, else
    the lines up to and including the one that brings the total size to hint (io.IOBase.readlines)"""
    from .. import heap as H
    f = src.mod(M).method('ArMember', 'readlines')
    rep.saw_func(f)
    lines = [b'l1\n', b'l22\n', b'l333\n', b'l4']

    def ref(hint):
        if hint is None or hint <= 0:
            return list(lines)
        out, n = [], 0
        for l_ in lines:
            out.append(l_)
            n += len(l_)
            if n >= hint:
                break
        return out
    bad = None
    n = 0
    for hint in ('default', 0, -1, None, 1, 3, 4, 7, 8, 100):
        calls = {'n': 0}

        def readline(it, args, kw, calls=calls):
            calls['n'] += 1
            return lines[calls['n'] - 1] if calls['n'] <= len(lines) else b''
        heap = H.Heap(src.mod(M), hooks={'.readline': readline})
        # (the member's geometry, should the method consult it: data of sum(len(lines)) bytes at offset 60 of the archive)
        size_ = sum(len(l_) for l_ in lines)
        me = heap.alloc('ArMember', {'_ArMember__offset': 60, '_ArMember__cur': 60, '_ArMember__end': 60 + size_, '_ArMember__size': size_})
        it = H.Interp(heap)
        n += 1
        try:
            r = it.call(H.Closure(f.node, {}, me, f.cls), [] if hint == 'default' else [hint])
            got = list(it.seq(r))
        except H.Raised as x:
            bad = bad or 'readlines(%s) raises %s (line %d)' % ('' if hint == 'default' else hint, x.exc, x.lineno)
            continue
        want = ref(0 if hint == 'default' else hint)
        if got != want:
            bad = bad or 'readlines(%s) on the lines %r returns %r; an in-memory file returns %r' % ('' if hint == 'default' else hint, lines, got, want)
    if bad:
        rep.fail('C06.R9', f.site, 'readlines(hint)', bad, where=f.where)
    else:
        rep.ok('C06.R9', f.site, 'readlines(hint)', '%d hints: all lines for hint <= 0 / None, else up to the line that reaches the hint' % n)


def r10_member_names(rep, src, hdr):
    """the name of a member is what the 16-byte name field holds: up to the slash that ends it (GNU ar), else without the blank padding
    (BSD ar).  On the paths of from_file (locals substituted away, C06.R3) the expression stored as the name and the conditions it
    is stored under are evaluated (sa.heap, symbolic text) with the cut [0:16] of the header replaced by a symbolic name field, on
    both layouts and with names that begin or end with a blank: the result is the name, blanks included."""
    from .. import heap as H, symstr
    from ..symstr import SStr
    if hdr is None:
        raise AnalysisError('the header paths of from_file are not available (C06.R3 did not complete)')
    f, name_paths, cut_of = hdr['func'], hdr['name_paths'], hdr['cut_of']

    class Sub(ast.NodeTransformer):
        def visit_Subscript(self, n_):
            if cut_of(n_) == (0, 16):
                return ast.copy_location(ast.Name(id='__namefield', ctx=ast.Load()), n_)
            return self.generic_visit(n_)

    def mentions_field(e):
        return any(isinstance(x, ast.Subscript) and cut_of(x) == (0, 16) for x in ast.walk(e))
    usable = [(conds, e) for conds, e in name_paths if e is not None and mentions_field(e)]
    if not usable:
        raise AnalysisError('%s: no path stores a name computed from the name field [0:16]' % f.site)
    prepared = [([(ast.fix_missing_locations(Sub().visit(core_clone(t_))), pol) for t_, pol in conds if mentions_field(t_)],
                 ast.fix_missing_locations(Sub().visit(core_clone(e)))) for conds, e in usable]
    for label in ('GNU layout: name, slash, padding', 'BSD layout: name, padding'):
        bad = None
        cases = 0
        atoms = {'N': r'[^/\n]{1,15}', 'P': r' *'} if 'GNU' in label else {'B': r'[^/\n]{0,14}[^/ \n]', 'P': r' *'}

        def run(at, label=label):
            fld = (at['N'] + '/' + at['P']) if 'GNU' in label else (at['B'] + at['P'])
            wnt = at['N'] if 'GNU' in label else at['B']
            results = []
            for conds, e in prepared:
                heap = H.Heap(src.mod(M), hooks={'.decode': lambda it_, a, k: a[0], 'sys.getfilesystemencoding': lambda it_, a, k: 'utf-8'})
                heap.symbolic_strings = True
                heap.bytes_mode = True
                it = H.Interp(heap)
                env = {'encoding': 'utf-8', 'errors': None, '__namefield': fld}
                if all(it.truth(it.ev(t_, env, 'ArMember')) == pol for t_, pol in conds):
                    results.append(symstr.lift(it.ev(e, env, 'ArMember')))
            return results, wnt
        for langs, (results, wnt) in symstr.explore(atoms, run, depth=8):
            cases += 1
            empty = {k for k, l_ in langs.items() if l_.not_subset_witness(symstr.lit_lang('')) is None}
            nz = lambda s_: SStr([p_ for p_ in s_.parts if isinstance(p_, str) or getattr(p_, 'name', None) not in empty])
            wit = {k: l_.witness() for k, l_ in langs.items()}
            shown = (wit.get('N', '') + '/' + wit.get('P', '')) if 'GNU' in label else (wit.get('B', '') + wit.get('P', ''))
            if not results:
                bad = bad or 'for the name field %r no path stores a name' % (shown,)
            for r_ in results:
                # (several paths may store the name: they differ in conditions that do not concern the name field)
                if not nz(r_).same(nz(wnt)):
                    bad = bad or 'for the name field %r the member is called %r instead of %r' % (shown, r_, wnt)
        if bad:
            rep.fail('C06.R10', f.site, 'member name: ' + label, bad + ': blanks that belong to the name are stripped (two members whose names differ only in such blanks collapse into one)', where=f.where)
        elif not cases:
            raise AnalysisError('%s: no case interpreted for %s' % (f.site, label))
        else:
            rep.ok('C06.R10', f.site, 'member name: ' + label, '%d symbolic cases' % cases)


def r11_lookups(rep, src):
    """every way of asking the archive for a member by name answers with the last member of that name (the statement), and asking
    with a member object answers with that object: ArFile's lookups interpreted (sa.heap) on an archive with the members
    [a, b, a'] -- two members of one name -- with the index the walk has built."""
    from .. import heap as H
    mod = src.mod(M)
    lookups = [(q, fn) for q, fn in sorted(mod.funcs.items()) if q.startswith('ArFile.') and q.split('.')[1] in ('getmember', 'extractfile', '__getitem__')]
    if len(lookups) < 2:
        raise AnalysisError('%s: the lookups of ArFile (getmember, extractfile, __getitem__) were not found' % M)
    for q, fn in lookups:
        rep.saw_func(fn)
        for asked in ('name of the repeated member', 'name of a single member', 'the first member object of the repeated name',
                      'the last member object of the repeated name', 'an absent name'):
            heap = H.Heap(mod)
            a1 = heap.alloc('ArMember', {'_ArMember__name': 'a', 'name': 'a'}, name='@a_first')
            b = heap.alloc('ArMember', {'_ArMember__name': 'b', 'name': 'b'}, name='@b')
            a2 = heap.alloc('ArMember', {'_ArMember__name': 'a', 'name': 'a'}, name='@a_last')
            members = heap.new_list([a1, b, a2])
            index = heap.new_dict()
            heap.dict_set(index, 'a', a2)
            heap.dict_set(index, 'b', b)
            me = heap.alloc('ArFile', {'_ArFile__members': members, '_ArFile__members_dict': index}, name='@archive')
            arg, want = {'name of the repeated member': ('a', a2), 'name of a single member': ('b', b),
                         'the first member object of the repeated name': (a1, a1), 'the last member object of the repeated name': (a2, a2),
                         'an absent name': ('zz', None)}[asked]
            if isinstance(arg, H.Ref) and q.split('.')[1] != 'extractfile':
                continue        # only extractfile documents member objects as arguments
            what = '%s(%s)' % (q, asked)
            try:
                got = H.Interp(heap).call(H.Closure(fn.node, {}, me, fn.cls), [arg])
            except H.Raised as x:
                got = ('raises', x.exc)
            if want is None:
                if got is None or got == ('raises', 'KeyError'):
                    rep.ok('C06.R11', fn.site, what, 'None / KeyError', nontrivial=False)
                else:
                    rep.fail('C06.R11', fn.site, what, 'answers %r for a name no member has' % (got,), where=fn.where)
            elif got == want:
                rep.ok('C06.R11', fn.site, what, 'answers %s' % got.name)
            else:
                rep.fail('C06.R11', fn.site, what, 'on the members [a (first), b, a (last)] it answers %s; %s' % (
                    got.name if isinstance(got, H.Ref) else got,
                    'lookup by name returns the last member of that name (getmember does)' if isinstance(arg, str) else 'the member object handed in is another one'),
                    where=fn.where)


def r12_histories(rep, src, tier):
    """the clause "under arbitrary interleaving with other members": two members of one archive built by interpreting from_file (sa.heap)
    on the bytes of a two-member archive behind ONE model file object, then every history of up to two (thorough: three) operations on the
    first member -- read / readline / readlines with the sizes that matter, seek under the three whence values, tell -- each followed by a
    read on the second member through the same file object; every result and every tell() is compared with io.BytesIO of the member's
    data.  What the per-call rules (R1, R2, R5, R7) cannot see -- state that one call leaves for the next -- is decided here, from the
    state a freshly opened archive has."""
    import io
    import itertools
    from .. import heap as H
    mod = src.mod(M)
    ff = src.func(M + ':ArMember.from_file')

    def header(name, size):
        return (name.ljust(16) + '0'.ljust(12) + '0'.ljust(6) + '0'.ljust(6) + '644'.ljust(8) + str(size).ljust(10)).encode() + b'`\n'
    D1, D2 = b'ab\ncd\nef', b'xyz\n12\n'
    pad = lambda b: b + (b'\n' if len(b) % 2 else b'')      # noqa: E731
    ARCH = b'!<arch>\n' + header('one/', len(D1)) + pad(D1) + header('two/', len(D2)) + pad(D2)
    OFF2 = 8 + 60 + len(pad(D1)) + 60

    def world():
        def delegate(name):
            def hook(it, a, k):
                if isinstance(a[0], H.Ref) and it.h.objs[a[0].name]['__class__'] == 'ArMember':
                    m_ = mod.method('ArMember', name)          # (a member calling its own method)
                    return it.call(H.Closure(m_.node, {}, a[0], m_.cls), list(a[1:]), k)
                o = it.h.objs[a[0].name]
                pos = o['pos']
                if any(not (x is None or (isinstance(x, int) and not isinstance(x, bool))) for x in a[1:]):
                    raise AnalysisError('the model file is called with %r' % (a[1:],))
                if name == 'read':
                    n = a[1] if len(a) > 1 else -1
                    if n is None or n < 0:
                        n = max(len(ARCH) - pos, 0)
                    chunk = ARCH[pos:pos + n]
                    o['pos'] = pos + len(chunk)
                    return chunk
                if name == 'readline':
                    f_ = io.BytesIO(ARCH)
                    f_.seek(pos)
                    chunk = f_.readline(-1 if len(a) < 2 or a[1] is None else a[1])
                    o['pos'] = f_.tell()
                    return chunk
                if name == 'seek':
                    wh = a[2] if len(a) > 2 else 0
                    o['pos'] = a[1] if wh == 0 else pos + a[1] if wh == 1 else len(ARCH) + a[1]
                    if o['pos'] < 0:
                        raise H.Raised('OSError', it.h.version, 0)
                    return o['pos']
                return pos
            return hook
        heap = H.Heap(mod, hooks={'.' + n_: delegate(n_) for n_ in ('read', 'readline', 'seek', 'tell')})
        heap.hooks['sys.getfilesystemencoding'] = lambda it, a, k: 'utf-8'
        it = H.Interp(heap)
        fp = heap.alloc('File', {'pos': 8}, name='@fp')
        m1 = it.call(H.Closure(ff.node, {}, None, ff.cls), [fp, None])
        heap.objs[fp.name]['pos'] = OFF2 - 60
        m2 = it.call(H.Closure(ff.node, {}, None, ff.cls), [fp, None])
        if not all(isinstance(m_, H.Ref) and heap.objs[m_.name]['__class__'] == 'ArMember' for m_ in (m1, m2)):
            raise AnalysisError('%s does not return members for the model archive' % ff.site)
        return heap, it, m1, m2

    def member_call(it, m, name, args):
        f_ = mod.method('ArMember', name)
        if f_ is None:
            raise AnalysisError('%s:ArMember.%s not found' % (M, name))
        r = it.call(H.Closure(f_.node, {}, m, f_.cls), list(args))
        return list(it.h.items(r)) if it.h.is_list(r) else r
    OPS = [('read', ()), ('read', (0,)), ('read', (1,)), ('read', (3,)), ('read', (100,)), ('read', (None,)), ('read', (-1,)),
           ('readline', ()), ('readline', (1,)), ('readline', (2,)), ('readline', (100,)), ('readline', (0,)), ('readlines', ()), ('readlines', (4,)),
           ('seek', (0,)), ('seek', (4,)), ('seek', (2, 1)), ('seek', (-3, 2)), ('seek', (20,)), ('tell', ())]
    SMALL = [('read', (1,)), ('read', ()), ('readline', ()), ('readline', (1,)), ('readline', (2,)), ('readlines', (4,)), ('seek', (4,)), ('seek', (-3, 2))]
    histories = [h_ for h_ in itertools.product(OPS, repeat=2)] + [h_ for h_ in itertools.product(SMALL, repeat=3)]
    if tier == 'thorough':
        histories = [h_ for h_ in itertools.product(OPS, repeat=3)]
    site = M + ':ArMember'
    n, bad = 0, None
    import copy as _copy
    heap, it, m1, m2 = world()
    snapshot = _copy.deepcopy(heap.objs)          # the state right after opening: every history starts from it
    for hist in histories:
        for interleave in (True, False):
            heap.objs.clear()
            heap.objs.update(_copy.deepcopy(snapshot))
            ref1, ref2 = io.BytesIO(D1), io.BytesIO(D2)
            done = []
            for name, args in hist:
                try:
                    got = member_call(it, m1, name, args)
                except H.Raised as x:
                    got = 'raises %s' % x.exc
                want = getattr(ref1, name)(*args)
                done.append('%s(%s)' % (name, ', '.join(repr(a_) for a_ in args)))
                pos_g = member_call(it, m1, 'tell', [])
                if (got != want or pos_g != ref1.tell()) and bad is None:
                    bad = ('after %s on the first member %s the call %s gives %r at position %r; a file of the member\'s data %r gives %r at position %r'
                           % (', '.join(done[:-1]) or 'opening the archive', '(each followed by read(2) on the second member)' if interleave else '', done[-1], got, pos_g, D1, want, ref1.tell()))
                if interleave:
                    g2, w2 = member_call(it, m2, 'read', [2]), ref2.read(2)
                    if g2 != w2 and bad is None:
                        bad = 'after %s on the first member, read(2) on the second member gives %r instead of %r' % (', '.join(done), g2, w2)
            n += 1
        if bad:
            break
    rep.analysed['paths'] += n
    if bad:
        rep.fail('C06.R12', site, 'histories of two members on one file object', bad)
    else:
        rep.ok('C06.R12', site, 'histories of two members on one file object', '%d histories of %d operations, with and without reads of the other member in between: every result '
               'and position as for io.BytesIO of the member' % (n, len(histories[-1])))


def _fresh_attrs(src, known):
    """instance attributes of ArMember that the per-call rules do not model, with the constant __init__ gives them: those rules then
    speak about a member in that state (what later states do is decided on histories, R12)"""
    init = src.mod(M).method('ArMember', '__init__')
    out = {}
    for st in (ast.walk(init.node) if init is not None else ()):
        if isinstance(st, (ast.Assign, ast.AnnAssign)):
            t_ = st.targets[0] if isinstance(st, ast.Assign) else st.target
            if isinstance(t_, ast.Attribute) and norm(t_.value) == 'self' and isinstance(st.value, ast.Constant) and norm(t_) not in known \
                    and (st.value.value is None or isinstance(st.value.value, (bool, str, bytes))):
                out[norm(t_)] = st.value.value
    return out


def r6b_walk_by_interpretation(rep, src):
    """the walk over the member headers, by interpretation: ArFile(fileobj=<model file>) interpreted (sa.heap, decided bytes) on an
    archive of five members -- sizes odd, even, ZERO in the middle, one, two; two names used twice -- behind one model file object that
    answers read / seek / tell from the archive bytes.  Afterwards, through the public accessors: the names in archive order, every
    member with its size and the position of its data (so every header was read from the right place, padding included), and for a
    name that occurs twice the LAST member of that name."""
    import io
    from .. import heap as H
    mod = src.mod(M)
    init = mod.method('ArFile', '__init__')
    if init is None:
        raise AnalysisError('%s:ArFile.__init__ not found' % M)
    rep.saw_func(init)
    MEMBERS = [('one', b'abc'), ('two', b'wxyz'), ('one', b''), ('three', b'q'), ('two', b'12')]

    def header(name, size):
        return ((name + '/').ljust(16) + '0'.ljust(12) + '0'.ljust(6) + '0'.ljust(6) + '644'.ljust(8) + str(size).ljust(10)).encode() + b'`\n'
    ARCH, want = b'!<arch>\n', []
    for name, data in MEMBERS:
        ARCH += header(name, len(data))
        want.append((name, len(data), len(ARCH)))
        ARCH += data + (b'\n' if len(data) % 2 else b'')

    def fileop(name):
        def hook(it, a, k):
            o = it.h.objs[a[0].name]
            if o['__class__'] != 'File':
                m_ = mod.method(o['__class__'], name)
                if m_ is None:
                    raise AnalysisError('%s.%s on the model archive' % (o['__class__'], name))
                return it.call(H.Closure(m_.node, {}, a[0], m_.cls), list(a[1:]), k)
            pos = o['pos']
            if any(not (x is None or (isinstance(x, int) and not isinstance(x, bool))) for x in a[1:]):
                raise AnalysisError('the model file is called with %r' % (a[1:],))
            if name == 'read':
                n = a[1] if len(a) > 1 else -1
                if n is None or n < 0:
                    n = max(len(ARCH) - pos, 0)
                chunk = ARCH[pos:pos + n]
                o['pos'] = pos + len(chunk)
                return chunk
            if name == 'seek':
                wh = a[2] if len(a) > 2 else k.get('whence', 0)
                o['pos'] = a[1] if wh == 0 else pos + a[1] if wh == 1 else len(ARCH) + a[1]
                if o['pos'] < 0:
                    raise H.Raised('OSError', it.h.version, 0)
                return o['pos']
            return pos
        return hook
    heap = H.Heap(mod, hooks={'.' + n_: fileop(n_) for n_ in ('read', 'seek', 'tell')})
    heap.hooks['sys.getfilesystemencoding'] = lambda it, a, k: 'utf-8'
    heap.hooks['.close'] = lambda it, a, k: None
    it = H.Interp(heap)
    fp = heap.alloc('File', {'pos': 0}, name='@fp')
    ar = heap.alloc('ArFile', {})
    what = 'the archive walk lists every member, in order, each at its place (interpreted)'
    try:
        it.call(H.Closure(init.node, {}, ar, init.cls), [], {'fileobj': fp})
    except H.Raised as x:
        rep.fail('C06.R6', init.site, what, 'ArFile(fileobj=...) raises %s (line %d) on an archive of five well-formed members (sizes 3, 4, 0, 1, 2)' % (x.exc, x.lineno), where=init.where)
        return

    def pub(expr, env):
        v = it.ev(ast.parse(expr, mode='eval').body, env, None)
        return v
    names = [x_.concrete() if hasattr(x_, 'concrete') else x_ for x_ in it.seq(pub('ar.getnames()', {'ar': ar}))]
    members = it.seq(pub('ar.getmembers()', {'ar': ar}))
    off_attr = heap.fld('__offset', 'ArMember')
    got = []
    for m_ in members:
        o_ = heap.objs[m_.name] if isinstance(m_, H.Ref) else {}
        got.append((pub('m.name', {'m': m_}), pub('m.size', {'m': m_}), o_.get(off_attr)))
    if names != [w_[0] for w_ in want] or got != want:
        rep.fail('C06.R6', init.site, what, 'for the members %s (name, size, position of the data) the walk gives the names %r and the members %r: a member is skipped, the walk '
                 'stops early (an EMPTY member is a member), or a header is read from the wrong place' % (want, names, got), where=init.where)
    else:
        rep.ok('C06.R6', init.site, what, '%d members: odd, even and zero sizes, two repeated names' % len(want))
    what2 = 'a name that occurs twice is answered with the last member of that name (interpreted)'
    bad = None
    for name in ('one', 'two', 'three'):
        last = max(i_ for i_, w_ in enumerate(want) if w_[0] == name)
        try:
            m_ = pub('ar.getmember(n)', {'ar': ar, 'n': name})
        except H.Raised as x:
            bad = bad or 'getmember(%r) raises %s' % (name, x.exc)
            continue
        if not (last < len(members) and m_ == members[last]):
            k_ = next((i_ for i_, x_ in enumerate(members) if x_ == m_), None)
            bad = bad or 'getmember(%r) answers with %s; the last member of that name is number %d' % (name, 'member number %d' % (k_ + 1) if k_ is not None else 'an object that is not in the list', last + 1)
    try:
        pub('ar.getmember(n)', {'ar': ar, 'n': 'absent'})
        bad = bad or 'getmember of a name the archive does not hold returns instead of raising KeyError'
    except H.Raised as x:
        if x.exc != 'KeyError':
            bad = bad or 'getmember of a name the archive does not hold raises %s' % x.exc
    if bad:
        rep.fail('C06.R6', init.site, what2, bad, where=init.where)
    else:
        rep.ok('C06.R6', init.site, what2, 'one, two, three; KeyError for an absent name')


def canonical_member_names(src):
    """the private attributes of ArMember by ROLE, read off the code -- the shared file object (the attribute whose seek / read are
    called), the cursor (what it is positioned to before a read), the start of the data (set from fp.tell() where the member is made),
    the end (start + size), the size, the file name (what open() gets) -- renamed in the syntax trees of the class to the names the
    rules below are written in (__fp, __cur, __offset, __end, __size, __fname).  How the class calls its own fields is its business."""
    mod = src.mod(M)
    cname = 'ArMember'
    if getattr(mod, '_c06_canonical', False):
        return
    read = mod.method(cname, 'read')
    make = mod.method(cname, 'from_file')
    if read is None or make is None:
        raise AnalysisError('%s:%s.read / from_file not found' % (M, cname))
    roles = {}

    def priv(e, owner):
        return e.attr if isinstance(e, ast.Attribute) and isinstance(e.value, ast.Name) and e.value.id == owner and e.attr.startswith('__') and not e.attr.endswith('__') else None
    for c in ast.walk(read.node):
        if isinstance(c, ast.Call) and isinstance(c.func, ast.Attribute) and c.func.attr == 'seek' and priv(c.func.value, 'self') and len(c.args) == 1 and priv(c.args[0], 'self'):
            roles.setdefault('__fp', priv(c.func.value, 'self'))
            roles.setdefault('__cur', priv(c.args[0], 'self'))
        if isinstance(c, ast.Call) and norm(c.func) == 'open' and c.args and priv(c.args[0], 'self'):
            roles.setdefault('__fname', priv(c.args[0], 'self'))
    made = [st.targets[0].id for st in ast.walk(make.node) if isinstance(st, ast.Assign) and isinstance(st.targets[0], ast.Name)
            and isinstance(st.value, ast.Call) and norm(st.value.func) in (cname, 'cls')]
    for st in ast.walk(make.node):
        if isinstance(st, ast.Assign) and len(st.targets) == 1 and made and priv(st.targets[0], made[0]):
            v = st.value
            if isinstance(v, ast.Call) and isinstance(v.func, ast.Attribute) and v.func.attr == 'tell' and not v.args:
                roles.setdefault('__offset', priv(st.targets[0], made[0]))
            elif isinstance(v, ast.BinOp) and isinstance(v.op, ast.Add) and priv(v.left, made[0]) and priv(v.right, made[0]) and priv(v.left, made[0]) == roles.get('__offset'):
                roles.setdefault('__end', priv(st.targets[0], made[0]))
                roles.setdefault('__size', priv(v.right, made[0]))
    # (a role whose attribute already has the name the rules use needs no recognition: only what was renamed has to be found)
    present = {n.attr for n in ast.walk(mod.classes[cname]) if isinstance(n, ast.Attribute)}
    for r_ in ('__fp', '__cur', '__fname', '__offset', '__end', '__size'):
        if r_ in present and r_ not in roles.values():
            roles[r_] = r_
    missing = [r_ for r_ in ('__fp', '__cur', '__offset', '__end') if r_ not in roles]
    if missing:
        raise AnalysisError('%s:%s: the attribute in the role of %s is not recognised (seek(cursor) in read, tell() / start + size in from_file)' % (M, cname, ', '.join(missing)))
    if len(set(roles.values())) != len(roles):
        raise AnalysisError('%s:%s: two roles share one attribute: %r' % (M, cname, roles))
    rename = {v: k for k, v in roles.items() if v != k}
    taken = set(roles) - set(roles.values())
    if rename:
        cd = mod.classes[cname]
        for n in ast.walk(cd):
            if isinstance(n, ast.Attribute) and n.attr in taken and n.attr not in rename:
                raise AnalysisError('%s:%s uses %s for something else than the role it has in the rules' % (M, cname, n.attr))
        for q, f in mod.funcs.items():
            if q.split('.')[0] == cname:
                for n in ast.walk(f.node):
                    if isinstance(n, ast.Attribute) and n.attr in rename:
                        n.attr = rename[n.attr]
        for n in ast.walk(cd):
            if isinstance(n, ast.Attribute) and n.attr in rename:
                n.attr = rename[n.attr]
    mod._c06_canonical = True
    return roles


def check(src, rep, tier):
    roles = rep.guard('C06.R1', lambda r_: canonical_member_names(src))
    if roles and any(k != v for k, v in roles.items()):
        rep.info.append('C06: the attributes of ArMember are named here by role: %s' % ', '.join('%s = self.%s' % (k, v) for k, v in sorted(roles.items()) if k != v))
    rep.explanation = ('C06: (R1) for every data-returning call on the shared file object inside ArMember all CFG paths to the call are '
                       'enumerated and 0 ≤ size ≤ end−cur is proved from the guards/assignments on the path (difference-bound entailment, '
                       'versioned attributes); calls without size, readlines and iteration are rejected.  (R2) seek(cur) dominates each read '
                       'with no intervening cursor change, the cursor update lies on every path to a return, out-of-range returns b\'\'.  '
                       '(R3) header slices/roles equal the ar(5) table, numeric fields via int(), data window = tell()/+size.  (R4) the '
                       'advance after a member is size + (size mod 2) for both parities.  (R5) whence table and tell.  (R6) listing order and last-wins index.')
    rep.not_decided = ['equality with an in-memory file under operation histories longer than three calls', 'GNU long names']
    rep.need('C06.R1', 2)
    rep.need('C06.R2', 6)
    rep.need('C06.R3', 15)
    rep.need('C06.R4', 2)
    rep.need('C06.R5', 4)
    rep.need('C06.R6', 7)
    rep.guard('C06.R1', r1_bounded_reads, src)
    rep.guard('C06.R2', r2_position_discipline, src)
    hdr = rep.guard('C06.R3', r3_header_table, src)
    from . import common
    n_v, n_e = len(rep.violations), len(rep.errors)
    rep.guard('C06.R6', r6b_walk_by_interpretation, src)
    walk_holds = len(rep.violations) == n_v and len(rep.errors) == n_e
    # (how the walk loop is written -- the padding arithmetic for BOTH parities of every size, the statements that list and index a
    # member -- is the stronger reading where it applies; where the loop leaves its vocabulary the interpreted archive decides)
    common.SoftAll(rep, lambda: walk_holds, 'the interpreted archive walk (C06.R6), which lists and indexes every member').guard('C06.R4', r4_padding, src)
    if walk_holds and rep.min_instances.get('C06.R6'):
        rep.min_instances['C06.R6'] = min(rep.min_instances['C06.R6'], sum(1 for i_ in rep.instances if i_.get('rule') == 'C06.R6'))
    rep.guard('C06.R5', r5_whence, src)
    rep.need('C06.R11', 4)
    rep.guard('C06.R11', r11_lookups, src)
    rep.need('C06.R9', 1)
    rep.guard('C06.R9', r9_readlines_hint, src)
    rep.need('C06.R10', 2)
    rep.guard('C06.R10', r10_member_names, src, hdr)
    rep.need('C06.R8', 1)
    rep.guard('C06.R8', r8_iteration, src)
    rep.need('C06.R7', 7)
    rep.guard('C06.R7', r7_read_amount, src)
    rep.need('C06.R12', 1)
    rep.guard('C06.R12', r12_histories, src, tier)

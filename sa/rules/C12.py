"""C12 -- structured multi-line fields round-trip as records and can always be dumped."""
import ast

from .. import rx, strlang, cfg, normalize
from . import common
from ..core import AnalysisError, norm, walk_no_nested
from ..strlang import Slot, ListOf, Obj, Opaque
from .deb822model import Model, KEY_RE
from . import C02

META = {
    'design_ref': 'DESIGN.md §5 C12',
    'technique': 'guard rule for optional table entries on the CFG and in comprehensions; writer template of _multivalued.get_as_string extracted by abstract interpretation and pushed, as the value of the dump template, through the Deb822 reader line classes; token-boundary inclusion for split(); width kinds from path enumeration; frame rule (no hidden state in the width computation); heap interpretation of the size_field_behavior property on several objects (default, read-back, per-object isolation); container-kind agreement of writer and reader on regular languages (record list vs. single record, the empty list included); type-guard rule for the text operations of the constructor; may-raise rule for max() of a possibly empty sequence; sibling cross-check of the single-record guard; _fixed_field_lengths interpreted per class and behaviour on paragraphs with an absent, list, single-record, empty and two-field content; predicates on the first line of a text; clause two non-blank lines are a list of records; the reader (_multivalued.__init__) interpreted on six layouts of a field text (tabs, runs of blanks, trailing blank, aligned columns) against the records of whitespace-free tokens; writer interpreted with and without a registered width on a single record, a list of one and a list of two, and read back by the interpreted reader; width oracle per behaviour for a field that holds one record',
    'level_text': 'Static decision: absent optional structured fields can never raise from the size-column computation and never stop '
                  'the computation for the remaining fields; every line written for a record list is a continuation line the reader '
                  'keeps verbatim, ends the field correctly and splits on whitespace into exactly the written tokens; reader and writer '
                  'take the sub-field order from the same table entry; the documented tables and the size-column width rules are present.',
    'level_note': 'trusted: CFG builder, template extractor vocabulary (unknown constructs → ANALYSIS-ERROR), automata engine; the '
                  'documented sub-field names are the oracle written into the rule',
}

MOD = 'deb822'
# oracle: documented sub-field names (deb-src-control / deb-changes / deb-buildinfo / pdiff Index / Release)
TABLES = {
    'Dsc': {'files': ['md5sum', 'size', 'name'], 'checksums-sha1': ['sha1', 'size', 'name'], 'checksums-sha256': ['sha256', 'size', 'name']},
    'Changes': {'files': ['md5sum', 'size', 'section', 'priority', 'name'], 'checksums-sha1': ['sha1', 'size', 'name'],
                'checksums-sha256': ['sha256', 'size', 'name']},
    'BuildInfo': {'checksums-md5': ['md5', 'size', 'name'], 'checksums-sha1': ['sha1', 'size', 'name'], 'checksums-sha256': ['sha256', 'size', 'name']},
    'PdiffIndex': {'sha1-current': ['SHA1', 'size'], 'sha1-history': ['SHA1', 'size', 'date'], 'sha1-patches': ['SHA1', 'size', 'date'],
                   'sha1-download': ['SHA1', 'size', 'filename'], 'sha256-current': ['SHA256', 'size'], 'sha256-history': ['SHA256', 'size', 'date'],
                   'sha256-patches': ['SHA256', 'size', 'date'], 'sha256-download': ['SHA256', 'size', 'filename']},
    'Release': {'md5sum': ['md5sum', 'size', 'name'], 'sha1': ['sha1', 'size', 'name'], 'sha256': ['sha256', 'size', 'name']},
}


def table_loops(fn):
    """for-loops of a function that iterate the structured-field table; -> (loop, key variable name)"""
    out = []
    for n in walk_no_nested(fn.node):
        if isinstance(n, ast.For) and '_multivalued_fields' in norm(n.iter):
            if isinstance(n.target, ast.Name):
                out.append((n, n.target.id))
            elif isinstance(n.target, ast.Tuple) and isinstance(n.target.elts[0], ast.Name):
                out.append((n, n.target.elts[0].id))
    return out


def guarded(g, node, sub, keytext):
    """is the subscript `sub` (inside CFG node `node`) protected against a missing key?"""
    # try/except KeyError around it
    for a in _anc(sub):
        if isinstance(a, ast.Try) and any(sub_in(sub, b) for b in a.body) and \
                any(h.type is None or 'KeyError' in norm(h.type) or norm(h.type) in ('Exception', 'LookupError') for h in a.handlers):
            return 'try/except KeyError'
    # short circuit: an earlier conjunct of the same `and` (or an earlier `if` of the same comprehension) tests the membership
    pos_txt = ('%s in self' % keytext, '%s in self.keys()' % keytext)
    for a in _anc(sub):
        if isinstance(a, ast.BoolOp) and isinstance(a.op, ast.And):
            for v in a.values:
                if sub_in(sub, v):
                    break
                if norm(v) in pos_txt:
                    return 'earlier conjunct `%s`' % norm(v)
        if isinstance(a, ast.comprehension):
            for c_ in a.ifs:
                if sub_in(sub, c_):
                    break
                if norm(c_) in pos_txt:
                    return 'comprehension condition `%s`' % norm(c_)
        if isinstance(a, (ast.DictComp, ast.ListComp, ast.SetComp, ast.GeneratorExp)):
            # the element expression runs only when every condition holds
            if any(norm(c_) in pos_txt or (isinstance(c_, ast.BoolOp) and isinstance(c_.op, ast.And) and any(norm(v) in pos_txt for v in c_.values))
                   for gen in a.generators for c_ in gen.ifs) and not any(sub_in(sub, c_) for gen in a.generators for c_ in gen.ifs):
                return 'comprehension condition'
        if isinstance(a, ast.IfExp) and sub_in(sub, a.body) and norm(a.test) in pos_txt:
            return 'conditional expression on `%s`' % norm(a.test)
    # membership test whose "present" outcome is the only way to reach the node
    for t in g.nodes:
        if t.kind != 'test' or not g.dominates(t.id, node.id) or t.id == node.id:
            continue
        txt = norm(t.ast)
        pos = txt in ('%s in self' % keytext, '%s in self.keys()' % keytext) or (
            isinstance(t.ast, ast.BoolOp) and isinstance(t.ast.op, ast.And) and any(norm(v) in pos_txt for v in t.ast.values))
        neg = txt in ('%s not in self' % keytext, 'not %s in self' % keytext)
        if not (pos or neg):
            continue
        want = True if pos else False
        other = [d for d, lab in g.succ[t.id] if lab is (not want)]
        if all(not (d == node.id or g.exists_path(d, node.id, avoid=[t.id])) for d in other):
            return 'membership test `%s`' % txt
    return None


def _anc(n):
    n = getattr(n, '_parent', None)
    while n is not None:
        yield n
        n = getattr(n, '_parent', None)


def sub_in(sub, stmt):
    return any(x is sub for x in ast.walk(stmt))


def r1_optional_fields(rep, src):
    m = src.mod(MOD)
    n_loops = 0
    for cname in m.classes:
        if '_multivalued' not in m.mro(cname):
            continue
        for q, fn in sorted(m.funcs.items()):
            if not q.startswith(cname + '.') or '.' in q[len(cname) + 1:]:
                continue
            loops = table_loops(fn)
            comps_ = [x for x in walk_no_nested(fn.node) if isinstance(x, (ast.ListComp, ast.SetComp, ast.DictComp, ast.GeneratorExp))
                      and any('_multivalued_fields' in norm(g_.iter) for g_ in x.generators)]
            if not loops and not comps_:
                continue
            rep.saw_func(fn)
            g = cfg.CFG(fn.node)
            for loop, kv in loops:
                n_loops += 1
                where = '%s:%d' % (fn.module.relpath, loop.lineno)
                # (a) every table entry is visited: no break / return inside the loop
                esc = [x for x in walk_no_nested(loop) if isinstance(x, (ast.Break, ast.Return))]
                esc = [x for x in esc if not any(isinstance(a, (ast.For, ast.While)) and a is not loop and sub_in(x, a) for a in walk_no_nested(loop))]
                if esc:
                    rep.fail('C12.R1', fn.site, 'loop over the field table visits every entry',
                             'a `%s` inside the loop over _multivalued_fields stops at the first %s entry: the remaining structured fields are not processed'
                             % ('break' if isinstance(esc[0], ast.Break) else 'return', 'absent' if any('not in self' in norm(a.test) or 'KeyError' in norm(a) for a in _anc(esc[0]) if isinstance(a, (ast.If, ast.Try))) else 'such'),
                             where='%s:%d' % (fn.module.relpath, esc[0].lineno))
                else:
                    rep.ok('C12.R1', fn.site, 'loop over the field table visits every entry', 'no break/return in the loop', nontrivial=False)
                # (b) direct subscripts self[key]
                subs = sorted([x for x in walk_no_nested(loop) if isinstance(x, ast.Subscript) and norm(x.value) == 'self'
                               and norm(x.slice) == kv], key=lambda x: (x.lineno, x.col_offset))
                established = []     # CFG nodes after which the key is known to be present
                for sub in subs:
                    node = g.node_for(sub)
                    if isinstance(sub.ctx, ast.Store):
                        established.append(node)
                        continue
                    why = guarded(g, node, sub, kv)
                    if not why:
                        prior = [e for e in established if e.id != node.id and g.dominates(e.id, node.id)]
                        if prior:
                            why = 'dominated by an earlier successful access/store of the same key (line %d)' % prior[0].lineno
                    if why:
                        established.append(node)
                    what = 'self[%s] in the table loop' % kv
                    if why:
                        rep.ok('C12.R1', fn.site, what, why)
                    else:
                        rep.fail('C12.R1', fn.site, what, 'self[%s] is read for every entry of _multivalued_fields without a guard: a paragraph that '
                                 'lacks one of the optional structured fields raises KeyError (dump fails)' % kv,
                                 where='%s:%d' % (fn.module.relpath, sub.lineno))
                # (c) one call deep: self.method(key) whose body subscripts self[param]
                for call in [x for x in walk_no_nested(loop) if isinstance(x, ast.Call) and isinstance(x.func, ast.Attribute)
                             and norm(x.func.value) == 'self' and any(norm(a) == kv for a in x.args)]:
                    callee = m.method(cname, call.func.attr)
                    if callee is None:
                        continue
                    idx = [norm(a) for a in call.args].index(kv)
                    ps = callee.params()
                    if idx + 1 >= len(ps):
                        continue
                    par = ps[idx + 1]
                    inner = [x for x in ast.walk(callee.node) if isinstance(x, ast.Subscript) and norm(x.value) == 'self'
                             and norm(x.slice) == par and isinstance(x.ctx, ast.Load)]
                    if not inner:
                        continue
                    gc = cfg.CFG(callee.node)
                    node = g.node_for(call)
                    for sub in inner:
                        why = guarded(g, node, call, kv) or guarded(gc, gc.node_for(sub), sub, par)
                        what = 'self.%s(%s) → self[%s]' % (call.func.attr, kv, par)
                        if why:
                            rep.ok('C12.R1', fn.site, what, why)
                        else:
                            rep.fail('C12.R1', fn.site, what, '%s reads self[%s] and is called for every entry of _multivalued_fields without a guard: '
                                     'an absent optional structured field raises KeyError (dump fails)' % (callee.qual, par),
                                     where='%s:%d' % (fn.module.relpath, call.lineno))
            # comprehensions over the table: a subscript / a call reading self[key] must be preceded by `key in self`
            # among the conditions of its generator (earlier `if` clause or earlier conjunct of the same `and`)
            for comp in [x for x in walk_no_nested(fn.node) if isinstance(x, (ast.ListComp, ast.SetComp, ast.DictComp, ast.GeneratorExp))]:
                for gi, gen in enumerate(comp.generators):
                    if '_multivalued_fields' not in norm(gen.iter):
                        continue
                    kv = gen.target.id if isinstance(gen.target, ast.Name) else (gen.target.elts[0].id if isinstance(gen.target, ast.Tuple) else None)
                    if kv is None:
                        continue
                    n_loops += 1
                    rep.saw_func(fn)
                    rep.ok('C12.R1', fn.site, 'loop over the field table visits every entry', 'comprehension', nontrivial=False)

                    def conjuncts(e):
                        if isinstance(e, ast.BoolOp) and isinstance(e.op, ast.And):
                            out = []
                            for v in e.values:
                                out += conjuncts(v)
                            return out
                        return [e]
                    conds = []
                    for c in gen.ifs:
                        conds += conjuncts(c)
                    member = ('%s in self' % kv, '%s in self.keys()' % kv)

                    def reads(node):
                        """does evaluating node read self[kv] (directly or through self.method(kv))"""
                        for x in ast.walk(node):
                            if isinstance(x, ast.Subscript) and norm(x.value) == 'self' and norm(x.slice) == kv:
                                return 'self[%s]' % kv
                            if isinstance(x, ast.Call) and isinstance(x.func, ast.Attribute) and norm(x.func.value) == 'self' and any(norm(a) == kv for a in x.args):
                                callee = m.method(cname, x.func.attr)
                                if callee is not None:
                                    idx = [norm(a) for a in x.args].index(kv)
                                    ps = callee.params()
                                    if idx + 1 < len(ps) and any(isinstance(y, ast.Subscript) and norm(y.value) == 'self' and norm(y.slice) == ps[idx + 1]
                                                                 for y in ast.walk(callee.node)):
                                        return 'self.%s(%s) → self[%s]' % (x.func.attr, kv, ps[idx + 1])
                        return None
                    guarded_from = next((i for i, c in enumerate(conds) if norm(c) in member), None)
                    parts = [(i, c) for i, c in enumerate(conds)] + [(len(conds), e) for e in ([comp.key, comp.value] if isinstance(comp, ast.DictComp) else [comp.elt])]
                    for i, node in parts:
                        what = reads(node)
                        if what is None:
                            continue
                        if guarded_from is not None and guarded_from < i:
                            rep.ok('C12.R1', fn.site, what + ' in the table comprehension', 'membership test `%s` precedes it' % norm(conds[guarded_from]))
                        else:
                            rep.fail('C12.R1', fn.site, what + ' in the table comprehension', '%s is evaluated for every entry of _multivalued_fields without a preceding '
                                     '`%s in self`: an absent optional structured field raises KeyError (dump fails)' % (what, kv),
                                     where='%s:%d' % (fn.module.relpath, comp.lineno))
    if n_loops < 1:
        raise AnalysisError('only %d loops over _multivalued_fields found' % n_loops)


def extract_writer(src, rep):
    f = src.func(MOD + ':_multivalued.get_as_string')
    rep.saw_func(f)
    keyp = f.params()[1]

    def cond_hook(it, test, env):
        t = norm(test)
        if isinstance(test, ast.Compare) and len(test.ops) == 1 and isinstance(test.ops[0], (ast.In, ast.NotIn)) and norm(test.comparators[0]) == 'self._multivalued_fields':
            return isinstance(test.ops[0], ast.In)       # the writer is analysed for a structured field
        if t.startswith('hasattr(self[') and "'keys'" in t:
            return it.decide(('bool', 'single-line'), 'the field holds a single record')
        if isinstance(test, ast.Compare) and len(test.ops) == 1 and isinstance(test.ops[0], (ast.In, ast.NotIn)):
            try:
                w_ = it.ev(test.comparators[0], env)
            except AnalysisError:
                w_ = None
            if isinstance(w_, Opaque) and w_.why == 'widths:field':
                r_ = it.decide(('present', 'width'), 'a width is registered for the sub-field')
                return r_ if isinstance(test.ops[0], ast.In) else not r_
        if isinstance(test, ast.Call) and norm(test.func) == 'hasattr' and len(test.args) == 2 and norm(test.args[1]) == "'keys'":
            v = it.ev(test.args[0], env)
            if isinstance(v, Obj) and v.path == 'record':
                return True
            if isinstance(v, ListOf):
                return False
        return NotImplemented

    def sub_hook(it, node, env):
        t = norm(node)
        if t == 'self[%s]' % keyp:
            rec = Obj('record', ('rec', {}))
            if it.decide(('bool', 'single-line'), 'the field holds a single record'):
                return rec
            return ListOf(rec, 'records')
        if norm(node.value) == 'self._multivalued_fields':
            lo = ListOf(Slot('fieldname'), 'order')
            lo.nonempty = True
            return lo
        base = None
        try:
            base = it.ev(node.value, env)
        except AnalysisError:
            return NotImplemented
        if isinstance(base, Obj) and base.path == 'record':
            return Slot('token')
        if isinstance(base, Opaque) and base.why == 'widths:field':
            return Opaque('width')
        return NotImplemented

    def call_hook(it, call, env):
        if norm(call.func) in ('%s.lower' % keyp,) and not call.args:
            return Opaque('lower-cased key')
        if norm(call.func) == 'len':
            return Opaque('len')
        # a private helper that hands out the widths registered for the sub-fields of this field (it reads the table of registered widths
        # and returns a mapping): the mapping of the widths -- a sub-field is in it, or not
        if isinstance(call.func, ast.Attribute) and isinstance(call.func.value, ast.Name) and call.func.value.id in ('self', 'cls') and call.func.attr.startswith('_'):
            hw_ = src.mod(MOD).method('_multivalued', call.func.attr)
            if hw_ is not None and isinstance(hw_.node, ast.FunctionDef) and hw_.node is not f.node \
                    and any(isinstance(n_, ast.Attribute) and n_.attr == '_fixed_field_lengths' for n_ in ast.walk(hw_.node)) \
                    and all(r_.value is not None and isinstance(r_.value, (ast.Name, ast.Dict, ast.DictComp)) for r_ in ast.walk(hw_.node) if isinstance(r_, ast.Return)) \
                    and any(isinstance(r_, ast.Return) for r_ in ast.walk(hw_.node)):
                rep.saw_func(hw_)
                return Opaque('widths:field')
        # a private helper of the class (self._x(...) / cls._x(...)): interpreted in place
        if isinstance(call.func, ast.Attribute) and isinstance(call.func.value, ast.Name) and call.func.value.id in ('self', 'cls', '_multivalued') \
                and call.func.attr.startswith('_') and not call.func.attr.startswith('__') and not call.keywords:
            h_ = src.mod(MOD).method('_multivalued', call.func.attr)
            if h_ is not None and isinstance(h_.node, ast.FunctionDef) and call.func.attr != f.node.name:
                decos = [norm(d) for d in h_.node.decorator_list]
                params = [a_.arg for a_ in h_.node.args.args]
                args = [it.ev(a_, env) for a_ in call.args]
                if 'staticmethod' not in decos and params:
                    args = [env.get('self')] + args
                defaults = h_.node.args.defaults
                while len(args) < len(params) and len(params) - len(args) <= len(defaults):
                    args.append(it.ev(defaults[len(defaults) - (len(params) - len(args))], {}))
                return it.call(strlang.Closure(h_.node, {}), args, call)
        # the table of registered widths read without try/except: getattr(self, <name>, {}) / <table>.get(field, {}) / <widths>.get(sub-field)
        if norm(call.func) == 'getattr' and len(call.args) == 3 and norm(call.args[0]) == 'self' and isinstance(call.args[1], ast.Constant):
            return Opaque('widths:table')
        if isinstance(call.func, ast.Attribute) and call.func.attr == 'get' and call.args and not call.keywords:
            try:
                base = it.ev(call.func.value, env)
            except AnalysisError:
                return NotImplemented
            if isinstance(base, Opaque) and base.why == 'widths:table' and len(call.args) == 2:
                return Opaque('widths:field')
            if isinstance(base, Opaque) and base.why == 'widths:field' and len(call.args) == 1:
                # a width is registered for this sub-field, or not
                return Opaque('width') if it.decide(('present', 'width'), 'a width is registered for the sub-field') else strlang.NONE
        return NotImplemented

    def run(dec):
        it = strlang.Interp(dec, cls='_multivalued', call_hook=call_hook, cond_hook=cond_hook, subscript_hook=sub_hook)
        env = {keyp: Slot('key'), 'self': Obj('self', ('rec', {}))}
        r = it.run(f.node.body, env)
        if r is None or r[0] != 'return':
            raise AnalysisError('%s: no return value' % f.site)
        return r[1], it
    res, raised = strlang.worlds(run)
    if not res:
        raise AnalysisError('%s: no template (%r)' % (f.site, raised[:1]))
    out = []
    for dec, term, it in res:
        if not isinstance(term, strlang.T):
            continue
        key = (dec.get(('bool', 'single-line')), strlang.show(term))
        if key not in [k for k, _ in out]:
            out.append((key, term))
    return f, out


def token_boundary_lang(alpha, markers):
    """marked strings in which the marked token is a maximal whitespace-free run"""
    ws = alpha.mask_of(lambda c: c.isspace())
    nA = alpha.n
    ko, kc = nA + markers.index(('open', 'tok')), nA + markers.index(('close', 'tok'))

    def step(s, sym):
        ph, prev_ws, n = s
        if ph == 'dead':
            return s
        if sym == ko:
            return ('in', prev_ws, 0) if (ph == 'pre' and prev_ws) else ('dead', 0, 0)
        if sym == kc:
            return ('after', 0, 0) if (ph == 'in' and n > 0) else ('dead', 0, 0)
        if sym >= nA:
            return s
        isws = bool(ws >> sym & 1)
        if ph == 'pre':
            return ('pre', isws, 0)
        if ph == 'in':
            return ('dead', 0, 0) if isws else ('in', 0, 1)
        if ph == 'after':
            return ('rest', 0, 0) if isws else ('dead', 0, 0)
        return s
    return rx.from_function(alpha, markers, ('pre', True, 0), step, lambda s: s[0] in ('after', 'rest'))


def r2_roundtrip(rep, src, M):
    f, variants = extract_writer(src, rep)
    substs = []
    worlds, fdump = M.dump_worlds(substitutions=substs)
    alpha = M.alpha
    dom = M.domain('')
    token = M.pat(r'[^\s]+').intersect(dom)
    n = 0
    for (single, shown), vterm in variants:
        base = {'key': M.pat(KEY_RE), 'token': token, 'fieldname': M.pat('x')}
        vlang = strlang.TBuilder(alpha, [], lambda p: base[p], {}).lang(vterm)
        if vlang.is_empty():
            continue
        for term_, old_, new_, preds_, line_ in substs:
            # a substitution on the way out must be the identity on the text of the structured values (else: not modelled here)
            import re as _re
            if strlang.slots_of(term_) != ['value'] or M.refine(vlang, preds_).intersect(M.pat('(?s:.*)' + _re.escape(old_) + '(?s:.*)')).witness() is not None:
                raise AnalysisError('%s: line %d rewrites the value with replace(%r, %r): outside the template vocabulary of this rule' % (fdump.site, line_, old_, new_))
        hit = []
        for term, preds in worlds:
            inside = M.refine(vlang, preds)
            if inside.is_empty():
                continue
            hit.append((term, inside))
        kind = 'single record' if single else 'record list'
        for term, inside in hit:
            n += 1

            def slot(p, inside=inside):
                if p == 'value':
                    return inside
                return base[p]
            Tm, Te = strlang.template_langs(term, alpha, slot, {'key': 'key'}, ['key'])
            w = Te.not_subset_witness(M.pat(r'(?s:.*)\n'))
            label = '%s: %s' % (kind, shown[:70])
            if w is not None:
                rep.fail('C12.R2', f.site, label + ': entry ends with a newline', 'dumped entry %r does not end with a newline' % w, where=f.where)
            for mode_name, universal in (('splitlines', True), ('file-lines', False)):
                check_record_lines(rep, M, f, label + ' / ' + mode_name, Tm, Te, universal, bool(single))
        # token boundaries: one token occurrence marked
        # (the value template is rebuilt with the slot `token` tagged once: TBuilder tags the first occurrence outside repeats only,
        #  so we mark by a dedicated unrolled term)
        one = unroll_one_token(vterm)
        if one is None:
            raise AnalysisError('%s: cannot single out one token of the record template %s' % (f.site, shown))
        markers = [('open', 'tok'), ('close', 'tok')]
        tb = strlang.TBuilder(alpha, markers, lambda p: base['token'] if p in ('token', 'token!') else base[p], {'token!': 'tok'})
        marked = tb.lang(one)
        okl = token_boundary_lang(alpha, markers)
        w = marked.not_subset_witness(okl)
        what = '%s: split() recovers each written token' % kind
        if w is not None:
            rep.fail('C12.R2', f.site, what, 'a written sub-field value is not a maximal whitespace-free run of its line, e.g. %r: the reader\'s '
                     'line.split() yields different tokens (records change on re-parse)' % w, detail={'witness': w}, where=f.where)
        else:
            rep.ok('C12.R2', f.site, what, 'every marked token is delimited by whitespace/line ends in %s' % shown[:60])
    if n < 2:
        raise AnalysisError('fewer than two writer forms (single record, record list) were analysed')


def _follow_pred_lang(mod, test, var, alpha, depth=0):
    """language of the texts `var` for which `test` holds, following one-expression predicate methods of the module's classes
    (self.m(var) / cls.m(var) / Class.m(var)) and `var.count(c)` (truthy: the text contains c)"""
    import re as _re
    if depth > 4:
        raise AnalysisError('predicate helpers nested too deeply: %s' % norm(test)[:60])
    # a test on the FIRST LINE of the text (`var.split('\n', 1)[0]`, `var.partition('\n')[0]`): the language of the first lines for
    # which it holds, followed by anything from the first newline on
    def is_first_line(e):
        return isinstance(e, ast.Subscript) and isinstance(e.slice, ast.Constant) and e.slice.value == 0 and isinstance(e.value, ast.Call) \
            and isinstance(e.value.func, ast.Attribute) and norm(e.value.func.value) == var and not e.value.keywords and (
                (e.value.func.attr == 'split' and len(e.value.args) == 2 and all(isinstance(a_, ast.Constant) for a_ in e.value.args)
                 and e.value.args[0].value == '\n' and e.value.args[1].value == 1)
                or (e.value.func.attr == 'partition' and len(e.value.args) == 1 and isinstance(e.value.args[0], ast.Constant) and e.value.args[0].value == '\n'))
    firsts = [e for e in ast.walk(test) if is_first_line(e)]
    if firsts:
        from ..core import clone as _clone

        class FL(ast.NodeTransformer):
            def visit_Subscript(self, n):
                if is_first_line(n):
                    return ast.copy_location(ast.Name(id='first_line__', ctx=ast.Load()), n)
                return self.generic_visit(n)
        t2 = ast.fix_missing_locations(FL().visit(_clone(test)))
        if any(isinstance(n_, (ast.Name, ast.Subscript, ast.Attribute)) and norm(n_) == var for n_ in ast.walk(t2)):
            raise AnalysisError('a test on the first line and on the whole text at once: %s' % norm(test)[:60])
        pl0 = _follow_pred_lang(mod, t2, 'first_line__', alpha, depth + 1)
        no_nl = rx.regex_lang('[^\n]*', 0, 'fullmatch', alpha=alpha)
        rest = rx.regex_lang('(?s:(?:\n.*)?)', 0, 'fullmatch', alpha=alpha)
        return rx.concat(pl0.intersect(no_nl), rest)

    def atom(t):
        if isinstance(t, ast.Call) and isinstance(t.func, ast.Attribute) and len(t.args) == 1 and not t.keywords and norm(t.args[0]) == var \
                and isinstance(t.func.value, ast.Name):
            owner = t.func.value.id
            cands = [fn for q, fn in mod.funcs.items() if q.endswith('.' + t.func.attr) and (owner in ('self', 'cls') or q.split('.')[0] == owner)]
            for fn in cands:
                body = [st for st in fn.node.body if not (isinstance(st, ast.Expr) and isinstance(st.value, ast.Constant))]
                if len(body) == 1 and isinstance(body[0], ast.Return) and body[0].value is not None:
                    ps = [a_.arg for a_ in fn.node.args.args if a_.arg not in ('self', 'cls')]
                    if len(ps) == 1:
                        return _follow_pred_lang(mod, body[0].value, ps[0], alpha, depth + 1)
        if isinstance(t, ast.Call) and isinstance(t.func, ast.Attribute) and t.func.attr == 'count' and norm(t.func.value) == var and len(t.args) == 1 \
                and isinstance(t.args[0], ast.Constant) and isinstance(t.args[0].value, str) and t.args[0].value:
            return rx.regex_lang('(?s:.*)' + _re.escape(t.args[0].value) + '(?s:.*)', 0, 'fullmatch', alpha=alpha)
        return None
    return strlang.pred_lang(test, var, alpha, atom=atom)


def r5_container_kind(rep, src, M):
    """the reader decides from the text of a structured field whether it holds a list of records or a single record; the writer
    lays a list out on continuation lines and a single record on the field line.  The two must agree for every value the writer
    can produce -- the empty list included, which is written as the empty text."""
    f, variants = extract_writer(src, rep)
    init = src.func(MOD + ':_multivalued.__init__')
    rep.saw_func(init)
    mod = src.mod(MOD)
    alpha = M.alpha
    loops = [st for st in init.node.body if isinstance(st, ast.For)]
    if len(loops) != 1:
        raise AnalysisError('%s: loop over the structured fields not found' % init.site)
    from .. import paths as P
    fnode, _ = normalize.inline_helpers(init)
    loop = [st for st in fnode.body if isinstance(st, ast.For)][0]
    list_lang = None
    anyl = rx.regex_lang('(?s:.*)', 0, 'fullmatch', alpha=alpha)
    for p_ in P.Enumerator(P.Folder()).run(loop.body, [P.Path()]):
        stores = [e_ for e_ in p_.events if e_[0] == 'store' and e_[1].startswith('self[')]
        if not stores:
            continue
        val = stores[0][2]
        is_list = isinstance(val, (ast.List, ast.ListComp)) or (isinstance(val, ast.Call) and norm(val.func) == 'list')
        lang = anyl
        not_text = False
        # `self.get(k)` is `self[k]` on a path that has established that it is text (an absent field is None there)
        text_gets = {norm(t_.args[0]) for t_, pol in p_.conds if pol and isinstance(t_, ast.Call) and norm(t_.func) == 'isinstance' and len(t_.args) == 2
                     and norm(t_.args[1]) in ('str', '(str,)', 'Text') and isinstance(t_.args[0], ast.Call) and isinstance(t_.args[0].func, ast.Attribute)
                     and t_.args[0].func.attr == 'get' and len(t_.args[0].args) == 1 and not t_.args[0].keywords}

        class GetAsIndex(ast.NodeTransformer):
            def visit_Call(self, c):
                self.generic_visit(c)
                if norm(c) in text_gets:
                    return ast.copy_location(ast.Subscript(value=c.func.value, slice=c.args[0], ctx=ast.Load()), c)
                return c
        for t_, pol in p_.conds:
            if "__raised__" in norm(t_):
                continue
            if text_gets:
                from ..core import clone as _clone
                t_ = ast.fix_missing_locations(GetAsIndex().visit(_clone(t_)))
            if isinstance(t_, ast.Call) and norm(t_.func) == 'isinstance' and len(t_.args) == 2 and norm(t_.args[1]) in ('str', '(str,)', 'Text'):
                not_text = not_text or not pol      # the value is text on this path / this path is for values that are not text
                continue
            names = {norm(n_) for n_ in ast.walk(t_) if isinstance(n_, ast.Subscript) and norm(n_.value) == 'self'}      # self[<field>]
            var = next(iter(names)) if len(names) == 1 else None
            if var is None:
                raise AnalysisError('%s: condition %s is not a predicate on the field text' % (init.site, norm(t_)[:60]))
            pl = _follow_pred_lang(mod, t_, var, alpha)
            lang = lang.intersect(pl if pol else pl.complement())
        if is_list and not not_text:
            list_lang = lang if list_lang is None else list_lang.union(lang)
    if list_lang is None:
        raise AnalysisError('%s: no path stores a list for a structured field' % init.site)
    dom = M.domain('')
    token = M.pat(r'[^\s]+').intersect(dom)
    base = {'key': M.pat(KEY_RE), 'token': token, 'fieldname': M.pat('x')}
    n = 0
    for (single, shown), vterm in variants:
        vlang = strlang.TBuilder(alpha, [], lambda p: base[p], {}).lang(vterm)
        if vlang.is_empty():
            continue
        n += 1
        kind = 'single record' if single else 'record list'
        w = (vlang.intersect(list_lang) if single else vlang.minus(list_lang)).witness()
        what = '%s is read back as a %s' % (kind, kind)
        if w is None:
            rep.ok('C12.R5', init.site, what, 'every text the writer produces for a %s is classified as one by the reader' % kind)
        else:
            rep.fail('C12.R5', init.site, what, 'the writer lays a %s out as %r%s, which the reader takes for a %s: the value does not come back%s' % (
                kind, w, ' (the empty list)' if not single and w == '' else '', 'record list' if single else 'single record',
                ' (an empty list becomes an empty record, which cannot be dumped again)' if not single and w == '' else ''), detail={'witness': w}, where=init.where)
    if n < 2:
        raise AnalysisError('fewer than two writer forms analysed')
    # parsing exposes EACH LINE as a record, however the lines are laid out: a text with two lines that hold something is a list of
    # records also when the first record stands on the line of the field name ("Files: <sum> <size> <name>\n <sum> ...")
    two = rx.regex_lang(r'(?s:.*\S.*\n.*\S.*)', 0, 'fullmatch', alpha=alpha).intersect(M.domain('\n'))
    w2 = two.minus(list_lang).witness()
    what2 = 'a text with two non-blank lines is read as a list of records'
    if w2 is None:
        rep.ok('C12.R5', init.site, what2, 'every such text takes the list branch')
    else:
        rep.fail('C12.R5', init.site, what2, 'the text %r (two lines, each a record) takes the single-record branch: its lines are merged into ONE record, only the last line\'s '
                 'values survive' % w2, detail={'witness': w2}, where=init.where)
    # a paragraph can also be built from a mapping (Deb822(mapping)): a structured field then already holds records, and the text
    # operations of the conversion must not be applied to it -- every use of the field value as text is dominated by a test that it
    # is text
    from ..core import set_parents
    set_parents(fnode)
    g = cfg.CFG(fnode)
    loop0 = loop
    binds = [st for st in ast.walk(loop0) if isinstance(st, ast.Assign) and len(st.targets) == 1 and isinstance(st.targets[0], ast.Name)
             and ((isinstance(st.value, ast.Subscript) and norm(st.value.value) == 'self')
                  or (isinstance(st.value, ast.Call) and norm(st.value.func) == 'self.get' and len(st.value.args) == 1 and not st.value.keywords))]
    if len(binds) != 1:
        raise AnalysisError('%s: the field value is not bound to one local' % init.site)
    cv = binds[0].targets[0].id
    text_uses = [c for c in ast.walk(loop0) if isinstance(c, ast.Call) and (
        (isinstance(c.func, ast.Attribute) and norm(c.func.value) == cv and c.func.attr in ('splitlines', 'split', 'strip', 'count', 'lstrip', 'rstrip', 'partition'))
        or (isinstance(c.func, ast.Attribute) and c.func.attr in ('is_multi_line', 'is_single_line') and [norm(a_) for a_ in c.args] == [cv]))]
    if not text_uses:
        raise AnalysisError('%s: no text operation on the field value found' % init.site)
    tests = [n_ for n_ in g.nodes if n_.kind == 'test' and 'isinstance(%s' % cv in norm(n_.ast)]
    unguarded = [c for c in text_uses if not any(g.dominates(t_.id, g.node_for(c).id) for t_ in tests)]
    if unguarded:
        rep.fail('C12.R5', init.site, 'records given to the constructor are kept', 'line %d applies `%s` to the value of a structured field without testing that it is text: a '
                 'paragraph constructed from a mapping whose field already holds records (Dsc(parsed), Release({"SHA256": [records]})) raises AttributeError'
                 % (unguarded[0].lineno, norm(unguarded[0])[:50]), where='%s:%d' % (init.module.relpath, unguarded[0].lineno))
    else:
        rep.ok('C12.R5', init.site, 'records given to the constructor are kept', '%d text operations, all behind isinstance(%s, ...)' % (len(text_uses), cv))


def unroll_one_token(term):
    """copy of `term` in which exactly one occurrence of Slot('token') inside the loops is renamed 'token!'
    (one extra iteration of each enclosing repeat is unrolled so the renamed slot sits outside repeats)"""
    from ..strlang import Cat, Star, Lit, Alt, Refine, RStrip, Join
    done = [False]

    def go(t):
        if done[0]:
            return t
        if isinstance(t, Slot):
            if t.path == 'token':
                done[0] = True
                return Slot('token!')
            return t
        if isinstance(t, Cat):
            return Cat([go(x) for x in t.items])
        if isinstance(t, Star):
            inner = go(t.item)
            if done[0]:
                return Cat([Star(t.item, t.src, 0), inner, Star(t.item, t.src, 0)])
            return t
        if isinstance(t, Alt):
            for i, x in enumerate(t.items):
                y = go(x)
                if done[0]:
                    return y
            return t
        if isinstance(t, Refine):
            # the refinement (no newline inside a value) is a property of the slot language here: keep the inner structure
            return go(t.term)
        if isinstance(t, RStrip):
            return go(t.term)
        return t
    r = go(term)
    return r if done[0] else None


def check_record_lines(rep, M, f, label, Tm, Te, universal, single):
    rule = 'C12.R2'
    where = f.where
    l0m = rx.strip_lang(rx.lines_of(Tm, 'first', universal), '\r\n')
    for br in M.cascade:
        hit_m = l0m.intersect(rx.lift(M.region_lang(br), l0m.markers))
        hit_e = rx.erase_markers(hit_m)
        if hit_e.is_empty():
            continue
        what = '%s: first line → %s' % (label, br['name'])
        if br['kind'] == 'skip':
            rep.fail(rule, f.site, label + ': first line is read', 'first line %r matches no reader regex' % hit_e.witness(), where=where)
            continue
        if br['kind'] != 'field':
            rep.fail(rule, f.site, what, 'first line %r is taken by the continuation branch' % hit_e.witness(), where=where)
            continue
        pat, fl = M.rx[br['key'][0]]
        w1, w2 = rx.agreement(pat, fl, br['mode'], hit_m, hit_e, ['key'], alpha=M.alpha)
        if w1 is not None or w2 is not None:
            rep.fail(rule, f.site, what, 'the key is not captured as written: %r' % (w2 or w1), where=where)
        else:
            rep.ok(rule, f.site, what, 'key captured')
    raw = rx.lines_of(Te, 'rest', universal)
    rest = rx.strip_lang(raw, '\r\n')
    if single:
        what = label + ': single record stays on the field line'
        if rest.is_empty():
            rep.ok(rule, f.site, what, 'no continuation lines')
        else:
            rep.fail(rule, f.site, what, 'a single record produces the extra line %r' % rest.witness(), where=where)
        C02.hazards(rep, M, rule, f.site, label + ': first line', rx.erase_markers(l0m), rx.erase_markers(rx.lines_of(Tm, 'first', universal)), where)
        return
    for br in M.cascade:
        hit = rest.intersect(M.region_lang(br))
        if hit.is_empty():
            continue
        what = '%s: record line → %s' % (label, br['name'])
        if br['kind'] == 'skip':
            rep.fail(rule, f.site, label + ': record lines are read', 'record line %r matches no reader regex (record lost)' % hit.witness(), where=where)
        elif br['kind'] != 'cont':
            rep.fail(rule, f.site, what, 'record line %r is read as a new field' % hit.witness(), detail={'witness': hit.witness()}, where=where)
        elif not br['verbatim']:
            rep.fail(rule, f.site, what, 'record line %r is not kept verbatim' % hit.witness(), where=where)
        else:
            rep.ok(rule, f.site, what, 'kept verbatim as continuation')
    if not rest.is_empty():
        C02.hazards(rep, M, rule, f.site, label + ': record line', rest, raw, where)


def r2b_same_table(rep, src):
    fr = src.func(MOD + ':_multivalued.__init__')
    fw = src.func(MOD + ':_multivalued.get_as_string')
    rep.saw_func(fr)
    from ..core import Func, set_parents
    fr_node, _inl = normalize.inline_helpers(fr)        # the conversion may sit in a helper of the class
    set_parents(fr_node)
    fr = Func(fr.module, fr_node, fr.qual, fr.cls)
    # the reader interpreted (sa.heap) on a paragraph whose Files field holds the text, with the table entry [md5sum, size, name]: the
    # records that end up under the field, for the customary layout, for the aligned layout of Release / Index (several blanks in front
    # of the size) and for lines with tabs and trailing blanks (Deb822 keeps them in the field text) -- every sub-field is the
    # whitespace-free token at its position
    from .. import heap as H_
    body_ = [st for st in fr_node.body if not (isinstance(st, ast.Expr) and isinstance(st.value, ast.Call) and isinstance(st.value.func, ast.Attribute)
                                               and st.value.func.attr == '__init__')]
    if len(body_) == len(fr_node.body):
        raise AnalysisError('%s: the call of the paragraph constructor was not found' % fr.site)
    import copy as _copy
    rd_node = _copy.copy(fr_node)
    rd_node.body = body_

    def read(text):
        content = {'Files': text}

        def getitem(it_, a, k):
            k_ = a[1].concrete() if hasattr(a[1], 'concrete') else a[1]
            if not isinstance(k_, str) or k_.lower() != 'files':
                raise H_.Raised('KeyError', it_.h.version, 0)
            return content['Files']

        def setitem(it_, a, k):
            if not isinstance(a[1], str) or a[1].lower() != 'files':
                raise AnalysisError('the reader stores under the key %r' % (a[1],))
            content['Files'] = a[2]

        def mkdict(it_, a, k):
            d_ = it_.h.new_dict()
            for p_ in (it_.seq(a[0]) if a else []):
                p_ = it_.seq(p_)
                it_.h.dict_set(d_, p_[0], p_[1])
            return d_
        def get(it_, a, k):
            if not (isinstance(a[0], H_.Ref) and it_.h.objs[a[0].name]['__class__'] == '_multivalued'):
                raise AnalysisError('.get() of %r in the reader' % (a[0],))
            try:
                return getitem(it_, a[:2], k)
            except H_.Raised:
                return a[2] if len(a) > 2 else k.get('default')
        heap_ = H_.Heap(src.mod(MOD), hooks={'__getitem__': getitem, '__setitem__': setitem, '.get': get, 'Deb822Dict': mkdict})
        it_ = H_.Interp(heap_)
        tbl = heap_.new_dict()
        heap_.dict_set(tbl, 'files', heap_.new_list(['md5sum', 'size', 'name']))
        me_ = heap_.alloc('_multivalued', {'_multivalued_fields': tbl})
        try:
            it_.call(H_.Closure(rd_node, {}, me_, fr.cls), [])
        except H_.Raised as x_:
            return 'raises %s (line %d)' % (x_.exc, x_.lineno)

        def plain(v_):
            if isinstance(v_, H_.Ref) and heap_.objs[v_.name]['__class__'] == 'dict':
                return {k2_: plain(x_) for k2_, x_ in heap_.objs[v_.name]['entries']}
            if heap_.is_list(v_):
                return [plain(x_) for x_ in heap_.items(v_)]
            return v_.concrete() if hasattr(v_, 'concrete') else v_
        return plain(content['Files'])
    R1, R2 = {'md5sum': 'M1', 'size': 'S1', 'name': 'N1'}, {'md5sum': 'M2', 'size': 'S2', 'name': 'N2'}
    rproblems, nread = [], 0
    for text, want, label in (
            ('\n M1 S1 N1\n M2 S2 N2', [R1, R2], 'two record lines'),
            ('\n M1 S1 N1', [R1], 'one record line'),
            (' M1 S1 N1', R1, 'a record on the field line'),
            ('\n M1               S1 N1\n M2               S2 N2', [R1, R2], 'the aligned layout (size right-aligned in 16 columns)'),
            ('\n M1 S1 N1 \n\tM2\t S2   N2\t', [R1, R2], 'record lines with tabs, runs of blanks and a trailing blank'),
            (' M1 S1 N1 ', R1, 'a record on the field line with a trailing blank')):
        got = read(text)
        nread += 1
        if got != want:
            rproblems.append('%s, %r, are read as %r; the records are %r (each sub-field the whitespace-free token at its position)' % (label, text, got, want))
    if not rproblems:
        rep.ok('C12.R2', fr.site, 'reader: record = the tokens of the line under the sub-field names of the table entry', '%d layouts interpreted' % nread)
    else:
        rep.fail('C12.R2', fr.site, 'reader: record = the tokens of the line under the sub-field names of the table entry', rproblems[0], where=fr.where)
    # the writer interpreted (sa.heap) on a field whose table entry is [md5sum, size, name] and whose records hold a different mark
    # under every sub-field (the records themselves list their keys in another order): the marks come out in table order, one
    # record per line, a single record on the field line
    # ... with and without a registered width for the size column (the column is then right-aligned to it in EVERY record, also when
    # the field holds one record only), and every text the writer lays out is read back (the interpreted reader above) as the records
    problems = []
    nw = 0
    R_1, R_2 = {'md5sum': 'M1', 'size': 'S1', 'name': 'N1'}, {'md5sum': 'M2', 'size': 'S2', 'name': 'N2'}
    for width in (None, 6):
        for form in ('single', 'one', 'two'):
            content = {}

            def getitem(it_, a, k, content=content):
                k_ = a[1].concrete() if hasattr(a[1], 'concrete') else a[1]
                if k_ not in content:
                    raise H_.Raised('KeyError', it_.h.version, 0)
                return content[k_]
            heap_ = H_.Heap(src.mod(MOD), hooks={'__getitem__': getitem})
            it_ = H_.Interp(heap_)

            def rec(a_, b_, c_):
                d_ = heap_.new_dict()
                for k_, v_ in (('name', c_), ('md5sum', a_), ('size', b_)):
                    heap_.dict_set(d_, k_, v_)
                return d_
            content['Files'] = rec('M1', 'S1', 'N1') if form == 'single' else heap_.new_list([rec('M1', 'S1', 'N1')] + ([rec('M2', 'S2', 'N2')] if form == 'two' else []))
            tbl = heap_.new_dict()
            heap_.dict_set(tbl, 'files', heap_.new_list(['md5sum', 'size', 'name']))
            widths = heap_.new_dict()
            if width is not None:
                w_ = heap_.new_dict()
                heap_.dict_set(w_, 'size', width)
                heap_.dict_set(widths, 'files', w_)
            me_ = heap_.alloc('_multivalued', {'_multivalued_fields': tbl, '_fixed_field_lengths': widths})
            size = lambda s_: s_ if width is None else s_.rjust(width)      # noqa: E731
            lines_ = [' M1 %s N1' % size('S1')] + ([' M2 %s N2' % size('S2')] if form == 'two' else [])
            want_ = lines_[0] if form == 'single' else '\n' + '\n'.join(lines_)
            label_ = {'single': 'a single record', 'one': 'a list of one record', 'two': 'two records'}[form] + ('' if width is None else ' with the registered size width %d' % width)
            nw += 1
            try:
                r_ = it_.call(H_.Closure(fw.node, {}, me_, fw.cls), ['Files'])
                r_ = r_.concrete() if hasattr(r_, 'concrete') else r_
            except H_.Raised as x_:
                r_ = 'raises %s' % x_.exc
            if r_ != want_:
                problems.append('%s with the table entry [md5sum, size, name] is written as %r; the reader pairs the tokens of a line with the table entry by position%s, so the '
                                'text must be %r' % (label_, r_, '' if width is None else ' and the size column is right-aligned to the registered width in every record', want_))
            elif isinstance(r_, str):
                back_ = read(r_)
                want_back = R_1 if form == 'single' else [R_1] + ([R_2] if form == 'two' else [])
                if back_ != want_back:
                    problems.append('%s is written as %r, which is read back as %r' % (label_, r_, back_))
    if not problems:
        rep.ok('C12.R2', fw.site, 'writer: sub-fields in table order, sizes right-aligned, read back as the records', '%d forms (single record, list of one, list of two; with and '
               'without a registered width)' % nw)
    else:
        rep.fail('C12.R2', fw.site, 'writer: sub-fields in table order, sizes right-aligned, read back as the records', '; '.join(problems[:2]), where=fw.where)
    # (which texts the reader takes for a record list and which for a single record, and that this is what the writer lays out, is
    # decided on languages by C12.R5)


def r3_tables(rep, src):
    m = src.mod(MOD)
    for cname, want in TABLES.items():
        got = None
        for c in m.mro(cname):
            if '_multivalued_fields' in m.consts.get(c, {}):
                got = m.consts[c]['_multivalued_fields']
                break
        if got is None:
            rep.fail('C12.R3', '%s:%s' % (MOD, cname), '_multivalued_fields table', 'table not found / not constant')
            continue
        for k, names in want.items():
            if k not in got:
                rep.fail('C12.R3', '%s:%s' % (MOD, cname), 'entry ' + k, 'the structured field %s is not in the table of %s' % (k, cname))
            elif list(got[k]) != names:
                rep.fail('C12.R3', '%s:%s' % (MOD, cname), 'entry ' + k, 'sub-fields of %s are %r, documented: %r' % (k, list(got[k]), names))
            else:
                rep.ok('C12.R3', '%s:%s' % (MOD, cname), 'entry ' + k, ' '.join(names))
        bad = [k for k in got if k != k.lower()]
        if bad:
            rep.fail('C12.R3', '%s:%s' % (MOD, cname), 'keys are lower case', 'table key %r is not lower case but lookups use key.lower()' % bad[0])


def kind_of(e, env):
    """tiny kind inference for the size-column width: SIZE / LEN / COLL[k] / MAXLEN / CONST(n)"""
    if isinstance(e, ast.Constant) and isinstance(e.value, int):
        return ('CONST', e.value)
    if isinstance(e, ast.Name) and e.id in env:
        return env[e.id]
    if isinstance(e, ast.Subscript) and isinstance(e.slice, ast.Constant) and e.slice.value == 'size':
        return 'SIZE'
    if isinstance(e, ast.Call):
        fn = norm(e.func)
        args = [kind_of(a, env) for a in e.args]
        if fn == 'str' and args == ['SIZE']:
            return 'SIZESTR'
        if fn == 'int' and args == ['SIZE']:
            return 'SIZE'
        if fn == 'len' and args == ['SIZESTR']:
            return 'LEN'
        if fn == 'len' and args and args[0] in (('STR', 'MAXSIZE'),):
            return 'LEN-OF-MAX-SIZE'
        if fn == 'str' and args == ['MAXSIZE']:
            return ('STR', 'MAXSIZE')
        if fn in ('max',) and len(args) == 1 and isinstance(args[0], tuple) and args[0][0] == 'COLL':
            return {'LEN': 'MAXLEN', 'SIZE': 'MAXSIZE', 'SIZESTR': 'MAXSIZESTR'}.get(args[0][1], 'UNKNOWN')
        if fn in ('min',) and len(args) == 1:
            return 'MIN'
        if fn in ('list', 'tuple', 'sorted') and len(args) == 1:
            return args[0]
        if fn == 'len' and args == ['MAXSIZESTR']:
            return 'LEN-OF-MAX-SIZE'
        mod_ = env.get('$mod')
        if mod_ is not None and isinstance(e.func, ast.Name) and e.func.id in mod_.funcs and mod_.funcs[e.func.id].cls is None and env.get('$depth', 0) < 3:
            # a module-level helper: its body is read with the same kinds (straight-line assignments, one return)
            h_ = mod_.funcs[e.func.id].node
            ps_ = [a_.arg for a_ in h_.args.args]
            if len(ps_) == len(args) and not e.keywords:
                env2 = {'$mod': mod_, '$depth': env.get('$depth', 0) + 1}
                env2.update(zip(ps_, args))
                for st_ in h_.body:
                    if isinstance(st_, ast.Expr) and isinstance(st_.value, ast.Constant):
                        continue
                    if isinstance(st_, ast.Assign) and len(st_.targets) == 1 and isinstance(st_.targets[0], ast.Name):
                        env2[st_.targets[0].id] = kind_of(st_.value, env2)
                        continue
                    if isinstance(st_, ast.Return) and st_.value is not None:
                        return kind_of(st_.value, env2)
                    return 'UNKNOWN'
    if isinstance(e, (ast.ListComp, ast.GeneratorExp, ast.SetComp)) and len(e.generators) == 1:
        g = e.generators[0]
        env2 = dict(env)
        return ('COLL', kind_of(e.elt, env2))
    if isinstance(e, ast.Call) and isinstance(e.func, ast.Lambda) and len(e.func.args.args) == len(e.args) and not e.keywords:
        # a function taken from a dispatch table and applied on the spot
        env2 = dict(env)
        env2.update({a_.arg: kind_of(x, env) for a_, x in zip(e.func.args.args, e.args)})
        return kind_of(e.func.body, env2)
    return 'UNKNOWN'


def _size_behavior_default(rep, src, m):
    """the size_field_behavior property interpreted on Release objects: a fresh object answers the documented 'apt-ftparchive',
    an assignment is read back from the same object, and does not change what another object answers (the setting is per object)"""
    from .. import heap as H
    cdef = m.classes['Release']
    getter = setter = None          # (node, is_method)
    for st in cdef.body:
        if isinstance(st, ast.Assign) and norm(st.targets[0]) == 'size_field_behavior' and isinstance(st.value, ast.Call) and norm(st.value.func) == 'property' and st.value.args:
            parts = list(st.value.args[:2]) + [None] * (2 - len(st.value.args[:2]))
            for kw in st.value.keywords:
                if kw.arg == 'fget':
                    parts[0] = kw.value
                if kw.arg == 'fset':
                    parts[1] = kw.value
            got = []
            for g in parts:
                if isinstance(g, ast.Lambda):
                    got.append((g, False))
                elif isinstance(g, ast.Name) and m.method('Release', g.id) is not None:
                    got.append((m.method('Release', g.id).node, True))
                else:
                    got.append(None)
            getter, setter = got
        if isinstance(st, ast.FunctionDef) and st.name == 'size_field_behavior':
            if any(norm(d) == 'property' for d in st.decorator_list):
                getter = (st, True)
            if any(norm(d) == 'size_field_behavior.setter' for d in st.decorator_list):
                setter = (st, True)
    site = MOD + ':Release.size_field_behavior'
    if getter is None or setter is None:
        raise AnalysisError('%s: getter and setter of the property not found' % site)
    heap = H.Heap(m)
    it = H.Interp(heap)

    def call(part, obj, *args):
        node, is_method = part
        try:
            if is_method:
                return it.call(H.Closure(node, {}, obj, 'Release'), list(args))
            return it.call(H.Closure(node, {}, None, 'Release'), [obj] + list(args))
        except H.Raised as x:
            return ('raises', x.exc)
        except AnalysisError as x:
            if 'has no attribute' in str(x):      # neither the object, its class nor a base class has it
                return ('raises', 'AttributeError')
            raise
    fresh = heap.alloc('Release', {})
    v0 = call(getter, fresh)
    inits = [n_ for c in m.mro('Release') for f_ in [m.funcs.get(c + '.__init__')] if f_ is not None for n_ in ast.walk(f_.node)
             if isinstance(n_, ast.Attribute) and isinstance(n_.ctx, ast.Store) and norm(n_.value) == 'self'
             and isinstance(getter[0], ast.Lambda) and isinstance(getter[0].body, ast.Attribute) and n_.attr == getter[0].body.attr]
    if v0 == 'apt-ftparchive':
        rep.ok('C12.R4', site, 'default behaviour', "a Release object that was never configured answers 'apt-ftparchive'", nontrivial=False)
    elif isinstance(v0, tuple) and v0[:1] == ('raises',) and not inits:
        rep.fail('C12.R4', site, 'default behaviour', 'on an object that was never configured the getter raises %s: nothing provides a default (the error is swallowed by '
                 'get_as_string, so the sizes are written unpadded)' % v0[1])
    else:
        rep.fail('C12.R4', site, 'default behaviour', 'the default size_field_behavior is %r, documented: apt-ftparchive' % ('set in __init__' if inits else v0,))
    a, b = heap.alloc('Release', {}), heap.alloc('Release', {})
    r = call(setter, a, 'dak')
    va, vb, vc = call(getter, a), call(getter, b), call(getter, heap.alloc('Release', {}))
    if isinstance(r, tuple) and r[:1] == ('raises',):
        rep.fail('C12.R4', site, 'the setting is per object', "assigning 'dak' raises %s" % r[1])
    elif va != 'dak':
        rep.fail('C12.R4', site, 'the setting is per object', "after `r.size_field_behavior = 'dak'` the same object answers %r" % (va,))
    elif vb != v0 or vc != v0:
        rep.fail('C12.R4', site, 'the setting is per object', "after `a.size_field_behavior = 'dak'` another Release object (%s) answers %r instead of its own %r: the setter "
                 'writes into state shared by the class, so one object\'s configuration changes the size column every other Release dumps'
                 % ('existing before' if vb != v0 else 'created afterwards', vb if vb != v0 else vc, v0))
    else:
        rep.ok('C12.R4', site, 'the setting is per object', "assignment on one object is read back there and leaves other objects at %r" % (v0,))


def _width_scenarios(rep, src, m, cname, modes):
    """<class>._fixed_field_lengths() interpreted on paragraphs whose structured fields are absent / a list of records / one record
    (a mapping) / the empty list: which widths are registered, and that none of these contents makes the computation raise.
    The paragraph's own item protocol (`key in self`, `self[key]`) is the scenario's content; everything else is the library's code."""
    from .. import heap as H
    pw = m.method(cname, '_fixed_field_lengths')
    if pw is None:
        raise AnalysisError('%s._fixed_field_lengths not found' % cname)
    rep.saw_func(pw)
    table = m.consts.get(cname, {}).get('_multivalued_fields')
    if not isinstance(table, dict) or not table:
        raise AnalysisError('%s._multivalued_fields is not a table of constants' % cname)
    with_size = [k for k, v in table.items() if 'size' in v]
    if not with_size:
        raise AnalysisError('%s._multivalued_fields: no field with a size column' % cname)
    k0 = with_size[0]
    for md in (modes or (None,)):
        for scen in ('absent', 'list', 'single', 'empty') + (('two',) if len(with_size) > 1 else ()):
            content = {}

            def getitem(it, args, kw):
                key = args[1]
                key = key.concrete() if hasattr(key, 'concrete') else key
                if key not in content:
                    raise H.Raised('KeyError', it.h.version, kw.get('lineno', 0))
                return content[key]

            def contains(it, args, kw):
                return args[1] in content
            heap = H.Heap(m, hooks={'__getitem__': getitem, '__contains__': contains, '.keys': lambda it, args, kw: heap.new_list(list(content))})
            it = H.Interp(heap)
            obj = heap.alloc(cname, {})

            def rec(size):
                d = heap.new_dict()
                for f_ in table[k0]:
                    heap.dict_set(d, f_, size if f_ == 'size' else 'x')
                return d
            if scen == 'list':
                content[k0] = heap.new_list([rec('9'), rec('10000')])
            elif scen == 'single':
                content[k0] = rec('5')
            elif scen == 'empty':
                content[k0] = heap.new_list([])
            elif scen == 'two':
                content[with_size[0]] = heap.new_list([rec('9'), rec('10000')])
                content[with_size[-1]] = heap.new_list([rec('123')])
            what = {'two': 'two fields, sizes up to 10000 in %s and 123 in %s' % (with_size[0], with_size[-1]),
                    'absent': 'no structured field present', 'list': 'records with sizes 9 and 10000', 'single': 'a field holding one record (a mapping)',
                    'empty': 'a field holding the empty list'}[scen] + (' [%s]' % md if md else '')
            rid = 'C12.R1' if scen == 'absent' else 'C12.R4'
            try:
                if md is not None and md != 'apt-ftparchive':
                    it.store_attr(obj, 'size_field_behavior', md, cname)
                r = it.call(H.Closure(pw.node, {}, obj, pw.cls), [])
            except H.Raised as x:
                rep.fail(rid, pw.site, what, {
                    'absent': 'raises %s (line %d): an absent optional structured field makes the dump fail',
                    'list': 'raises %s (line %d) for a list of records', 'two': 'raises %s (line %d) for two lists of records',
                    'single': 'raises %s (line %d): the width of the size column is computed by iterating the value as a list of records; one record (a mapping: '
                              '"MD5Sum: <sum> <size> <name>" on the field line) is iterated key by key and the dump fails',
                    'empty': 'raises %s (line %d) when the field holds no record: a paragraph whose structured field is the empty list cannot be dumped'}[scen]
                    % (x.exc, x.lineno), where=pw.where)
                continue
            got = {}
            if isinstance(r, H.Ref) and heap.objs[r.name]['__class__'] == 'dict':
                for k_, v_ in heap.objs[r.name]['entries']:
                    got[k_] = dict(heap.objs[v_.name]['entries']) if isinstance(v_, H.Ref) and heap.objs[v_.name]['__class__'] == 'dict' else v_
            else:
                rep.fail(rid, pw.site, what, 'returns %r, not a table of widths' % (r,), where=pw.where)
                continue
            if scen == 'absent':
                if got:
                    rep.fail(rid, pw.site, what, 'registers widths %r for fields that are not there' % (got,), where=pw.where)
                else:
                    rep.ok(rid, pw.site, what, 'no width registered, nothing raised')
            elif scen == 'list':
                want = 16 if md == 'apt-ftparchive' else 5
                if got.get(k0) == {'size': want} and set(got) == {k0}:
                    rep.ok(rid, pw.site, what, 'width %d for the size column of %s' % (want, k0))
                else:
                    rep.fail(rid, pw.site, what, 'registers %r; expected {%r: {"size": %d}} (%s)' % (
                        got, k0, want, 'fixed width of apt-ftparchive' if want == 16 else 'the longest size present'), where=pw.where)
            elif scen == 'two':
                w1, w2 = (16, 16) if md == 'apt-ftparchive' else (5, 3)
                if got == {with_size[0]: {'size': w1}, with_size[-1]: {'size': w2}}:
                    rep.ok(rid, pw.site, what, 'widths %d and %d: each field has its own' % (w1, w2))
                else:
                    rep.fail(rid, pw.site, what, 'registers %r; expected width %d for %s and %d for %s (the longest size present in that field)' % (
                        got, w1, with_size[0], w2, with_size[-1]), where=pw.where)
            else:
                extra = {k_: v_ for k_, v_ in got.items() if k_ != k0}
                if extra:
                    rep.fail(rid, pw.site, what, 'registers widths %r for fields that are not there' % (extra,), where=pw.where)
                elif scen == 'single' and md == 'apt-ftparchive' and got.get(k0) != {'size': 16}:
                    rep.fail(rid, pw.site, what, 'registers %r for the field; under apt-ftparchive the size column is 16 wide whatever the field holds (the record on the field line '
                             '"MD5Sum: <sum> <size> <name>" is written with an unpadded size, while the same record in the several-line form gets the column)'
                             % (got.get(k0, 'no width'),), where=pw.where)
                elif scen == 'single' and md != 'apt-ftparchive' and got.get(k0) not in (None, {'size': 1}):
                    rep.fail(rid, pw.site, what, 'registers %r for a field whose only record has the size "5"; the width is the longest size present (1)' % (got.get(k0),), where=pw.where)
                else:
                    rep.ok(rid, pw.site, what, 'nothing raised (%s)' % ('width %r' % (got[k0],) if k0 in got else 'no width registered'))


def r4_size_column(rep, src, rep_align=None):
    m = src.mod(MOD)
    _size_behavior_default(rep, src, m)
    for cname, modes in (('PdiffIndex', None), ('Release', ('apt-ftparchive', 'dak'))):
        f = m.method(cname, '_get_size_field_length')
        if f is None:
            raise AnalysisError('%s._get_size_field_length not found' % cname)
        rep.saw_func(f)
        from .. import paths as P0
        from ..core import clone as _clone

        def table_entry(base, key_node):
            """value node of a class-level dispatch table `self.NAME` / `cls.NAME` / `Class.NAME` at a constant key (None: no such entry)"""
            if not (isinstance(base, ast.Attribute) and isinstance(base.value, ast.Name) and base.value.id in ('self', 'cls', cname)):
                return NotImplemented
            node, _c = m.class_const_node(cname, base.attr) if hasattr(m, 'class_const_node') else (None, None)
            if not isinstance(node, ast.Dict) or not isinstance(key_node, ast.Constant):
                return NotImplemented
            for k_, v_ in zip(node.keys, node.values):
                if isinstance(k_, ast.Constant) and k_.value == key_node.value:
                    return _clone(v_)
            return None

        class Spec(ast.NodeTransformer):
            """the function specialised for one value of size_field_behavior; look-ups in class-level dispatch tables resolved"""
            def __init__(self, md):
                self.md = md

            def visit_Attribute(self, n):
                if self.md is not None and norm(n) == 'self.size_field_behavior' and isinstance(n.ctx, ast.Load):
                    return ast.copy_location(ast.Constant(value=self.md), n)
                return self.generic_visit(n)

            def visit_Call(self, n):
                n = self.generic_visit(n)
                if isinstance(n.func, ast.Attribute) and n.func.attr == 'get' and 1 <= len(n.args) <= 2 and not n.keywords:
                    r = table_entry(n.func.value, n.args[0])
                    if r is not NotImplemented:
                        return ast.copy_location(r if r is not None else (n.args[1] if len(n.args) == 2 else ast.Constant(value=None)), n)
                return n

            def visit_Subscript(self, n):
                n = self.generic_visit(n)
                if isinstance(n.ctx, ast.Load):
                    r = table_entry(n.value, n.slice)
                    if r is not NotImplemented and r is not None:
                        return ast.copy_location(r, n)
                return n

        def fn_atom(e):
            # a function object is not None and is true
            if isinstance(e, ast.Compare) and len(e.ops) == 1 and isinstance(e.ops[0], (ast.Is, ast.IsNot)) and isinstance(e.left, ast.Lambda) \
                    and isinstance(e.comparators[0], ast.Constant) and e.comparators[0].value is None:
                return isinstance(e.ops[0], ast.IsNot)
            if isinstance(e, ast.Lambda):
                return True
            return None
        folder = P0.Folder(P0.module_consts(m, cname), fn_atom)

        def results_for(md):
            fn_ = Spec(md).visit(_clone(f.node))
            ast.fix_missing_locations(fn_)
            out_ = []
            for p_ in P0.function_paths(fn_, folder):
                if p_.outcome[0] != 'return' or p_.outcome[1] is None:
                    out_.append(('raise', None, p_, p_.conds) if p_.outcome[0] == 'raise' else ('other', None, p_, p_.conds))
                    continue
                cv = folder.value(p_.outcome[1])
                k = ('CONST', cv[1]) if cv is not None and isinstance(cv[1], int) else kind_of(p_.outcome[1], {'$mod': m})
                cond = ' and '.join(('' if pol else 'not ') + '(' + norm(t) + ')' for t, pol in p_.conds)
                out_.append((cond, k, p_, p_.conds))
            return out_
        results = [r_ for r_ in results_for(None) if r_[0] not in ('raise', 'other')]
        if modes is None:
            ks = [k for _, k, _, _c in results]
            if ks == ['MAXLEN']:
                rep.ok('C12.R4', f.site, 'width = longest size', 'max(len(str(item[size])))')
            elif ks and all(k in ('MAXSIZE', 'MAXSIZESTR', 'LEN-OF-MAX-SIZE', 'MIN', 'LEN', 'SIZE', 'SIZESTR') or (isinstance(k, tuple) and k[:1] == ('CONST',)) for k in ks):
                rep.fail('C12.R4', f.site, 'width = longest size', 'the size column width is computed as %s instead of the maximum of the lengths of the '
                         'sizes (a lexicographic or numeric maximum of the sizes gives a too narrow column)' % ks, where=f.where)
        else:
            got = {}

            def lit_truth(t, md):
                """truth of a path literal when self.size_field_behavior is md (None: does not depend on it alone)"""
                if isinstance(t, ast.Compare) and len(t.ops) == 1:
                    l, r, op = t.left, t.comparators[0], t.ops[0]
                    if norm(r) == 'self.size_field_behavior' and isinstance(op, (ast.Eq, ast.NotEq)):
                        l, r = r, l
                    if norm(l) == 'self.size_field_behavior':
                        cv_ = folder.value(r)
                        if cv_ is not None:
                            if isinstance(op, (ast.Eq, ast.NotEq)):
                                return (cv_[1] == md) == isinstance(op, ast.Eq)
                            if isinstance(op, (ast.In, ast.NotIn)) and isinstance(cv_[1], (tuple, list, set, frozenset)):
                                return (md in cv_[1]) == isinstance(op, ast.In)
                return None
            for md in modes:
                rs_ = results_for(md)
                ks_ = set()
                raising = False
                for cond, k, p_, conds in rs_:
                    if not all(lit_truth(t, md) in (None, pol) for t, pol in conds):
                        continue       # a literal on the (unspecialised) behaviour contradicts this mode
                    if cond == 'raise':
                        raising = True
                    elif cond != 'other':
                        ks_.add(k if not isinstance(k, list) else tuple(k))
                if raising:
                    got[md] = 'raises'
                elif len(ks_) == 1:
                    got[md] = ks_.pop()
                elif ks_:
                    got[md] = sorted(map(repr, ks_))
            # a verdict from the shape of the returned expression only where that shape is in the vocabulary of kind_of; any other way
            # of writing it (a dispatch table of helpers, map / itemgetter ...) is decided by the interpreted scenarios below
            # (_width_scenarios: the widths registered for sizes 9 / 10000 / 123 under every behaviour)
            known_wrong = ('MAXSIZE', 'MAXSIZESTR', 'LEN-OF-MAX-SIZE', 'MIN', 'LEN', 'SIZE', 'SIZESTR')
            g_ = got.get('apt-ftparchive')
            if g_ == ('CONST', 16):
                rep.ok('C12.R4', f.site, 'apt-ftparchive width', '16')
            elif (isinstance(g_, tuple) and g_[:1] == ('CONST',)) or g_ in known_wrong or g_ == 'MAXLEN':
                rep.fail('C12.R4', f.site, 'apt-ftparchive width', 'width for apt-ftparchive is %r, documented 16' % (g_,), where=f.where)
            g_ = got.get('dak')
            if g_ == 'MAXLEN':
                rep.ok('C12.R4', f.site, 'dak width', 'max(len(str(item[size])))')
            elif (isinstance(g_, tuple) and g_[:1] == ('CONST',)) or g_ in known_wrong:
                rep.fail('C12.R4', f.site, 'dak width', 'width for dak is computed as %r instead of the longest size present' % (g_,), where=f.where)
        # the width of an empty record list, and of a field that holds a single record
        fin, _i = normalize.inline_helpers(f)
        bare_max = [c for c in ast.walk(fin) if isinstance(c, ast.Call) and norm(c.func) in ('max', 'min') and len(c.args) == 1 and not any(k.arg == 'default' for k in c.keywords)]
        guarded_max = [c for c in bare_max if any(isinstance(a_, ast.Try) and any(h_.type is None or 'ValueError' in norm(h_.type) or 'Exception' in norm(h_.type) for h_ in a_.handlers)
                                                  for a_ in _anc(c))
                       or any(isinstance(a_, ast.If) and any(isinstance(n_, (ast.Name, ast.Subscript)) and norm(n_) in norm(c.args[0]) for n_ in ast.walk(a_.test)) and c in list(ast.walk(ast.Module(body=a_.body, type_ignores=[])))
                              for a_ in _anc(c))]
        if [c for c in bare_max if c not in guarded_max]:
            c = [c for c in bare_max if c not in guarded_max][0]
            rep.fail('C12.R4', f.site, 'width of an empty record list', '`%s` raises ValueError when the field holds no record: a paragraph whose structured field is the empty list '
                     'cannot be dumped' % norm(c)[:60], where='%s:%d' % (f.module.relpath, c.lineno))
        else:
            rep.ok('C12.R4', f.site, 'width of an empty record list', 'no maximum of a possibly empty sequence without default')
        _width_scenarios(rep, src, m, cname, modes)
    # the widths are recomputed from the current content on every dump (no memo that later edits would leave stale)
    common.check_no_hidden_state(rep, src, 'C12.R4', [MOD + ':PdiffIndex._fixed_field_lengths', MOD + ':PdiffIndex._get_size_field_length',
                                                     MOD + ':Release._fixed_field_lengths', MOD + ':Release._get_size_field_length',
                                                     MOD + ':_multivalued.get_as_string'],
                                 'the column width / text of a structured field is then taken from an earlier dump although records were added or changed since')
    # right alignment in the writer
    fw = src.func(MOD + ':_multivalued.get_as_string')
    # the writer and the private helpers of its class that it calls
    bodies = [fw.node]
    for c_ in ast.walk(fw.node):
        if isinstance(c_, ast.Call) and isinstance(c_.func, ast.Attribute) and isinstance(c_.func.value, ast.Name) and c_.func.value.id in ('self', 'cls', '_multivalued') \
                and c_.func.attr.startswith('_'):
            h_ = m.method('_multivalued', c_.func.attr)
            if h_ is not None and h_.node not in bodies:
                bodies.append(h_.node)
    wnodes = [n_ for b_ in bodies for n_ in ast.walk(b_)]
    pads = [s for s in wnodes if isinstance(s, ast.Assign) and isinstance(s.value, ast.BinOp) and isinstance(s.value.op, ast.Add)
            and isinstance(s.value.left, ast.BinOp) and isinstance(s.value.left.op, ast.Mult)]
    okp = False
    for s in pads:
        mult = s.value.left
        cnt, sp = (mult.left, mult.right) if isinstance(mult.right, ast.Constant) else (mult.right, mult.left)
        if isinstance(sp, ast.Constant) and sp.value == ' ' and isinstance(cnt, ast.BinOp) and isinstance(cnt.op, ast.Sub) \
                and norm(cnt.right) == 'len(%s)' % norm(s.value.right):
            okp = True
    for c in wnodes:
        # raw.rjust(width)
        if isinstance(c, ast.Call) and isinstance(c.func, ast.Attribute) and c.func.attr == 'rjust' and len(c.args) == 1:
            okp = True
        if isinstance(c, ast.Call) and isinstance(c.func, ast.Attribute) and c.func.attr in ('ljust', 'center'):
            okp = False
            break
    # (how the padding is written: a second opinion behind the interpreted writer, whose records with a registered width must come out
    # right-aligned -- C12.R2)
    if okp:
        (rep_align or rep).ok('C12.R4', fw.site, 'right alignment', 'padded on the left to the registered width')
    else:
        (rep_align or rep).fail('C12.R4', fw.site, 'right alignment', 'the size column is not padded on the left to the registered width', where=fw.where)


def check(src, rep, tier):
    rep.explanation = ('C12: (R1) in every class derived from _multivalued, each self[key] reached from a loop over _multivalued_fields '
                       '(directly or through self.method(key)) must be dominated by a membership test or sit in try/except KeyError, and the '
                       'loop must not break/return; (R2) the writer template of get_as_string is extracted (single record and record list '
                       'forms, padded and unpadded tokens, newline guard as language refinement, final rstrip) and substituted into the dump '
                       'template; all lines are pushed through the Deb822 reader cascade (record lines must be verbatim continuation lines, '
                       'no separators/PGP/comments), each written token must be a maximal whitespace-free run (split() inverse), reader and '
                       'writer use the same table entry; (R3) documented tables; (R4) width kinds (max of lengths / 16) and right alignment.')
    rep.not_decided = ['value equality of parsed records beyond token boundaries and order', 'gpg wrapping of Dsc/Changes']
    rep.need('C12.R1', 6)
    rep.need('C12.R2', 20)
    rep.need('C12.R3', 20)
    rep.need('C12.R4', 6)
    rep.need('C12.R5', 3)
    rep.guard('C12.R1', r1_optional_fields, src)
    n_v, n_e = len(rep.violations), len(rep.errors)
    rep.guard('C12.R2', r2b_same_table, src)
    scen_hold = len(rep.violations) == n_v and len(rep.errors) == n_e
    n_r2 = sum(1 for i_ in rep.instances if i_.get('rule') == 'C12.R2')
    # (the template-level reading: exact for every token the writer can lay out, when the writer AND the paragraph reader are in its
    # vocabulary; the model of the paragraph reader is C02's business)
    softm = common.SoftErrors(rep, lambda: scen_hold, 'the interpreted writer and reader scenarios (C12.R2), which hold')
    M = softm.guard('C12.R2', lambda r_: Model(src, r_))
    if M is not None:
        softm.guard('C12.R2', r2_roundtrip, src, M)
    if rep.min_instances.get('C12.R2') == 0:
        rep.min_instances['C12.R2'] = n_r2
    rep.guard('C12.R3', r3_tables, src)
    rep.guard('C12.R4', r4_size_column, src, common.SoftAll(rep, lambda: scen_hold, 'the interpreted writer with a registered width (C12.R2), whose size column is right-aligned in every record'))
    n_r5 = sum(1 for i_ in rep.instances if i_.get('rule') == 'C12.R5')
    if M is not None:
        common.SoftErrors(rep, lambda: scen_hold, 'the interpreted writer and reader scenarios (C12.R2), which hold').guard('C12.R5', r5_container_kind, src, M)
    elif scen_hold:
        rep.min_instances['C12.R5'] = 0
    if rep.min_instances.get('C12.R5') == 0:
        rep.min_instances['C12.R5'] = n_r5

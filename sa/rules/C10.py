"""C10 -- structural edits of a preserved document only move or insert whole elements."""
import ast

from .. import heap as H
from ..core import AnalysisError, norm, walk_no_nested


def _OS_FIELDS(src):
    from .common import ordered_set_fields
    return ordered_set_fields(src)


META = {
    'design_ref': 'DESIGN.md §5 C10',
    'technique': 'shape-case abstract interpretation (heap of symbolic field/paragraph objects) of the re-ordering, replace/delete and '
                 'paragraph insert/append methods of the format-preserving document classes, compared case by case with a reference list '
                 'model; effect-ordering rule (the final-newline helper runs before the first mutation and on the right element) observed '
                 'on the same interpreter; direction table for bulk relocation as a cross-check; path rule (locals substituted away) for the occurrence looked up by set_field_from_raw_string; append/insert interpreted on documents ending with an empty paragraph, an unterminated comment or an unterminated blank line; obligations on set_kvpair_element (the element that is set is terminated; replace-all by a later occurrence keeps it attached) and a frame obligation on delete (no other field changes); ownership scenario: an element placed in another paragraph keeps its parent link when the field is removed or replaced here; the final-newline helper interpreted on paragraphs whose last field is a later occurrence of a repeated name; copies of paragraphs are free paragraphs; copy.deepcopy of a document made as the copy module makes it (the __deepcopy__ of the class interpreted when it has one, weak links copied as they are) followed by insert / append of a paragraph of either document into either document; a class that keeps a linked list next to a table of its nodes defines its own copy protocol; the private attributes of the key set are read off its constructor by role; whole documents with unique and with repeated field names parsed by the interpreted parser, re-ordered and cut through the interpreted order_* / delete operations (by name and by (name, i)), the text compared after every step with a list model of the field chunks, and (name, i) read against the i-th occurrence of the model',
    'level_text': 'Static decision per shape case (paragraphs with unique and with duplicated names; single, indexed and bulk relocation '
                  'relative to start, end and reference fields at every position; documents with 0..2 paragraphs, trailing separators and '
                  'free comments): the resulting element order equals the reference model, the per-name occurrence lists are in document '
                  'order, removed occurrences are unlinked, paragraphs stay separated by a newline token, and the field/paragraph that stops '
                  'being last gets its final newline before anything is placed after it.',
    'level_note': 'trusted: the heap interpreter (constructs outside its vocabulary are ANALYSIS-ERROR); token text itself is not '
                  'interpreted (byte preservation of field text follows from elements being moved as whole objects)',
}

PM = '_deb822_repro.parsing'
DUP = 'Deb822DuplicateFieldsParagraphElement'
NOD = 'Deb822NoDuplicateFieldsParagraphElement'


def mk_heap(src, log):
    def strI(it, args, kw):
        # _strI(text): the case-insensitive string of that text (a key object is one already)
        return H.Key(args[0].lower(), args[0]) if isinstance(args[0], str) else args[0]

    def newline_hook(it, args, kw):
        log.append(('newline', args[0].name if isinstance(args[0], H.Ref) else None, it.h.version))
        return None
    def value_newline_hook(it, args, kw):
        # value_element.add_final_newline_if_missing(): the line of this field is terminated
        log.append(('newline-value', args[0].name if isinstance(args[0], H.Ref) else None, it.h.version))
        return None
    def clear_if_parent(it, a, k):
        # Deb822Element.clear_parent_if_parent(parent): the link is dropped only when it points to that parent
        o_ = it.h.objs[a[0].name]
        if o_.get('parent_element') == a[1]:
            it.h.touch(a[0].name)
            o_['parent_element'] = None
        return None
    h = H.Heap(src.mod(PM), field_alias={'_previous_node': 'previous_node', '_parent_element': 'parent_element'}, extra_modules=[src.mod('_util'), src.mod('_deb822_repro.tokens')],
               opaque_ctors={'Deb822WhitespaceToken'}, hooks={'_strI': strI, '._add_final_newline_if_missing': newline_hook,
                                                              '.add_final_newline_if_missing': value_newline_hook,
                                                              '.remove_newline': lambda it, a, k: (it.h.touch(a[0].name), it.h.objs[a[0].name].__setitem__('newline_token', None), None)[2],
                                                              '.clear_parent_if_parent': clear_if_parent})
    return h


def mk_kv(heap, name, tag):
    tok = heap.alloc('Deb822FieldNameToken', {'text': name}, name='@tok_%s' % tag)
    # the value: one line that ends with its newline token (the token is dropped by a scenario for "the unterminated last field")
    nl = heap.alloc('Deb822NewlineAfterValueToken', {'text': '\n', 'parent_element': None}, name='@nl_%s' % tag)
    vl = heap.alloc('VL', {'newline_token': nl}, name='@vl_%s' % tag)
    ve = heap.alloc('VE', {'value_lines': heap.new_list([vl], '@vls_%s' % tag)}, name='@ve_%s' % tag)
    return heap.alloc('KV', {'field_name': name, 'field_token': tok, 'parent_element': None, 'value_element': ve}, name='@kv_%s' % tag)


def build_dup(heap, names):
    """paragraph with duplicate-capable structures; names: list of Key; returns (para, kv refs, nodes)"""
    kvs = []
    counts = {}
    for k in names:
        i = counts.get(k.cls, 0)
        counts[k.cls] = i + 1
        kvs.append(mk_kv(heap, k, '%s%d' % (k.cls, i)))
    lst, nodes = H.build_list(heap, kvs)
    d = heap.new_dict('@elements')
    for k, n in zip(names, nodes):
        if heap.dict_has(d, k):
            heap.items(heap.dict_get(d, k)).append(n)
        else:
            heap.objs[d.name]['entries'].append((k, heap.new_list([n])))
    para = heap.alloc(DUP, {'_kvpair_order': lst, '_kvpair_elements': d, 'parent_element': None}, name='@para')
    for kv in kvs:
        heap.objs[kv.name]['parent_element'] = para
    return para, kvs, nodes


def read_dup(heap, para):
    lst = heap.objs[para.name]['_kvpair_order']
    seq, problems = H.read_list(heap, lst)
    order = [heap.objs[n.name]['value'].name[len('@kv_'):] for n in seq]
    for n in seq:
        kv = heap.objs[n.name]['value']
        par = heap.objs[kv.name].get('parent_element')
        if par != para:
            problems.append('the field %s is part of the paragraph but its parent link is %s: iter_tokens() (every dump) asserts that each part has a parent'
                            % (kv.name[len('@kv_'):], par.name if isinstance(par, H.Ref) else par))
    d = heap.objs[para.name]['_kvpair_elements']
    index = {}
    for k, lref in heap.objs[d.name]['entries']:
        index[k.cls] = [heap.objs[n.name]['value'].name[len('@kv_'):] for n in heap.items(lref)]
        for n in heap.items(lref):
            if n not in seq:
                problems.append('the occurrence list of %s refers to a node that is no longer in the paragraph' % k.spelling)
    return order, index, problems


def model_index(order):
    idx = {}
    for o in order:
        idx.setdefault(o[0], []).append(o)
    return idx


def run_method(src, heap, obj, cname, mname, args):
    fn = heap.module.method(cname, mname)
    if fn is None:
        raise AnalysisError('%s.%s not found' % (cname, mname))
    it = H.Interp(heap)
    return fn, it, H.Closure(fn.node, {}, obj, fn.cls), args


def key_arg(k, idx=None):
    return k if idx is None else (k, idx)


def r1_r2_dup_reorder(rep, src):
    A, B, C = H.Key('a', 'A'), H.Key('b', 'B'), H.Key('c', 'C')
    layouts = {'A B A C A': [A, B, A, C, A], 'B A C': [B, A, C], 'A A B': [A, A, B], 'B A A': [B, A, A]}
    n = 0
    for lname, names in layouts.items():
        base = []
        cnt = {}
        for k in names:
            base.append('%s%d' % (k.cls, cnt.get(k.cls, 0)))
            cnt[k.cls] = cnt.get(k.cls, 0) + 1
        keys = []
        for k in (A, B, C):
            if k.cls in cnt:
                keys.append((k, None))
                if cnt[k.cls] > 1:
                    keys += [(k, i) for i in range(cnt[k.cls])]

        def resolve(k, i):
            occ = [o for o in base if o[0] == k.cls]
            return occ if i is None else [occ[i]]
        for op in ('order_first', 'order_last'):
            for k, i in keys:
                if i is None and cnt[k.cls] > 1 or i is not None or cnt[k.cls] == 1:
                    pass
                moving = resolve(k, i)
                rest = [o for o in base if o not in moving]
                want = moving + rest if op == 'order_first' else rest + moving
                n += 1
                check_case(rep, src, lname, names, op, [key_arg(k, i)], want)
        for op in ('order_before', 'order_after'):
            for k, i in keys:
                for rk, ri in keys:
                    moving = resolve(k, i)
                    refs = resolve(rk, ri)
                    ref = refs[0] if op == 'order_before' else refs[-1]
                    if ref in moving:
                        want = 'ValueError'
                    else:
                        rest = [o for o in base if o not in moving]
                        p = rest.index(ref)
                        want = rest[:p] + moving + rest[p:] if op == 'order_before' else rest[:p + 1] + moving + rest[p + 1:]
                    n += 1
                    check_case(rep, src, lname, names, op, [key_arg(k, i), key_arg(rk, ri)], want)
    # a key that denotes no occurrence -- an index beyond the occurrences of the field, also of a field that occurs once, and a name the
    # paragraph does not have -- is refused with KeyError and moves nothing: (name, i) always denotes the i-th occurrence
    Z = H.Key('z', 'Z')
    for lname, names in (('A B A C A', [A, B, A, C, A]), ('B A C', [B, A, C])):
        cnt = {}
        for k in names:
            cnt[k.cls] = cnt.get(k.cls, 0) + 1
        for k, i in [(k_, cnt[k_.cls]) for k_ in (A, B)] + [(B, 5), (Z, None), (Z, 0)]:
            for op, extra in (('order_first', []), ('order_last', []), ('order_before', [key_arg(C)]), ('order_after', [key_arg(C)])):
                n += 1
                check_case(rep, src, lname, names, op, [key_arg(k, i)] + extra, 'KeyError')
            for op in ('order_before', 'order_after'):
                n += 1
                check_case(rep, src, lname, names, op, [key_arg(C), key_arg(k, i)], 'KeyError')
    rep.extra['dup_reorder_cases'] = n


def check_case(rep, src, lname, names, op, args, want):
    log = []
    heap = mk_heap(src, log)
    para, kvs, nodes = build_dup(heap, names)
    fn, it, clo, a = run_method(src, heap, para, DUP, op, args)
    rep.saw_func(fn)
    what = '%s(%s) on [%s]' % (op, ', '.join('%s' % (x.spelling if isinstance(x, H.Key) else '(%s, %d)' % (x[0].spelling, x[1])) for x in args), lname)
    heap.mark()
    before = heap.snapshot()
    v0 = heap.version
    try:
        it.call(clo, a)
        exc = None
    except H.Raised as x:
        exc = x
    if want == 'KeyError':
        if exc is not None and exc.exc == 'KeyError' and heap.snapshot() == before:
            rep.ok('C10.R1', fn.site, what, 'KeyError, paragraph unchanged', nontrivial=False)
        else:
            order_, _i, _p = read_dup(heap, para)
            rep.fail('C10.R1', fn.site, what, 'a key that denotes no occurrence of the field %s%s: (name, i) must denote the i-th occurrence or nothing' % (
                'raises %s' % exc.exc if exc else 'is accepted (fields now %s)' % ' '.join(order_), '' if heap.snapshot() == before else ' after the paragraph was modified'), where=fn.where)
        return
    if want == 'ValueError':
        if exc is not None and exc.exc == 'ValueError' and heap.snapshot() == before:
            rep.ok('C10.R1', fn.site, what, 'ValueError, paragraph unchanged')
        else:
            rep.fail('C10.R1', fn.site, what, 're-ordering a field relative to itself %s' % ('raises %s' % exc.exc if exc else 'is accepted') +
                     ('' if heap.snapshot() == before else ' after the paragraph was modified'), where=fn.where)
        return
    if exc is not None:
        rep.fail('C10.R1', fn.site, what, 'raises %s (line %d)' % (exc.exc, exc.lineno), where=fn.where)
        return
    order, index, problems = read_dup(heap, para)
    if order != want:
        problems.append('field order is %s, the reference model says %s (occurrences of a field moved together must keep their relative order)' % (order, want))
    mi = model_index(want)
    if index != mi:
        problems.append('(name, i) no longer denotes the i-th occurrence in document order: occurrence lists %s, document order %s' % (index, mi))
    if problems:
        rep.fail('C10.R1' if order != want else 'C10.R2', fn.site, what, '; '.join(problems), where=fn.where)
    else:
        rep.ok('C10.R1', fn.site, what, '→ %s' % ' '.join(order))
    # newline obligation: helper called on this paragraph before the first mutation
    nl = [e for e in log if e[0] == 'newline' and e[1] == para.name]
    moved = order != [('%s' % o) for o in _base_of(names)]
    if nl and nl[0][2] == v0:
        rep.ok('C10.R3', fn.site, what + ': final newline supplied first', 'helper runs before the first mutation', nontrivial=False)
    elif moved:
        rep.fail('C10.R3', fn.site, what + ': final newline supplied first', 'fields are moved %s ensuring that the current last field ends with a newline: '
                 'next to an unterminated last field two fields are glued into one line' % ('before' if nl else 'without'), where=fn.where)


def _base_of(names):
    out, cnt = [], {}
    for k in names:
        out.append('%s%d' % (k.cls, cnt.get(k.cls, 0)))
        cnt[k.cls] = cnt.get(k.cls, 0) + 1
    return out


def r5_dup_set_remove(rep, src):
    A, B, C, Z = H.Key('a', 'A'), H.Key('b', 'B'), H.Key('c', 'C'), H.Key('z', 'Z')
    names = [A, B, A, C, A]
    base = _base_of(names)
    # remove
    for k, i, want in ((A, None, ['b0', 'c0']), (A, 0, ['b0', 'a1', 'c0', 'a2']), (A, 1, ['a0', 'b0', 'c0', 'a2']), (A, 2, ['a0', 'b0', 'a1', 'c0']),
                       (B, None, ['a0', 'a1', 'c0', 'a2']), (Z, None, 'KeyError')):
        log = []
        heap = mk_heap(src, log)
        para, kvs, nodes = build_dup(heap, names)
        fn, it, clo, a = run_method(src, heap, para, DUP, 'remove_kvpair_element', [key_arg(k, i)])
        rep.saw_func(fn)
        what = 'remove %s on [A B A C A]' % (k.spelling if i is None else '(%s, %d)' % (k.spelling, i))
        heap.mark()
        before = heap.snapshot()
        try:
            it.call(clo, a)
            exc = None
        except H.Raised as x:
            exc = x
        if want == 'KeyError':
            if exc is not None and exc.exc == 'KeyError' and heap.snapshot() == before:
                rep.ok('C10.R5', fn.site, what, 'KeyError, unchanged')
            else:
                rep.fail('C10.R5', fn.site, what, 'deleting a missing field %s' % ('raises %s' % exc.exc if exc else 'succeeds'), where=fn.where)
            continue
        if exc is not None:
            rep.fail('C10.R5', fn.site, what, 'raises %s (line %d)' % (exc.exc, exc.lineno), where=fn.where)
            continue
        order, index, problems = read_dup(heap, para)
        if order != want:
            problems.append('remaining fields are %s, reference model says %s' % (order, want))
        if index != model_index(want):
            problems.append('occurrence lists %s do not match the document %s' % (index, model_index(want)))
        gone = [o for o in base if o not in want]
        for o in gone:
            if heap.objs['@kv_' + o]['parent_element'] is not None:
                problems.append('removed field %s still claims the paragraph as parent' % o)
        if problems:
            rep.fail('C10.R5', fn.site, what, '; '.join(problems), where=fn.where)
        else:
            rep.ok('C10.R5', fn.site, what, '→ %s' % ' '.join(order))
    # set
    for k, i, want, newpos in ((A, None, ['NEW', 'b0', 'c0'], 0), (A, 1, ['a0', 'b0', 'NEW', 'c0', 'a2'], 2), (B, None, ['a0', 'NEW', 'a1', 'c0', 'a2'], 1),
                               (Z, None, ['a0', 'b0', 'a1', 'c0', 'a2', 'NEW'], 5), (Z, 0, ['a0', 'b0', 'a1', 'c0', 'a2', 'NEW'], 5), (Z, 1, 'KeyError', None)):
        log = []
        heap = mk_heap(src, log)
        para, kvs, nodes = build_dup(heap, names)
        new = heap.alloc('KV', {'field_name': k, 'field_token': heap.alloc('Deb822FieldNameToken', {'text': k}), 'parent_element': None, 'value_element': heap.alloc('VE', {}, name='@ve_NEW')}, name='@kv_NEW')
        fn, it, clo, a = run_method(src, heap, para, DUP, 'set_kvpair_element', [key_arg(k, i), new])
        rep.saw_func(fn)
        what = 'set %s on [A B A C A]' % (k.spelling if i is None else '(%s, %d)' % (k.spelling, i))
        heap.mark()
        before = heap.snapshot()
        v0 = heap.version
        try:
            it.call(clo, a)
            exc = None
        except H.Raised as x:
            exc = x
        if want == 'KeyError':
            if exc is not None and exc.exc == 'KeyError' and heap.snapshot() == before:
                rep.ok('C10.R5', fn.site, what, 'KeyError, unchanged')
            else:
                rep.fail('C10.R5', fn.site, what, 'replacing a non-existing occurrence %s' % ('raises %s' % exc.exc if exc else 'succeeds'), where=fn.where)
            continue
        if exc is not None:
            rep.fail('C10.R5', fn.site, what, 'raises %s (line %d)' % (exc.exc, exc.lineno), where=fn.where)
            continue
        order, index, problems = read_dup(heap, para)
        if order != want:
            problems.append('fields are %s, reference model says %s' % (order, want))
        wi = model_index([o if o != 'NEW' else k.cls + 'NEW' for o in want])
        gi = {kk: [o if o != 'NEW' else k.cls + 'NEW' for o in v] for kk, v in index.items()}
        if gi != wi:
            problems.append('occurrence lists %s do not match the document %s' % (gi, wi))
        nl = [e for e in log if e[0] == 'newline' and e[1] == para.name]
        is_new = k.cls == 'z'
        # the element that is set may lack its own final newline (the last field of a document without final newline): wherever it is
        # placed, something may follow it (a field, the separator of the next paragraph), so its line has to be terminated
        if not any(e[0] == 'newline-value' and e[1] == '@ve_NEW' for e in log):
            problems.append('the field element that is set is not given its final newline: an element without one (the last field of an unterminated document) placed before other '
                            'fields or in an earlier paragraph swallows what follows it')
        if is_new and not (nl and nl[0][2] == v0):
            problems.append('a new field is placed after the last field without first supplying its final newline')
        if not is_new and nl:
            problems.append('replacing an existing field modifies the last field (final newline helper called)')
        if problems:
            rep.fail('C10.R5', fn.site, what, '; '.join(problems), where=fn.where)
        else:
            rep.ok('C10.R5', fn.site, what, '→ %s' % ' '.join(order))


def r5b_replace_all_by_occurrence(rep, src):
    """replacing all occurrences of a duplicated field by one of its own later occurrences (keeping that occurrence with its
    formatting): the element is the only occurrence afterwards, in the place of the first, and it is attached to the paragraph"""
    A, B, C = H.Key('a', 'A'), H.Key('b', 'B'), H.Key('c', 'C')
    names = [A, B, A, C, A]
    for occ, label in ((1, 'second'), (2, 'third')):
        log = []
        heap = mk_heap(src, log)
        para, kvs, nodes = build_dup(heap, names)
        value = H.Ref('@kv_a%d' % occ)
        fn, it, clo, a = run_method(src, heap, para, DUP, 'set_kvpair_element', [key_arg(A, None), value])
        rep.saw_func(fn)
        what = 'set A (all occurrences) on [A B A C A] to its own %s occurrence' % label
        try:
            it.call(clo, a)
        except H.Raised as x:
            rep.fail('C10.R5', fn.site, what, 'raises %s (line %d)' % (x.exc, x.lineno), where=fn.where)
            continue
        order, index, problems = read_dup(heap, para)
        want = ['a%d' % occ, 'b0', 'c0']
        if order != want:
            problems.append('fields are %s, reference model says %s' % (order, want))
        if heap.objs[value.name]['parent_element'] != para:
            problems.append('the surviving occurrence has the parent %r: it was attached and then detached again while the other occurrences were discarded, so the next '
                            'dump() fails the parent assertion of iter_tokens()' % (heap.objs[value.name]['parent_element'],))
        if problems:
            rep.fail('C10.R5', fn.site, what, '; '.join(problems), where=fn.where)
        else:
            rep.ok('C10.R5', fn.site, what, '→ %s' % ' '.join(order))


def r5c_replace_one_by_occurrence(rep, src):
    """replacing ONE occurrence of a duplicated field by the element of another occurrence of it: an element stands at one place of
    the paragraph, so it moves -- afterwards it is at the addressed position only, attached to the paragraph, and the other fields
    are as before (left at both places, a later removal of either detaches the element that the other place still shows, and the
    document can no longer be written)"""
    A, B, C = H.Key('a', 'A'), H.Key('b', 'B'), H.Key('c', 'C')
    names = [A, B, A, C, A]
    for target, occ, want in ((0, 1, ['a1', 'b0', 'c0', 'a2']), (0, 2, ['a2', 'b0', 'a1', 'c0']), (2, 0, ['b0', 'a1', 'c0', 'a0']), (1, 1, ['a0', 'b0', 'a1', 'c0', 'a2'])):
        log = []
        heap = mk_heap(src, log)
        para, kvs, nodes = build_dup(heap, names)
        value = H.Ref('@kv_a%d' % occ)
        fn, it, clo, a = run_method(src, heap, para, DUP, 'set_kvpair_element', [key_arg(A, target), value])
        rep.saw_func(fn)
        what = 'set (A, %d) on [A B A C A] to the element of its occurrence %d' % (target, occ)
        try:
            it.call(clo, a)
        except H.Raised as x:
            rep.fail('C10.R5', fn.site, what, 'raises %s (line %d)' % (x.exc, x.lineno), where=fn.where)
            continue
        order, index, problems = read_dup(heap, para)
        if order != want:
            problems.append('fields are %s, reference model says %s (the element moves to the addressed place)%s' % (
                order, want, ': the same element now stands at two places' if len(order) != len(set(order)) else ''))
        if heap.objs[value.name]['parent_element'] != para:
            problems.append('the element has the parent %r' % (heap.objs[value.name]['parent_element'],))
        if problems:
            rep.fail('C10.R5', fn.site, what, '; '.join(problems), where=fn.where)
        else:
            rep.ok('C10.R5', fn.site, what, '→ %s' % ' '.join(order))


def r5d_element_of_another_paragraph(rep, src):
    """a field element may be placed in another paragraph with set_kvpair_element (the dictionary interface itself hands over elements
    of a scratch paragraph): its parent link then names the paragraph it was put in last.  Removing or replacing the field in the
    paragraph that still lists the element must not clear that link -- an element without parent makes iter_tokens() (every dump
    of the document) raise AssertionError.  Scenario: one element of the paragraph has meanwhile been placed in another paragraph;
    the field is then removed / replaced here: the element's link still names the other paragraph"""
    A, B, C = H.Key('a', 'A'), H.Key('b', 'B'), H.Key('c', 'C')
    for cname in (NOD, DUP):
        for op, idx in (('remove_kvpair_element', None), ('remove_kvpair_element', 0), ('set_kvpair_element', None), ('set_kvpair_element', 0), ('set_kvpair_element', 1)):
            if cname == NOD and idx is not None:
                continue
            for moved in (['a0'] if cname == NOD else ['a0', 'a1']):
                log = []
                heap = mk_heap(src, log)
                if cname == DUP:
                    para, kvs, nodes = build_dup(heap, [A, B, A, C])
                else:
                    keys = [A, B, C]
                    lst, nodes = H.build_list(heap, keys)
                    table = heap.new_dict('@table')
                    for k_, n_ in zip(keys, nodes):
                        heap.objs[table.name]['entries'].append((k_, n_))
                    oset = heap.alloc('OrderedSet', {_OS_FIELDS(src)[0]: table, _OS_FIELDS(src)[1]: lst}, name='@set')
                    d = heap.new_dict('@elements')
                    for k_ in keys:
                        heap.objs[d.name]['entries'].append((k_, mk_kv(heap, k_, k_.cls + '0')))
                    para = heap.alloc(NOD, {'_kvpair_order': oset, '_kvpair_elements': d, 'parent_element': None}, name='@para')
                    for k_, v_ in heap.objs[d.name]['entries']:
                        heap.objs[v_.name]['parent_element'] = para
                other = heap.alloc('ParagraphOfAnotherPlace', {}, name='@other')
                heap.objs['@kv_' + moved]['parent_element'] = other       # q.set_kvpair_element('A', p.get_kvpair_element('A')) has happened
                args = [key_arg(A, idx)]
                if op == 'set_kvpair_element':
                    new = mk_kv(heap, A, 'NEW')
                    args.append(new)
                fn, it, clo, a = run_method(src, heap, para, cname, op, args)
                rep.saw_func(fn)
                what = '%s(%s) when the element of occurrence %s has been placed in another paragraph' % (op, 'A' if idx is None else '(A, %d)' % idx, moved[1:])
                try:
                    it.call(clo, a)
                except H.Raised as x:
                    rep.fail('C10.R4', fn.site, what, 'raises %s (line %d)' % (x.exc, x.lineno), where=fn.where)
                    continue
                now = heap.objs['@kv_' + moved]['parent_element']
                if now == other:
                    rep.ok('C10.R4', fn.site, what, 'the link to the other paragraph is kept')
                else:
                    rep.fail('C10.R4', fn.site, what, 'the parent link of the element -- which names the OTHER paragraph, where the field still stands -- is set to %s: every later dump of the '
                             'document raises AssertionError (q.set_kvpair_element("A", p.get_kvpair_element("A")); del p["A"]; file.dump())' % (now.name if isinstance(now, H.Ref) else now,),
                             where=fn.where)


def r5e_element_in_two_paragraphs(rep, src):
    """set_kvpair_element neither copies nor moves: after q.set_kvpair_element('A', p.get_kvpair_element('A')) ONE element object
    stands in both paragraphs, with one parent link.  The history "put it into the other paragraph, set it here again, replace it
    here": the element still stands in the other paragraph, so its link must not be None afterwards (None makes every dump of the
    document raise AssertionError).  With a single link that cannot hold for both orders of such histories -- an ownership model for
    field elements (refuse, move or copy) would be needed"""
    A, B, C = H.Key('a', 'A'), H.Key('b', 'B'), H.Key('c', 'C')
    for cname in (NOD, DUP):
        log = []
        heap = mk_heap(src, log)
        if cname == DUP:
            para, kvs, nodes = build_dup(heap, [A, B, C])
        else:
            keys = [A, B, C]
            lst, nodes = H.build_list(heap, keys)
            table = heap.new_dict('@table')
            for k_, n_ in zip(keys, nodes):
                heap.objs[table.name]['entries'].append((k_, n_))
            oset = heap.alloc('OrderedSet', {_OS_FIELDS(src)[0]: table, _OS_FIELDS(src)[1]: lst}, name='@set')
            d = heap.new_dict('@elements')
            for k_ in keys:
                heap.objs[d.name]['entries'].append((k_, mk_kv(heap, k_, k_.cls + '0')))
            para = heap.alloc(NOD, {'_kvpair_order': oset, '_kvpair_elements': d, 'parent_element': None}, name='@para')
            for k_, v_ in heap.objs[d.name]['entries']:
                heap.objs[v_.name]['parent_element'] = para
        other = heap.alloc('ParagraphOfAnotherPlace', {}, name='@other')
        shared = H.Ref('@kv_a0')
        heap.objs[shared.name]['parent_element'] = other          # q.set_kvpair_element('A', p.get_kvpair_element('A')) has happened
        fn = heap.module.method(cname, 'set_kvpair_element')
        rep.saw_func(fn)
        it = H.Interp(heap)
        what = 'an element that also stands in another paragraph is set here again and then replaced here'
        try:
            it.call(H.Closure(fn.node, {}, para, fn.cls), [A, shared])
            it.call(H.Closure(fn.node, {}, para, fn.cls), [A, mk_kv(heap, A, 'NEW')])
        except H.Raised as x:
            rep.fail('C10.R4', fn.site, what, 'raises %s (line %d)' % (x.exc, x.lineno), where=fn.where)
            continue
        now = heap.objs[shared.name]['parent_element']
        if now is None:
            rep.fail('C10.R4', fn.site, what, 'the element -- still listed by the other paragraph -- ends with no parent: kv = p.get_kvpair_element("A"); q.set_kvpair_element("A", kv); '
                     'p.set_kvpair_element("A", kv); p["A"] = "x"; file.dump() raises AssertionError (one element object in two paragraphs, one parent link)', where=fn.where)
        else:
            rep.ok('C10.R4', fn.site, what, 'the element keeps a parent (%s)' % (now.name if isinstance(now, H.Ref) else now))


def r_nodup(rep, src):
    """the unique-field paragraph: order through OrderedSet, elements in a dict"""
    A, B, C, Z = H.Key('a', 'A'), H.Key('b', 'B'), H.Key('c', 'C'), H.Key('z', 'Z')
    A2 = H.Key('a', 'a')

    def build(heap):
        keys = [A, B, C]
        lst, nodes = H.build_list(heap, keys)
        table = heap.new_dict('@table')
        for k, n in zip(keys, nodes):
            heap.objs[table.name]['entries'].append((k, n))
        oset = heap.alloc('OrderedSet', {_OS_FIELDS(src)[0]: table, _OS_FIELDS(src)[1]: lst}, name='@set')
        d = heap.new_dict('@elements')
        kvs = {}
        for k in keys:
            kv = mk_kv(heap, k, k.cls + '0')
            kvs[k.cls] = kv
            heap.objs[d.name]['entries'].append((k, kv))
        para = heap.alloc(NOD, {'_kvpair_order': oset, '_kvpair_elements': d, 'parent_element': None}, name='@para')
        return para, lst, d

    def state(heap, lst, d):
        seq, problems = H.read_list(heap, lst)
        order = [heap.objs[n.name]['value'].cls for n in seq]
        elems = {k.cls: v.name[len('@kv_'):] for k, v in heap.objs[d.name]['entries']}
        if sorted(elems) != sorted(order):
            problems.append('order %s and element table %s disagree' % (order, sorted(elems)))
        return order, elems, problems
    cases = [('order_first', [C], ['c', 'a', 'b'], True), ('order_last', [A2], ['b', 'c', 'a'], True), ('order_before', [C, A], ['c', 'a', 'b'], True),
             ('order_after', [A, C], ['b', 'c', 'a'], True), ('order_before', [A, (A2, 0)], 'ValueError', False),
             ('remove_kvpair_element', [B], ['a', 'c'], False), ('remove_kvpair_element', [Z], 'KeyError', False),
             ('remove_kvpair_element', [C, 'unterminated'], ['a', 'b'], False)]
    for op, args, want, needs_nl in cases:
        log = []
        heap = mk_heap(src, log)
        para, lst, d = build(heap)
        open_last = args[-1] == 'unterminated'
        if open_last:
            # the removed field is the last line of a document without final newline
            args = args[:-1]
            heap.objs['@vl_c0']['newline_token'] = None
        others = lambda: {nm: dict(o_) for nm, o_ in heap.objs.items() if nm.startswith(('@vl_', '@ve_', '@nl_')) and not nm.endswith('_%s0' % (args[0].cls if args and isinstance(args[0], H.Key) else '?'))}
        others_before = others() if op == 'remove_kvpair_element' else None
        fn, it, clo, a = run_method(src, heap, para, NOD, op, args)
        rep.saw_func(fn)
        what = '%s(%s) on unique fields [A B C]' % (op, ', '.join(repr(x) for x in args))
        heap.mark()
        before = heap.snapshot()
        v0 = heap.version
        try:
            it.call(clo, a)
            exc = None
        except H.Raised as x:
            exc = x
        if want in ('ValueError', 'KeyError'):
            if exc is not None and exc.exc == want and heap.snapshot() == before:
                rep.ok('C10.R5', fn.site, what, '%s, unchanged' % want)
            else:
                rep.fail('C10.R5', fn.site, what, '%s; expected %s with the paragraph unchanged' % ('raises %s' % exc.exc if exc else 'succeeds', want), where=fn.where)
            continue
        if exc is not None:
            rep.fail('C10.R1', fn.site, what, 'raises %s (line %d)' % (exc.exc, exc.lineno), where=fn.where)
            continue
        order, elems, problems = state(heap, lst, d)
        if order != want:
            problems.append('field order is %s, reference model says %s' % (order, want))
        nl = [e for e in log if e[0] == 'newline']
        if needs_nl and not (nl and nl[0][2] == v0):
            problems.append('fields are moved without first supplying the final newline of the last field')
        if others_before is not None and others() != others_before:
            changed = sorted(nm for nm, o_ in others().items() if o_ != others_before.get(nm))
            problems.append('deleting %s%s changes another field (%s): a deletion only takes the field\'s own lines away%s' % (
                args[0].spelling, ' (the unterminated last field)' if open_last else '', ', '.join(changed),
                '; the field that is now last loses its line end although the separator of the next paragraph may follow it' if open_last else ''))
        if problems:
            rep.fail('C10.R1' if not any('newline' in p for p in problems) else 'C10.R3', fn.site, what, '; '.join(problems), where=fn.where)
        else:
            rep.ok('C10.R1', fn.site, what, '→ %s' % ' '.join(order))
    # set: new key appended (after newline), existing key replaced in place
    for k, want, is_new in ((Z, ['a', 'b', 'c', 'z'], True), (A2, ['a', 'b', 'c'], False)):
        log = []
        heap = mk_heap(src, log)
        para, lst, d = build(heap)
        new = heap.alloc('KV', {'field_name': k, 'field_token': heap.alloc('Deb822FieldNameToken', {'text': k}), 'parent_element': None, 'value_element': heap.alloc('VE', {}, name='@ve_NEW')}, name='@kv_NEW')
        fn, it, clo, a = run_method(src, heap, para, NOD, 'set_kvpair_element', [k, new])
        rep.saw_func(fn)
        what = 'set %s on unique fields [A B C]' % k.spelling
        heap.mark()
        v0 = heap.version
        try:
            it.call(clo, a)
        except H.Raised as x:
            rep.fail('C10.R5', fn.site, what, 'raises %s (line %d)' % (x.exc, x.lineno), where=fn.where)
            continue
        order, elems, problems = state(heap, lst, d)
        if order != want:
            problems.append('field order is %s, reference model says %s (a replaced field keeps its place, a new one goes last)' % (order, want))
        if elems.get(k.cls) != 'NEW':
            problems.append('the element table does not hold the new field')
        nl = [e for e in log if e[0] == 'newline']
        if not any(e[0] == 'newline-value' and e[1] == '@ve_NEW' for e in log):
            problems.append('the field element that is set is not given its final newline: an element without one (the last field of an unterminated document) placed before other '
                            'fields or in an earlier paragraph swallows what follows it')
        if is_new and not (nl and nl[0][2] == v0):
            problems.append('a new field is placed after the last field without first supplying its final newline')
        if not is_new and nl:
            problems.append('replacing a field touches the last field (final newline helper called)')
        if heap.objs['@kv_NEW']['parent_element'] != para:
            problems.append('the new field does not get the paragraph as parent')
        if problems:
            rep.fail('C10.R5', fn.site, what, '; '.join(problems), where=fn.where)
        else:
            rep.ok('C10.R5', fn.site, what, '→ %s' % ' '.join(order))


def r_nodup_histories(rep, src):
    """two operations in a row on the unique-field paragraph: what the first leaves behind (a flag, a cache) must not make the second
    skip its duties -- a field replaced in place, then a new field: the new field still goes after a *terminated* last field"""
    A, B, C, Z = H.Key('a', 'A'), H.Key('b', 'B'), H.Key('c', 'C'), H.Key('z', 'Z')
    for first_key, first_label in ((A, 'replace A'), (B, 'replace B'), (C, 'replace C')):
        log = []
        heap = mk_heap(src, log)
        keys = [A, B, C]
        lst, nodes = H.build_list(heap, keys)
        table = heap.new_dict('@table')
        for k, n_ in zip(keys, nodes):
            heap.objs[table.name]['entries'].append((k, n_))
        oset = heap.alloc('OrderedSet', {_OS_FIELDS(src)[0]: table, _OS_FIELDS(src)[1]: lst}, name='@set')
        d = heap.new_dict('@elements')
        for k in keys:
            heap.objs[d.name]['entries'].append((k, mk_kv(heap, k, k.cls + '0')))
        para = heap.alloc(NOD, {'_kvpair_order': oset, '_kvpair_elements': d, 'parent_element': None}, name='@para')

        def new_kv(k, tag):
            return heap.alloc('KV', {'field_name': k, 'field_token': heap.alloc('Deb822FieldNameToken', {'text': k}), 'parent_element': None,
                                     'value_element': heap.alloc('VE', {}, name='@ve_' + tag)}, name='@kv_' + tag)
        fn = heap.module.method(NOD, 'set_kvpair_element')
        rep.saw_func(fn)
        it = H.Interp(heap)
        what = '%s, then add Z, on unique fields [A B C]' % first_label
        try:
            it.call(H.Closure(fn.node, {}, para, fn.cls), [first_key, new_kv(first_key, 'R')])
            heap.mark()
            v1 = heap.version
            n_before = len([e for e in log if e[0] == 'newline'])
            it.call(H.Closure(fn.node, {}, para, fn.cls), [Z, new_kv(Z, 'NEW')])
        except H.Raised as x:
            rep.fail('C10.R5', fn.site, what, 'raises %s (line %d)' % (x.exc, x.lineno), where=fn.where)
            continue
        nl = [e for e in log if e[0] == 'newline'][n_before:]
        if nl and nl[0][2] == v1:
            rep.ok('C10.R5', fn.site, what, 'the last field is terminated before the new one is placed')
        else:
            rep.fail('C10.R5', fn.site, what, 'after a field was replaced in place, a new field is placed after the last field without first supplying its final newline: on a '
                     'document without final newline the new field is glued to the last value ("Priority: optionalHomepage: ...")', where=fn.where)


def mk_para(heap, name):
    d = heap.new_dict()
    heap.objs[d.name]['entries'].append((H.Key('x', 'X'), None))
    return heap.alloc(NOD, {'parent_element': None, '#kind': 'P', '_kvpair_elements': d}, name=name)


def r4_file_insert_append(rep, src):
    """documents as sequences of paragraph (P), newline token (W) and comment (C) objects"""
    # p: a paragraph without fields (an empty mapping); c: a comment as last line of the document, without its line end; w: a
    # whitespace-only last line without its line end
    layouts = {'empty': '', 'P': 'P', 'P W': 'PW', 'P W P': 'PWP', 'P W P W': 'PWPW', 'P W C W P': 'PWCWP', 'C W P': 'CWP', 'P C': 'PC',
               'P W p(empty)': 'PWp', 'p(empty)': 'p', 'P c(unterminated)': 'Pc', 'P w(unterminated blank line)': 'Pw'}
    n = 0
    for lname, lay in layouts.items():
        npar = lay.count('P') + lay.count('p')
        for op, idxs in (('append', [None]), ('insert', list(range(0, npar + 2)) if lay.upper() == lay else [npar])):
            for idx in idxs:
                log = []
                heap = mk_heap(src, log)

                def text_of(it_, args_, kw_):
                    o_ = it_.h.objs[args_[0].name]
                    if o_['__class__'] == 'CommentStandIn':
                        return '# c' if args_[0].name == '@open' else '# c\n'
                    return o_.get('text', '')
                heap.hooks['.convert_to_text'] = text_of
                objs = []
                pc = 0
                for ch in lay:
                    if ch == 'P':
                        pc += 1
                        objs.append(mk_para(heap, '@P%d' % pc))
                    elif ch == 'p':
                        pc += 1
                        e_ = mk_para(heap, '@P%d' % pc)
                        del heap.objs[heap.objs[e_.name]['_kvpair_elements'].name]['entries'][:]
                        objs.append(e_)
                    elif ch == 'w':
                        objs.append(heap.alloc('Deb822WhitespaceToken', {'text': '  ', 'parent_element': None}, name='@open'))
                    elif ch == 'c':
                        objs.append(heap.alloc('CommentStandIn', {'parent_element': None}, name='@open'))
                    elif ch == 'W':
                        objs.append(heap.alloc('Deb822WhitespaceToken', {'text': '\n', 'parent_element': None}))
                    else:
                        objs.append(heap.alloc('CommentStandIn', {'parent_element': None}))
                lst, nodes = H.build_list(heap, objs)
                f = heap.alloc('Deb822FileElement', {'_token_and_elements': lst, 'parent_element': None}, name='@file')
                for o in objs:
                    heap.objs[o.name]['parent_element'] = f
                new = mk_para(heap, '@NEW')
                args = [new] if op == 'append' else [idx, new]
                fn, it, clo, a = run_method(src, heap, f, 'Deb822FileElement', op, args)
                rep.saw_func(fn)
                n += 1
                what = '%s(%s) on document [%s]' % (op, 'para' if idx is None else '%d, para' % idx, lname)
                try:
                    it.call(clo, a)
                except H.Raised as x:
                    rep.fail('C10.R4', fn.site, what, 'raises %s (line %d)' % (x.exc, x.lineno), where=fn.where)
                    continue
                seq, problems = H.read_list(heap, lst)
                elems = [heap.objs[nd.name]['value'] for nd in seq]
                kinds = ['N' if e.name == '@NEW' else 'P' if heap.objs[e.name].get('#kind') == 'P' else 'o' if e.name == '@open' else
                         'W' if heap.objs[e.name]['__class__'] == 'Deb822WhitespaceToken' else 'C' for e in elems]
                paras = [e.name for e in elems if heap.objs[e.name].get('#kind') == 'P']
                old = ['@P%d' % (i + 1) for i in range(npar)]
                k = npar if (idx is None or idx >= npar) else idx
                want = old[:k] + ['@NEW'] + old[k:]
                if paras != want:
                    problems.append('paragraph order is %s, reference model says %s' % (paras, want))
                # every original element survives in order
                rest = [e.name for e in elems if e.name != '@NEW' and e in objs]
                if rest != [o.name for o in objs]:
                    problems.append('existing elements were dropped or re-ordered')
                s = ''.join(kinds)
                p = s.find('N')
                if p >= 0:
                    # an unterminated last line needs its line end first (for a blank line that is the separator already), then the
                    # separator: two newline tokens after an open comment, one after an open blank line
                    if 'o' in s and s.index('o') < p:
                        between = s[s.index('o') + 1:p]
                        need_w = 2 if 'c' in lay else 1
                        if between.count('W') < need_w or set(between) - {'W'}:
                            problems.append('the document ends with %s; %d newline token(s) are placed before the new paragraph where %d are needed (layout %s): %s' % (
                                'a comment line without line end' if 'c' in lay else 'a whitespace-only line without line end', between.count('W'), need_w, s,
                                'the single newline only ends the comment line and the new paragraph joins the one before it' if 'c' in lay else
                                'the new field is glued to the blanks and is read as a continuation line of the field before'))
                    # a paragraph directly adjacent to another paragraph/comment merges with it when re-parsed
                    elif p > 0 and s[p - 1] != 'W':
                        problems.append('no separating newline token between the preceding %s and the new paragraph (layout %s): they merge on re-parse'
                                        % ('paragraph' if s[p - 1] == 'P' else 'comment', s))
                    if p + 1 < len(s) and s[p + 1] != 'W':
                        problems.append('no separating newline token between the new paragraph and the following %s (layout %s): they merge on re-parse'
                                        % ('paragraph' if s[p + 1] == 'P' else 'comment', s))
                    ensured = {e[1] for e in log if e[0] == 'newline'}
                    if p + 1 < len(s) and '@NEW' not in ensured:
                        problems.append('something follows the new paragraph but its last field is not given a final newline')
                    if p > 0 and lay.endswith('P') and p >= len(lay) and ('@P%d' % npar) not in ensured:
                        problems.append('the previously last paragraph is not given a final newline before the separator is placed after it')
                if heap.objs['@NEW']['parent_element'] != f:
                    problems.append('the new paragraph does not get the document as parent')
                for e in elems:
                    if heap.objs[e.name]['parent_element'] != f:
                        problems.append('element %s does not have the document as parent' % e.name)
                        break
                if problems:
                    rep.fail('C10.R4', fn.site, what, '; '.join(problems), where=fn.where)
                else:
                    rep.ok('C10.R4', fn.site, what, 'layout %s' % s)
    rep.extra['file_cases'] = n
    # a paragraph that already belongs to a document is refused by both operations at every position, with the document unchanged:
    # placed a second time it would be listed twice (one later edit then changes two paragraphs of the dump, or two documents)
    for owner in ('this document', 'another document'):
        for op, idxs in (('append', [None]), ('insert', [0, 1, 2])):
            for idx in idxs:
                log = []
                heap = mk_heap(src, log)
                heap.hooks['.convert_to_text'] = lambda it_, args_, kw_: it_.h.objs[args_[0].name].get('text', '')
                objs = [mk_para(heap, '@P1'), heap.alloc('Deb822WhitespaceToken', {'text': '\n', 'parent_element': None}), mk_para(heap, '@P2')]
                lst, nodes = H.build_list(heap, objs)
                f = heap.alloc('Deb822FileElement', {'_token_and_elements': lst, 'parent_element': None}, name='@file')
                for o in objs:
                    heap.objs[o.name]['parent_element'] = f
                if owner == 'this document':
                    new = objs[2]
                else:
                    new = mk_para(heap, '@FOREIGN')
                    olst, _onodes = H.build_list(heap, [new])
                    other = heap.alloc('Deb822FileElement', {'_token_and_elements': olst, 'parent_element': None}, name='@other_file')
                    heap.objs[new.name]['parent_element'] = other
                args = [new] if op == 'append' else [idx, new]
                fn, it, clo, a = run_method(src, heap, f, 'Deb822FileElement', op, args)
                before = [nd.name for nd in H.read_list(heap, lst)[0]]
                what = '%s(%sa paragraph of %s) is refused' % (op, '' if idx is None else '%d, ' % idx, owner)
                try:
                    it.call(clo, a)
                    exc = None
                except H.Raised as x:
                    exc = x.exc
                after = [nd.name for nd in H.read_list(heap, lst)[0]]
                if exc == 'ValueError' and after == before:
                    rep.ok('C10.R4', fn.site, what, 'ValueError, document unchanged')
                else:
                    rep.fail('C10.R4', fn.site, what, '%s: a paragraph that already belongs to %s is placed again%s (append refuses it; the same paragraph object then stands at two '
                             'places, and one later edit changes both)' % ('no error' if exc is None else 'raises %s' % exc, owner,
                                                                            '' if after == before else ', the document now has %d elements instead of %d' % (len(after), len(before))),
                             where=fn.where)


def r4c_copy_of_a_paragraph(rep, src):
    """a paragraph whose parent link names a document in which it does not stand (what copy.deepcopy() of a paragraph gives: the link is
    copied with it) is a free paragraph: append and insert take it, and it gets this document as parent"""
    for op, idxs in (('append', [None]), ('insert', [0, 1])):
        for idx in idxs:
            log = []
            heap = mk_heap(src, log)
            heap.hooks['.convert_to_text'] = lambda it_, args_, kw_: it_.h.objs[args_[0].name].get('text', '')
            objs = [mk_para(heap, '@P1'), heap.alloc('Deb822WhitespaceToken', {'text': '\n', 'parent_element': None}), mk_para(heap, '@P2')]
            lst, nodes = H.build_list(heap, objs)
            f = heap.alloc('Deb822FileElement', {'_token_and_elements': lst, 'parent_element': None}, name='@file')
            for o in objs:
                heap.objs[o.name]['parent_element'] = f
            for linked_to in ('this document', 'another document'):
                heap2 = heap
                new = mk_para(heap2, '@COPY_%s_%s' % (op, 'x' if idx is None else idx) + linked_to[:1])
                if linked_to == 'this document':
                    heap2.objs[new.name]['parent_element'] = f
                else:
                    o1 = mk_para(heap2, '@ORIGINAL' + new.name)
                    olst, _on = H.build_list(heap2, [o1])
                    other = heap2.alloc('Deb822FileElement', {'_token_and_elements': olst, 'parent_element': None})
                    heap2.objs[o1.name]['parent_element'] = other
                    heap2.objs[new.name]['parent_element'] = other
                args = [new] if op == 'append' else [idx, new]
                fn, it, clo, a = run_method(src, heap2, f, 'Deb822FileElement', op, args)
                what = '%s(%sa copy of a paragraph of %s) is taken' % (op, '' if idx is None else '%d, ' % idx, linked_to)
                try:
                    it.call(clo, a)
                    exc = None
                except H.Raised as x:
                    exc = x.exc
                elems = [heap2.objs[nd.name]['value'] for nd in H.read_list(heap2, lst)[0]]
                if exc is not None:
                    rep.fail('C10.R4', fn.site, what, 'raises %s: the paragraph stands in no document (its parent link, copied with it, names the document of its original), so '
                             'f.append(copy.deepcopy(paragraph)) must add it like any new paragraph' % exc, where=fn.where)
                elif sum(1 for e in elems if e.name == new.name) != 1 or heap2.objs[new.name]['parent_element'] != f:
                    rep.fail('C10.R4', fn.site, what, 'the paragraph stands %d times in the document and its parent is %r' % (
                        sum(1 for e in elems if e.name == new.name), heap2.objs[new.name]['parent_element']), where=fn.where)
                else:
                    rep.ok('C10.R4', fn.site, what, 'added once, parent link re-targeted')


def r4d_copy_of_a_document(rep, src):
    """copy.deepcopy() of a document, then insert / append on the copy and on the original: the copy is made as the copy module makes it --
    by the class's own __deepcopy__ where it has one (interpreted), attribute by attribute otherwise, the linked list rebuilt with new
    nodes (its __reduce__, C09.R5), and a WEAK link copied as it is (the copy module treats a weak reference as an atom, so a parent link
    that no protocol re-targets still names the original's document).  A paragraph of the copy stands in the copy: the copy refuses to
    take it a second time, and the original refuses it as a paragraph of another document; the original's own paragraphs are refused by
    the copy.  A paragraph that stands in two places is one object: one edit changes two places of the dump."""
    PROT = ('__reduce__', '__reduce_ex__', '__getstate__', '__setstate__', '__copy__')
    mod = src.mod(PM)
    fcls = 'Deb822FileElement'
    own = mod.method(fcls, '__deepcopy__')
    if any(mod.method(fcls, m_) is not None for m_ in PROT):
        raise AnalysisError('%s:%s has a copy protocol other than __deepcopy__ (not modelled)' % (PM, fcls))
    n = 0
    for gone in (False, True):
        for op, idxs in (('append', [None]), ('insert', [0, 1, 2])):
            for idx in idxs:
                for target, which in (('the copy', 'the copy'), ('the original', 'the copy'), ('the copy', 'the original')):
                    if gone and (target, which) != ('the copy', 'the copy'):
                        continue
                    log = []
                    heap = mk_heap(src, log)
                    heap.hooks['.convert_to_text'] = lambda it_, args_, kw_: it_.h.objs[args_[0].name].get('text', '')
                    objs = [mk_para(heap, '@P1'), heap.alloc('Deb822WhitespaceToken', {'text': '\n', 'parent_element': None}), mk_para(heap, '@P2')]
                    lst, nodes = H.build_list(heap, objs)
                    f = heap.alloc(fcls, {'_token_and_elements': lst, 'parent_element': None}, name='@file')
                    for o in objs:
                        heap.objs[o.name]['parent_element'] = f
                    memo = {}

                    def deep(v):
                        if not isinstance(v, H.Ref):
                            return v
                        if v.name in memo:
                            return memo[v.name]
                        o_ = heap.objs[v.name]
                        if o_['__class__'] == 'LinkedList':
                            new_, _n = H.build_list(heap, [deep(heap.objs[nd.name]['value']) for nd in H.read_list(heap, v)[0]])
                            memo[v.name] = new_
                            return new_
                        new_ = heap.alloc(o_['__class__'], {}, name='@copy_of_' + v.name.lstrip('@'))
                        memo[v.name] = new_
                        for k_, x_ in list(o_.items()):
                            if k_ != '__class__':
                                heap.objs[new_.name][k_] = x_ if k_ in ('parent_element', '_parent_element') else deep(x_)
                        return new_
                    if own is not None:
                        heap.hooks['copy.deepcopy'] = lambda it_, a_, k_: deep(a_[0])
                        heap.hooks['deepcopy'] = heap.hooks['copy.deepcopy']
                        it0 = H.Interp(heap)
                        try:
                            f2 = it0.call(H.Closure(own.node, {}, f, own.cls), [heap.new_dict()])
                        except H.Raised as x:
                            rep.fail('C10.R4', own.site, 'a document can be copied', 'copy.deepcopy(document) raises %s' % x.exc, where=own.where)
                            return
                        if not (isinstance(f2, H.Ref) and heap.objs[f2.name]['__class__'] == fcls) or f2 == f:
                            raise AnalysisError('%s returns %r for the model document' % (own.site, f2))
                    else:
                        f2 = deep(f)
                    lst2 = heap.objs[f2.name]['_token_and_elements']
                    paras2 = [heap.objs[nd.name]['value'] for nd in H.read_list(heap, lst2)[0] if heap.objs[heap.objs[nd.name]['value'].name].get('#kind') == 'P']
                    if len(paras2) != 2 or set(p_.name for p_ in paras2) & set(o.name for o in objs):
                        raise AnalysisError('%s: the copy of the model document holds %r' % (PM, paras2))
                    if gone:
                        # the original has been collected: the weak links that still named it are dead
                        for o2 in heap.objs.values():
                            if o2.get('parent_element') == f:
                                o2['parent_element'] = None
                    para = paras2[0] if which == 'the copy' else objs[0]
                    recv, rlst = (f2, lst2) if target == 'the copy' else (f, lst)
                    args = [para] if op == 'append' else [idx, para]
                    fn, it, clo, a = run_method(src, heap, recv, fcls, op, args)
                    n += 1
                    what = 'after document2 = copy.deepcopy(document)%s: %s.%s(%sa paragraph of %s) is refused' % (
                        ' (and the original is gone)' if gone else '', 'document2' if target == 'the copy' else 'document', op, '' if idx is None else '%d, ' % idx, which)
                    try:
                        it.call(clo, a)
                        exc = None
                    except H.Raised as x:
                        exc = x.exc
                    if exc is None:
                        times = sum(1 for nd in H.read_list(heap, rlst)[0] if heap.objs[nd.name]['value'] == para)
                        rep.fail('C10.R4', fn.site, what, 'it is taken: the paragraph %s%s -- one edit of it changes two places' % (
                            'stands %d times in that document' % times if target == which else 'now stands in both documents',
                            '' if own is not None else ' (%s has no __deepcopy__: copied attribute by attribute, the paragraphs of the copy keep the weak parent link of their originals)' % fcls),
                            where=(own or fn).where)
                        return
                    if not exc.endswith('ValueError'):
                        rep.fail('C10.R4', fn.site, what, 'raises %s, not ValueError' % exc, where=fn.where)
                        return
    rep.ok('C10.R4', '%s:%s.__deepcopy__' % (PM, fcls), 'a deep copy of a document owns its paragraphs: neither document takes a paragraph that stands in one of them',
           '%d scenarios (%s)' % (n, 'the __deepcopy__ of the class interpreted' if own is not None else 'copied attribute by attribute'))


def r8_reorder_end_to_end(rep, src, tier):
    """the statement on whole documents: a document with unique and one with repeated field names is parsed by the interpreted parser
    (sa.heap, the whole pipeline) -- with and without a line end at the end of the document --, its first paragraph is re-ordered through
    the interpreted order_first / order_last / order_before / order_after (by name, and by (name, i) for one occurrence of a repeated
    name), an occurrence is deleted, and after EVERY step the text of the document is compared with a list model of the field chunks
    (comment lines + field lines) kept here: the chunks are permuted or removed, their text is the same byte for byte (a missing line
    end at the very end supplied), occurrences of a repeated name that move together keep their order, and p[(name, i)] reads the i-th
    occurrence of the model."""
    import itertools
    from .. import heap as H
    mod = src.mod(PM)
    f = src.func(PM + ':parse_deb822_file')
    rep.saw_func(f)

    def world():
        heap = H.Heap(mod, extra_modules=[src.mod('_deb822_repro.tokens'), src.mod('_deb822_repro._util'), src.mod('_util'), src.mod('_deb822_repro.formatter')],
                      hooks={'sys.intern': lambda it, a, k: a[0], '_strI': lambda it, a, k: H.Key(a[0].lower(), a[0]) if isinstance(a[0], str) else a[0]})
        heap.native_regex = True
        return heap, H.Interp(heap)

    def text_of(it, heap, doc):
        m_ = mod.method(heap.objs[doc.name]['__class__'], 'convert_to_text')
        t_ = it.call(H.Closure(m_.node, {}, doc, m_.cls), [])
        return t_.concrete() if hasattr(t_, 'concrete') else t_
    UNIQ = [('A', '# about a\nA: 1\n'), ('B', 'B: two\n lines\n'), ('C', 'C:\n'), ('D', '# d1\n# d2\nD: 4\n')]
    DUP = [('A', 'A: 1\n'), ('X', '# first x\nX: first\n'), ('B', 'B: 2\n'), ('X', 'X: second\n more\n'), ('C', 'C: 3\n'), ('X', 'X: third\n')]
    TAIL = '\n# free comment\n\nOther: paragraph\n'

    def occ(chunks, name, i):
        ks = [k_ for k_, (n_, _t) in enumerate(chunks) if n_ == name]
        return ks[i] if 0 <= i < len(ks) else None
    OPS_U = [('order_first', 'C', None), ('order_last', 'A', None), ('order_before', 'D', 'A'), ('order_after', 'A', 'C'), ('order_last', 'D', None), ('order_first', 'A', None),
             ('order_after', 'B', 'D'), ('order_before', 'B', 'C')]
    OPS_D = [('order_last', 'X', None), ('order_first', 'X', None), ('order_after', ('X', 0), 'C'), ('order_before', ('X', 2), 'A'), ('order_after', ('X', 1), 'A'),
             ('order_last', ('X', 0), None), ('del', ('X', 1), None), ('order_before', 'X', 'B'), ('order_first', 'B', None), ('del', ('X', 0), None)]
    n, bad = 0, None
    for dname, chunks0, ops in (('unique names', UNIQ, OPS_U), ('a repeated name', DUP, OPS_D)):
        pairs = [list(h_) for h_ in itertools.permutations(ops, 2)]
        hists = [[o_] for o_ in ops] + (pairs if tier == 'thorough' else pairs[2::31])
        for final_nl, tail in ((True, TAIL), (False, '')):
            for hist in (hists if final_nl else hists[:6] if tier == 'thorough' else hists[:3]):
                chunks = [list(c_) for c_ in chunks0]
                if not final_nl:
                    chunks[-1][1] = chunks[-1][1][:-1]          # the document ends without a line end
                text0 = ''.join(t_ for _n, t_ in chunks) + tail
                heap, it = world()
                n += 1
                try:
                    doc = it.call(H.Closure(f.node, {}, None, None), [heap.new_list(text0.splitlines(True))], {'accept_files_with_duplicated_fields': True})
                    env = {'doc': doc}
                    it.exec(ast.parse('p = next(iter(doc))').body[0], env, None)
                except H.Raised as x:
                    raise AnalysisError('%s: the model document %r is refused by the interpreted parser (%s)' % (f.site, text0, x.exc))
                done = []
                for op, key, ref in hist:
                    name, idx = key if isinstance(key, tuple) else (key, None)
                    moving = [k_ for k_, (n_, _t) in enumerate(chunks) if n_ == name] if idx is None else ([occ(chunks, name, idx)] if occ(chunks, name, idx) is not None else [])
                    if not moving or (ref is not None and not any(n_ == ref for n_, _t in chunks)) or (ref == name):
                        continue          # (an occurrence an earlier step removed)
                    moved = [chunks[k_] for k_ in moving]
                    if op != 'del' and not chunks[-1][1].endswith('\n'):
                        chunks[-1][1] += '\n'          # (something may be placed after the last field)
                    rest = [c_ for k_, c_ in enumerate(chunks) if k_ not in moving]
                    if op == 'del':
                        chunks = rest
                    elif op == 'order_first':
                        chunks = moved + rest
                    elif op == 'order_last':
                        chunks = rest + moved
                    else:
                        at = next(k_ for k_, (n_, _t) in enumerate(rest) if n_ == ref)
                        if op == 'order_after':
                            at = max(k_ for k_, (n_, _t) in enumerate(rest) if n_ == ref) + 1 if False else at + 1
                        chunks = rest[:at] + moved + rest[at:]
                    call = ('del p[k]' if op == 'del' else 'p.%s(k)' % op if ref is None else 'p.%s(k, r)' % op)
                    done.append(call.replace('k', repr(key)).replace(', r)', ', %r)' % ref))
                    try:
                        it.exec(ast.parse(call.replace('k', '_k_').replace(', r)', ', _r_)')).body[0], dict(env, _k_=key, _r_=ref), None)
                        got = text_of(it, heap, doc)
                    except H.Raised as x:
                        got = 'raises %s (line %d)' % (x.exc, x.lineno)
                    want = ''.join(t_ for _n, t_ in chunks) + tail
                    if got != want:
                        bad = bad or 'the document %r (%s), after %s: %s; the fields of the model give %r' % (
                            text0, dname, '; '.join(done), got if got.startswith('raises') else 'the text is %r' % got, want)
                        break
                    # (name, i) denotes the i-th occurrence in document order
                    for nm_ in sorted({n_ for n_, _t in chunks}):
                        ks = [t_ for n_, t_ in chunks if n_ == nm_]
                        for i_, t_ in enumerate(ks):
                            try:
                                v_ = it.ev(ast.parse('p[k]', mode='eval').body, dict(env, k=(nm_, i_)), None)
                                v_ = v_.concrete() if hasattr(v_, 'concrete') else v_
                            except H.Raised as x:
                                v_ = 'raises %s' % x.exc
                            plain = ''.join(l_ for l_ in t_.splitlines(True) if not l_.startswith('#')).split(':', 1)[1].strip()
                            if (not isinstance(v_, str) or v_.strip() != plain) and bad is None:
                                bad = 'the document %r (%s), after %s: p[(%r, %d)] is %r; occurrence %d of %s in the document reads %r' % (text0, dname, '; '.join(done), nm_, i_, v_, i_, nm_, plain)
                    if bad:
                        break
    rep.analysed['paths'] += n
    what = 're-ordering and deleting fields of a parsed document permutes / removes whole fields, byte for byte (interpreted documents and histories)'
    if bad:
        rep.fail('C10.R8', f.site, what, bad, where=f.where)
    else:
        rep.ok('C10.R8', f.site, what, '%d histories on documents with unique and with repeated names' % n)


def r7_copy_protocol(rep, src):
    """a paragraph that was made by copy.deepcopy() can be appended to a document (C10.R4) and is then a paragraph of the document like any
    other: the class that keeps its fields in a linked list -- which rebuilds itself with new nodes when it is copied (its own
    __reduce__ in _util) -- NEXT TO a table of the nodes of that list says itself how it is copied; copied attribute by attribute, the
    table would refer to nodes whose links lead into the list of the original, and deleting or moving a field of the copy would change
    the original paragraph."""
    PROT = ('__deepcopy__', '__reduce__', '__reduce_ex__', '__getstate__')
    util = src.mod('_util')
    mod = src.mod(PM)
    rebuilt = [c_ for c_ in util.classes if any(util.method(c_, m_) is not None for m_ in PROT)]
    if 'LinkedList' not in rebuilt:
        raise AnalysisError('_util:LinkedList has no copy protocol of its own (decided under C09.R5)')
    n = 0
    for cname in sorted(mod.classes):
        init = mod.funcs.get(cname + '.__init__')
        if init is None:
            continue
        inner, tables = [], []
        for st in ast.walk(init.node):
            if isinstance(st, (ast.Assign, ast.AnnAssign)):
                tgt = st.targets[0] if isinstance(st, ast.Assign) else st.target
                v = st.value
                if not (isinstance(tgt, ast.Attribute) and norm(tgt.value) == 'self' and v is not None):
                    continue
                if isinstance(v, ast.Call) and isinstance(v.func, ast.Name) and v.func.id in rebuilt:
                    inner.append((tgt.attr, v.func.id))
                elif isinstance(v, (ast.Dict, ast.List, ast.Set)) or (isinstance(v, ast.Call) and norm(v.func) in ('dict', 'list', 'set')):
                    tables.append(tgt.attr)
        if not inner or not tables:
            continue
        n += 1
        what = 'a field list kept next to a table of its nodes is copied by a protocol of the class'
        if any(mod.method(cname, m_) is not None for m_ in PROT):
            rep.ok('C10.R7', '%s:%s' % (PM, cname), what, '%s (%s next to %s)' % (cname, ', '.join('%s: %s' % x for x in inner), ', '.join(tables)))
        else:
            rep.fail('C10.R7', '%s:%s' % (PM, cname), what, '%s keeps self.%s (a %s, which rebuilds itself with new nodes when it is copied) next to the table self.%s and defines none '
                     'of %s: f.append(copy.deepcopy(paragraph)) gives the document a paragraph whose table refers to nodes linked into the ORIGINAL paragraph\'s list -- '
                     '`del clone[(name, 1)]` or `clone.order_first(name)` then changes the original and leaves the copy wrong' % (cname, inner[0][0], inner[0][1], tables[0], ' / '.join(PROT)),
                     where=init.where)
    if n < 1:
        raise AnalysisError('%s: no class that keeps a linked list next to a table of its nodes (the paragraph with duplicated fields changed?)' % PM)


def r_final_newline_helper(rep, src):
    """the helper that every re-ordering, every added field and insert / append rely on (they are interpreted with it as a primitive)
    interpreted itself: it terminates the value of the field that stands LAST in the paragraph -- also when that field is a later
    occurrence of a repeated name -- and nothing else; an empty paragraph has nothing to terminate"""
    A, B, C = H.Key('a', 'A'), H.Key('b', 'B'), H.Key('c', 'C')
    f0 = src.mod(PM).method(DUP, '_add_final_newline_if_missing')
    if f0 is None:
        raise AnalysisError('%s: no _add_final_newline_if_missing' % DUP)
    for cname, layouts in ((DUP, ([A, B, A], [A, A], [B, A, C, B], [A], [])), (NOD, ([B, A, C], [A], []))):
        f = src.mod(PM).method(cname, '_add_final_newline_if_missing')
        rep.saw_func(f)
        for names in layouts:
            log = []
            heap = mk_heap(src, log)
            heap.hooks.pop('._add_final_newline_if_missing', None)
            heap.class_alias = {'KV': 'Deb822KeyValuePairElement'}
            heap.hooks['cast'] = lambda it, args, kw: args[1]
            if cname == DUP:
                para, kvs, _nodes = build_dup(heap, names)
                order = [k.name for k in kvs]
            else:
                lst, nodes = H.build_list(heap, names)
                table = heap.new_dict('@table')
                for k, n in zip(names, nodes):
                    heap.objs[table.name]['entries'].append((k, n))
                oset = heap.alloc('OrderedSet', {_OS_FIELDS(src)[0]: table, _OS_FIELDS(src)[1]: lst}, name='@set')
                d = heap.new_dict('@elements')
                order = []
                kvd = {}
                for k in sorted(names, key=lambda k_: k_.cls):        # dictionary order differs from field order on purpose
                    kvd[k.cls] = mk_kv(heap, k, k.cls + '0')
                    heap.objs[d.name]['entries'].append((k, kvd[k.cls]))
                order = [kvd[k.cls].name for k in names]
                para = heap.alloc(NOD, {'_kvpair_order': oset, '_kvpair_elements': d, 'parent_element': None}, name='@para')
            values = {heap.objs[kv_]['value_element'].name: kv_ for kv_ in order}
            what = '_add_final_newline_if_missing on [%s]' % ' '.join(o_[len('@kv_'):] for o_ in order)
            try:
                H.Interp(heap).call(H.Closure(f.node, {}, para, f.cls), [])
            except H.Raised as x:
                rep.fail('C10.R3', f.site, what, 'raises %s (line %d)' % (x.exc, x.lineno), where=f.where)
                continue
            done = [values.get(e[1], e[1]) for e in log if e[0] == 'newline-value']
            want = [order[-1]] if order else []
            if done == want:
                rep.ok('C10.R3', f.site, what, 'terminates %s' % (want[0][len('@kv_'):] if want else 'nothing'))
            else:
                rep.fail('C10.R3', f.site, what, 'terminates the value of %s; the last field of the paragraph is %s: with an unterminated last line in the document, whatever is '
                         'placed after that field (a moved or added field, a separator and a new paragraph) is glued to its line' % (
                             [d_[len('@kv_'):] if isinstance(d_, str) and d_.startswith('@kv_') else d_ for d_ in done] or 'no field', want[0][len('@kv_'):] if want else 'none'), where=f.where)


def r_sort(rep, src):
    """sort_fields of both paragraph classes interpreted on symbolic heaps; `sorted` is modelled as a fixed permutation
    (reversal) of whatever sequence it is given, so the result must be the reversal of the *field order* (not of the
    dictionary order, which differs in the test heap); the last field is terminated before anything is re-ordered"""
    A, B, C = H.Key('a', 'A'), H.Key('b', 'B'), H.Key('c', 'C')
    for cname in (NOD, DUP):
        f = src.func('%s:%s.sort_fields' % (PM, cname))
        rep.saw_func(f)
        log = []
        heap = mk_heap(src, log)

        def nl_value(it, args, kw, log=log):
            log.append(('newline-value', args[0].name if isinstance(args[0], H.Ref) else None, it.h.version))
            return None
        heap.hooks['.add_final_newline_if_missing'] = nl_value
        # (the paragraph's own helper for this is interpreted here, not trusted: whichever way sort_fields terminates the last field)
        heap.hooks.pop('._add_final_newline_if_missing', None)
        heap.class_alias = {'KV': 'Deb822KeyValuePairElement'}
        sort_calls = []

        def sorted_hook(it, args, kw, sort_calls=sort_calls):
            items_ = it.seq(args[0])
            kf_ = kw.get('key', args[1] if len(args) > 1 else None)
            sort_calls.append(None if kf_ is None or not items_ else it.apply(kf_, [items_[0]]))
            return list(reversed(items_))
        heap.hooks['sorted'] = sorted_hook
        heap.hooks['default_field_sort_key'] = lambda it, args, kw: ('default key of', args[0])
        heap.hooks['cast'] = lambda it, args, kw: args[1]
        if cname == DUP:
            names = [B, A, C, B]          # (the last field is a later occurrence of a repeated name)
            para, kvs, _nodes = build_dup(heap, names)
            for kv in kvs:
                heap.objs[kv.name]['value_element'] = heap.alloc('Deb822ValueElement', {}, name='@val_' + kv.name[len('@kv_'):])
            before = [k.name[len('@kv_'):] for k in kvs]
        else:
            keys = [B, A, C]
            lst, nodes = H.build_list(heap, keys)
            table = heap.new_dict('@table')
            for k, n in zip(keys, nodes):
                heap.objs[table.name]['entries'].append((k, n))
            oset = heap.alloc('OrderedSet', {_OS_FIELDS(src)[0]: table, _OS_FIELDS(src)[1]: lst}, name='@set')
            d = heap.new_dict('@elements')
            kvd = {}
            for k in [A, B, C]:        # dictionary order differs from field order on purpose
                kv = mk_kv(heap, k, k.cls + '0')
                heap.objs[kv.name]['value_element'] = heap.alloc('Deb822ValueElement', {}, name='@val_' + k.cls + '0')
                kvd[k.cls] = kv
                heap.objs[d.name]['entries'].append((k, kv))
            para = heap.alloc(NOD, {'_kvpair_order': oset, '_kvpair_elements': d, 'parent_element': None}, name='@para')
            before = ['b0', 'a0', 'c0']
        heap.mark()
        v0 = heap.version
        what = 'sort_fields on [%s]' % ' '.join(before)
        try:
            H.Interp(heap).call(H.Closure(f.node, {}, para, f.cls), [None])
        except H.Raised as x:
            rep.fail('C10.R2', f.site, what, 'raises %s' % x.exc, where=f.where)
            continue
        problems = []
        if cname == DUP:
            order, index, problems = read_dup(heap, para)
            if index != model_index(order):
                problems.append('occurrence lists %r do not match the new order %s' % (index, order))
        else:
            oset2 = heap.objs[para.name]['_kvpair_order']
            o = heap.objs[oset2.name]
            seq, problems = H.read_list(heap, o[_OS_FIELDS(src)[1]])
            order = [heap.objs[n.name]['value'].cls + '0' for n in seq]
            tab = o[_OS_FIELDS(src)[0]]
            if sorted(k.cls for k, _ in heap.objs[tab.name]['entries']) != sorted(x[0] for x in order):
                problems.append('the key table of the new order does not hold the same fields')
            if sorted(k.cls for k, _ in heap.objs[heap.objs[para.name]['_kvpair_elements'].name]['entries']) != ['a', 'b', 'c']:
                problems.append('the element table changed')
        # sort_fields() without a key sorts by the DEFAULT key (which folds the case and puts the usual first fields first): the names
        # are case-insensitive for equality only, their own order is by spelling (upper case before lower case)
        if not sort_calls or any(not (isinstance(c_, tuple) and c_ and c_[0] == 'default key of') for c_ in sort_calls):
            problems.append('sort_fields() without a key sorts by %s instead of the default field key: field names compare equal whatever their case, but they ORDER by '
                            'their spelling, so "MD5sum" sorts before "Maintainer" and occurrences spelled differently are separated' % (
                                'the fields themselves' if not sort_calls or sort_calls[0] is None else repr(sort_calls[0])))
        want = list(reversed(before))
        if order != want:
            problems.append('the new field order is %s; sorting the current field order must give %s (the sort is stable with respect to the order the fields have now)' % (order, want))
        nl = [e for e in log if e[0] == 'newline-value']
        last = '@val_' + before[-1]
        if not nl or nl[0][1] != last or nl[0][2] != v0:
            problems.append('the value of the last field (%s) is not terminated with a newline before the fields are re-ordered (terminated: %s)' % (before[-1], [e[1] for e in nl]))
        if problems:
            rep.fail('C10.R2', f.site, what, '; '.join(problems), where=f.where)
        else:
            rep.ok('C10.R2', f.site, what, '→ %s, last value terminated first' % ' '.join(order))


def r6_replaced_occurrence(rep, src):
    """set_field_from_raw_string (every paragraph[key] = text): the field whose comment and spelling are carried over is looked up
    under the caller's own key, so (name, i) stays the i-th occurrence; the first-occurrence fallback (name, 0) is only taken in
    the handler of the ambiguous-key error.  Decided on the paths of the function with the locals substituted away."""
    from .. import paths
    f = src.func(PM + ':Deb822ParagraphElement.set_field_from_raw_string')
    rep.saw_func(f)
    keyp = f.params()[1]
    ps = paths.function_paths(f.node, max_paths=20000)
    rep.analysed['paths'] += len(ps)
    from . import C05 as _C05
    helpers_ = _C05.lookup_helper_names(src)
    n = 0
    bad = None
    for p_ in ps:
        trees = [t_ for t_, _ in p_.conds] + list(p_.env.values()) + [ev[1] for ev in p_.events if ev[0] == 'effect'] + [ev[2] for ev in p_.events if ev[0] == 'store']
        ambiguous = any(isinstance(t_, ast.Call) and norm(t_.func) == '__raised__' and 'Ambiguous' in str(t_.args[0].value) for t_, pol in p_.conds if pol)
        seen = set()
        for tr in trees:
            for c in ast.walk(tr):
                if isinstance(c, ast.Call) and isinstance(c.func, ast.Attribute) and (c.func.attr == 'get_kvpair_element' or c.func.attr in helpers_) \
                        and norm(c.func.value) == 'self' and c.args:
                    k = norm(c.args[0])
                    if k in seen:
                        continue
                    seen.add(k)
                    n += 1
                    if k == keyp:
                        continue
                    if ambiguous and isinstance(c.args[0], ast.Tuple) and len(c.args[0].elts) == 2 and norm(c.args[0].elts[1]) == '0' \
                            and ('_unpack_key(%s)' % keyp) in norm(c.args[0].elts[0]):
                        continue
                    bad = bad or 'on the path [%s] the field to be replaced is looked up as %s instead of the given key `%s`' % (p_.describe()[:120], k[:60], keyp)
    if n == 0:
        raise AnalysisError('%s: no look-up of the field being replaced found' % f.site)
    if bad is None:
        rep.ok('C10.R6', f.site, 'the replaced occurrence is the one looked up', '%d look-ups: the given key, or (name, 0) in the ambiguous-key handler' % n)
    else:
        rep.fail('C10.R6', f.site, 'the replaced occurrence is the one looked up', bad + ': assigning paragraph[(name, i)] takes comment and spelling from another '
                 'occurrence (its comment is detached there and attached to the replaced field)', where=f.where)


def check(src, rep, tier):
    rep.explanation = ('C10: the structural methods are interpreted on symbolic heaps.  Duplicate-capable paragraph: four layouts (A B A C A, '
                       'B A C, A A B, B A A) × order_first/last/before/after × every single, indexed and bulk key (and every reference key): the '
                       'linked order and the per-name occurrence lists must equal the reference model, self-reference raises ValueError with the '
                       'paragraph unchanged, the final-newline helper is called before the first mutation.  set/remove: replace-all keeps the '
                       'first occurrence, indexed replace/remove hits the i-th occurrence, new fields go last after the newline helper, '
                       'replacement does not call it.  Unique-field paragraph likewise through OrderedSet.  Document: insert at every index and '
                       'append on eight layouts (trailing separator, free comments): paragraph order, surviving elements, newline token on both '
                       'sides of the new paragraph, newline helper on the paragraph that stops being last, parent links.')
    rep.not_decided = ['equality of the dumped text with a reference model after arbitrary histories (follows by induction over these cases)',
                       'byte preservation of field text (elements are moved as whole objects; see C01 for conservation)']
    rep.need('C10.R1', 150)
    rep.need('C10.R4', 25)
    rep.need('C10.R5', 17)
    rep.need('C10.R6', 1)
    rep.guard('C10.R1', r1_r2_dup_reorder, src)
    rep.guard('C10.R5', r5_dup_set_remove, src)
    rep.guard('C10.R5', r5b_replace_all_by_occurrence, src)
    rep.guard('C10.R5', r5c_replace_one_by_occurrence, src)
    rep.guard('C10.R1', r_nodup, src)
    rep.guard('C10.R5', r_nodup_histories, src)
    rep.guard('C10.R4', r4_file_insert_append, src)
    rep.guard('C10.R4', r4c_copy_of_a_paragraph, src)
    rep.guard('C10.R4', r4d_copy_of_a_document, src)
    rep.guard('C10.R4', r5d_element_of_another_paragraph, src)
    rep.guard('C10.R4', r5e_element_in_two_paragraphs, src)
    rep.guard('C10.R2', r_sort, src)
    rep.guard('C10.R6', r6_replaced_occurrence, src)

    def helper(r):
        from . import C05
        C05.r1b_helper(C05.Proxy(r, 'C10.R3'), src)
    rep.guard('C10.R3', helper)
    rep.guard('C10.R3', r_final_newline_helper, src)
    rep.need('C10.R7', 1)
    rep.guard('C10.R7', r7_copy_protocol, src)
    rep.need('C10.R8', 1)
    rep.guard('C10.R8', r8_reorder_end_to_end, src, tier)

"""C09 -- Deb822 mappings stay ordered, case-insensitive, case-preserving in any history."""
import ast

from .. import heap as H
from ..core import AnalysisError, norm, walk_no_nested

META = {
    'design_ref': 'DESIGN.md §3 C09',
    'technique': 'shape-case abstract interpretation of the loop-free LinkedList / LinkedListNode / OrderedSet methods over symbolic heaps '
                 '(all pointer-equality patterns: empty, single, head, tail, inner) with a reference list model as oracle; failure-atomicity '
                 'check on the same interpreter (heap version at the raise); sanitizer rule for key normalisation in Deb822Dict; '
                 'hash/equality agreement of the case-insensitive string',
    'level_text': 'Static decision per shape case: after append / insert at head / insert before-after / remove / pop / clear the list is a '
                  'well-formed doubly linked list holding exactly the reference sequence; OrderedSet add/remove/order_* keep table and list in '
                  'tandem, keep the first spelling and raise KeyError/ValueError before any mutation; every access of Deb822Dict to its '
                  'key set / dictionary uses the case-insensitive key.  Equality with a reference model for arbitrary histories follows by '
                  'induction over these operations but is not itself executed.',
    'level_note': 'trusted: the heap interpreter (statement kinds outside its vocabulary are ANALYSIS-ERROR; weak references are modelled as '
                  'plain references); copy / dump-parse cycles are covered by C02',
}

UT = '_util'


def new_heap(src):
    return H.Heap(src.mod(UT), field_alias={'_previous_node': 'previous_node'})


def model_ok(rep, rule, site, what, heap, lst, want_nodes, want_values=None, where=None, detached=()):
    seq, problems = H.read_list(heap, lst)
    names = [n.name for n in seq]
    if names != want_nodes and want_values is None:
        problems.append('order is %s, reference model says %s' % (names, want_nodes))
    if want_values is not None:
        vals = [repr(heap.objs[n.name]['value']) for n in seq]
        if vals != want_values:
            problems.append('values are %s, reference model says %s' % (vals, want_values))
    for d in detached:
        o = heap.objs[d.name]
        if o['previous_node'] is not None or o['next_node'] is not None:
            problems.append('removed node %s still links to its neighbours' % d.name)
    if problems:
        rep.fail(rule, site, what, '; '.join(problems), where=where)
        return False
    rep.ok(rule, site, what, 'list = %s' % (names,))
    return True


def r3_list_shapes(rep, src):
    m = src.mod(UT)
    site = UT + ':LinkedList'
    vals = [H.Key('a', 'a'), H.Key('b', 'b'), H.Key('c', 'c')]
    newv = H.Key('x', 'x')

    def method(heap, lst, name):
        fn = m.method('LinkedList', name)
        if fn is None:
            raise AnalysisError('LinkedList.%s not found' % name)
        rep.saw_func(fn)
        if any(isinstance(n, (ast.For, ast.While)) for n in walk_no_nested(fn.node)) and name not in ('extend',):
            raise AnalysisError('LinkedList.%s contains a loop: the shape cases are no longer exhaustive' % name)
        return H.Closure(fn.node, {}, lst, fn.cls), fn
    n_cases = 0
    for size in range(0, 4):
        # append / insert_at_head
        for op in ('append', 'insert_at_head'):
            heap = new_heap(src)
            lst, nodes = H.build_list(heap, vals[:size])
            it = H.Interp(heap)
            c, fn = method(heap, lst, op)
            n_cases += 1
            what = '%s on a list of %d' % (op, size)
            try:
                r = it.call(c, [newv])
            except H.Raised as x:
                rep.fail('C09.R3', fn.site, what, 'raises %s' % x.exc, where=fn.where)
                continue
            if not isinstance(r, H.Ref):
                rep.fail('C09.R3', fn.site, what, 'does not return the new node', where=fn.where)
                continue
            want = [n.name for n in nodes] + [r.name] if op == 'append' else [r.name] + [n.name for n in nodes]
            model_ok(rep, 'C09.R3', fn.site, what, heap, lst, want, where=fn.where)
        # pop / clear
        for op in ('pop', 'clear'):
            heap = new_heap(src)
            lst, nodes = H.build_list(heap, vals[:size])
            it = H.Interp(heap)
            c, fn = method(heap, lst, op)
            n_cases += 1
            what = '%s on a list of %d' % (op, size)
            try:
                it.call(c, [])
            except H.Raised as x:
                if op == 'pop' and size == 0 and x.exc == 'IndexError':
                    rep.ok('C09.R3', fn.site, what, 'IndexError, list untouched')
                else:
                    rep.fail('C09.R3', fn.site, what, 'raises %s' % x.exc, where=fn.where)
                continue
            want = [n.name for n in nodes[:-1]] if op == 'pop' else []
            model_ok(rep, 'C09.R3', fn.site, what, heap, lst, want, where=fn.where, detached=nodes[-1:] if op == 'pop' else ())
        # remove_node / insert_node_before / insert_node_after at every position
        for pos in range(size):
            role = 'only' if size == 1 else 'head' if pos == 0 else 'tail' if pos == size - 1 else 'inner'
            heap = new_heap(src)
            lst, nodes = H.build_list(heap, vals[:size])
            it = H.Interp(heap)
            c, fn = method(heap, lst, 'remove_node')
            n_cases += 1
            what = 'remove_node(%s node) on a list of %d' % (role, size)
            try:
                it.call(c, [nodes[pos]])
                want = [n.name for i, n in enumerate(nodes) if i != pos]
                model_ok(rep, 'C09.R3', fn.site, what, heap, lst, want, where=fn.where, detached=[nodes[pos]])
            except H.Raised as x:
                rep.fail('C09.R3', fn.site, what, 'raises %s (line %d)' % (x.exc, x.lineno), where=fn.where)
            for op in ('insert_node_before', 'insert_node_after', 'insert_before', 'insert_after'):
                heap = new_heap(src)
                lst, nodes = H.build_list(heap, vals[:size])
                it = H.Interp(heap)
                c, fn = method(heap, lst, op)
                n_cases += 1
                what = '%s(%s node) on a list of %d' % (op, role, size)
                if op.startswith('insert_node'):
                    new = heap.alloc('LinkedListNode', {'previous_node': None, 'next_node': None, 'value': newv}, name='@new')
                    args = [new, nodes[pos]]
                else:
                    args = [newv, nodes[pos]]
                try:
                    r = it.call(c, args)
                except H.Raised as x:
                    rep.fail('C09.R3', fn.site, what, 'raises %s (line %d)' % (x.exc, x.lineno), where=fn.where)
                    continue
                if not isinstance(r, H.Ref):
                    rep.fail('C09.R3', fn.site, what, 'does not return the inserted node', where=fn.where)
                    continue
                names = [n.name for n in nodes]
                k = pos if 'before' in op else pos + 1
                want = names[:k] + [r.name] + names[k:]
                model_ok(rep, 'C09.R3', fn.site, what, heap, lst, want, where=fn.where)
    # inserting a node that is already linked must be refused
    heap = new_heap(src)
    lst, nodes = H.build_list(heap, vals[:3])
    it = H.Interp(heap)
    c, fn = method(heap, lst, 'insert_node_after')
    before = heap.snapshot()
    try:
        it.call(c, [nodes[0], nodes[2]])
        rep.fail('C09.R3', fn.site, 'linked node is refused', 're-inserting a node that is still linked is accepted (corrupts the list)', where=fn.where)
    except H.Raised as x:
        if x.exc == 'ValueError' and heap.snapshot() == before:
            rep.ok('C09.R3', fn.site, 'linked node is refused', 'ValueError before any change')
        else:
            rep.fail('C09.R3', fn.site, 'linked node is refused', 'raises %s after modifying the list' % x.exc, where=fn.where)
    rep.extra['shape_cases'] = n_cases
    _ = site


def build_set(heap, src, keys):
    """an OrderedSet holding keys (built directly, not through add)"""
    lst, nodes = H.build_list(heap, keys)
    table = heap.new_dict('@table')
    for k, n in zip(keys, nodes):
        heap.objs[table.name]['entries'].append((k, n))
    oset = heap.alloc('OrderedSet', {'_OrderedSet__table': table, '_OrderedSet__order': lst}, name='@set')
    return oset, lst, table, nodes


def set_state(heap, lst, table):
    seq, problems = H.read_list(heap, lst)
    vals = [heap.objs[n.name]['value'] for n in seq]
    ent = heap.objs[table.name]['entries']
    for k, node in ent:
        if node not in seq:
            problems.append('table entry %s points to a node that is not in the list' % k.spelling)
        elif heap.objs[node.name]['value'].cls != k.cls:
            problems.append('table entry %s points to the node of %s' % (k.spelling, heap.objs[node.name]['value'].spelling))
    if sorted(k.cls for k, _ in ent) != sorted(v.cls for v in vals):
        problems.append('table has keys %s but the list holds %s' % ([k.spelling for k, _ in ent], [v.spelling for v in vals]))
    return [v.spelling for v in vals], problems


def r2_r4_orderedset(rep, src):
    m = src.mod(UT)
    A, B, C = H.Key('a', 'Alpha'), H.Key('b', 'Beta'), H.Key('c', 'Gamma')
    A2 = H.Key('a', 'ALPHA')          # same key, other spelling
    Z = H.Key('z', 'Zeta')            # absent
    base = [A, B, C]

    def run(opname, args, keys=base):
        heap = new_heap(src)
        oset, lst, table, nodes = build_set(heap, src, keys)
        it = H.Interp(heap)
        fn = m.method('OrderedSet', opname)
        if fn is None:
            node, c = m.class_const_node('OrderedSet', opname)
            fn = m.method('OrderedSet', node.id) if isinstance(node, ast.Name) else None
        if fn is None:
            raise AnalysisError('OrderedSet.%s not found' % opname)
        rep.saw_func(fn)
        before = heap.snapshot()
        v0 = heap.version
        try:
            it.call(H.Closure(fn.node, {}, oset, fn.cls), args)
            exc = None
        except H.Raised as x:
            exc = x
        return heap, lst, table, fn, exc, before, v0
    cases = [
        ('add', [Z], ['Alpha', 'Beta', 'Gamma', 'Zeta'], None),
        ('add', [A2], ['Alpha', 'Beta', 'Gamma'], None),                 # first spelling wins, position kept
        ('remove', [B], ['Alpha', 'Gamma'], None),
        ('remove', [A2], ['Beta', 'Gamma'], None),
        ('remove', [Z], None, 'KeyError'),
        ('order_last', [A2], ['Beta', 'Gamma', 'Alpha'], None),
        ('order_last', [C], ['Alpha', 'Beta', 'Gamma'], None),
        ('order_first', [C], ['Gamma', 'Alpha', 'Beta'], None),
        ('order_first', [A2], ['Alpha', 'Beta', 'Gamma'], None),
        ('order_first', [Z], None, 'KeyError'),
        ('order_last', [Z], None, 'KeyError'),
        ('order_before', [C, A2], ['Gamma', 'Alpha', 'Beta'], None),
        ('order_before', [A2, C], ['Beta', 'Alpha', 'Gamma'], None),
        ('order_before', [B, C], ['Alpha', 'Beta', 'Gamma'], None),
        ('order_after', [A2, C], ['Beta', 'Gamma', 'Alpha'], None),
        ('order_after', [C, A], ['Alpha', 'Gamma', 'Beta'], None),
        ('order_after', [B, A2], ['Alpha', 'Beta', 'Gamma'], None),
        ('order_before', [A, A2], None, 'ValueError'),
        ('order_after', [B, B], None, 'ValueError'),
        ('order_before', [Z, A], None, 'KeyError'),
        ('order_before', [A, Z], None, 'KeyError'),
        ('order_after', [Z, A], None, 'KeyError'),
        ('order_after', [B, Z], None, 'KeyError'),
    ]
    for opname, args, want, wantexc in cases:
        heap, lst, table, fn, exc, before, v0 = run(opname, args)
        what = '%s(%s) on [Alpha, Beta, Gamma]' % (opname, ', '.join(a.spelling for a in args))
        if wantexc is not None:
            if exc is None:
                rep.fail('C09.R4', fn.site, what, 'succeeds; the reference model raises %s' % wantexc, where=fn.where)
            elif exc.exc != wantexc:
                rep.fail('C09.R4', fn.site, what, 'raises %s instead of %s' % (exc.exc, wantexc), where=fn.where)
            elif heap.snapshot() != before:
                vals, problems = set_state(heap, lst, table)
                rep.fail('C09.R4', fn.site, what, 'raises %s only after the set was modified: order is now %s%s; a failed operation must leave the mapping unchanged'
                         % (wantexc, vals, (' (' + '; '.join(problems) + ')') if problems else ''), where='%s:%d' % (fn.module.relpath, exc.lineno))
            else:
                rep.ok('C09.R4', fn.site, what, '%s before any mutation' % wantexc)
            continue
        if exc is not None:
            rep.fail('C09.R2', fn.site, what, 'raises %s (line %d)' % (exc.exc, exc.lineno), where=fn.where)
            continue
        vals, problems = set_state(heap, lst, table)
        if vals != want:
            problems.append('order/spelling is %s, reference model says %s' % (vals, want))
        if problems:
            rep.fail('C09.R2', fn.site, what, '; '.join(problems), where=fn.where)
        else:
            rep.ok('C09.R2', fn.site, what, '→ %s, table and list in tandem' % vals)
    # iteration / membership / length read the right structure
    t = {n: norm(m.method('OrderedSet', n).node) for n in ('__iter__', '__contains__', '__len__')}
    if 'return iter(self.__order)' in t['__iter__'] and 'return item in self.__table' in t['__contains__'] and 'return len(self.__order)' in t['__len__']:
        rep.ok('C09.R2', UT + ':OrderedSet', 'iteration follows the list, membership the table', 'ok', nontrivial=False)
    else:
        rep.fail('C09.R2', UT + ':OrderedSet', 'iteration follows the list, membership the table', 'accessors do not read the list / table')


def r1_key_normalisation(rep, src):
    m = src.mod('deb822')
    n = 0
    for q, fn in sorted(m.funcs.items()):
        if not q.startswith('Deb822Dict.') or '.' in q[len('Deb822Dict.'):]:
            continue
        params = fn.params()[1:]
        body = fn.node
        # names holding a normalised key
        normed = set()
        for st in ast.walk(body):
            if isinstance(st, ast.Assign) and isinstance(st.value, ast.Call) and norm(st.value.func) == '_strI' and isinstance(st.targets[0], ast.Name):
                normed.add(st.targets[0].id)
        for node in ast.walk(body):
            key = None
            where = None
            if isinstance(node, ast.Subscript) and norm(node.value) in ('self.__dict', 'self.__parsed'):
                key, where = node.slice, node
            elif isinstance(node, ast.Compare) and len(node.ops) == 1 and isinstance(node.ops[0], (ast.In, ast.NotIn)) \
                    and norm(node.comparators[0]) in ('self.__dict', 'self.__keys'):
                key, where = node.left, node
            elif isinstance(node, ast.Call) and isinstance(node.func, ast.Attribute) and norm(node.func.value) == 'self.__keys' \
                    and node.func.attr in ('add', 'remove', 'order_last', 'order_first', 'order_before', 'order_after', 'append'):
                for a in node.args:
                    n += 1
                    ok = (isinstance(a, ast.Call) and norm(a.func) == '_strI') or (isinstance(a, ast.Name) and a.id in normed)
                    if ok:
                        rep.ok('C09.R1', fn.site, norm(node)[:50], 'case-insensitive key', nontrivial=False)
                    else:
                        rep.fail('C09.R1', fn.site, norm(node)[:50], 'the key set is updated with the raw key `%s`: "Foo" and "FOO" become two entries / lookups miss'
                                 % norm(a), where='%s:%d' % (fn.module.relpath, node.lineno))
                continue
            if key is None:
                continue
            if norm(where.value if isinstance(where, ast.Subscript) else where.comparators[0]) == 'self.__parsed':
                continue
            n += 1
            ok = (isinstance(key, ast.Call) and norm(key.func) == '_strI') or (isinstance(key, ast.Name) and key.id in normed)
            if ok:
                rep.ok('C09.R1', fn.site, norm(where)[:50], 'case-insensitive key', nontrivial=False)
            else:
                rep.fail('C09.R1', fn.site, norm(where)[:50], 'the raw key `%s` is used on the internal dictionary/key set: lookups are no longer case-insensitive'
                         % norm(key), where='%s:%d' % (fn.module.relpath, where.lineno))
        _ = params
    if n < 12:
        raise AnalysisError('only %d key uses found in Deb822Dict' % n)
    rep.analysed['call_sites'] += n
    # tandem updates in __setitem__ / __delitem__
    s = src.func('deb822:Deb822Dict.__setitem__')
    d = src.func('deb822:Deb822Dict.__delitem__')
    st, dt = norm(s.node), norm(d.node)
    if 'self.__keys.add(keyi)' in st and 'self.__dict[keyi] = value' in st:
        rep.ok('C09.R2', s.site, 'assignment updates key set and dictionary', 'ok', nontrivial=False)
    else:
        rep.fail('C09.R2', s.site, 'assignment updates key set and dictionary', '__setitem__ does not add the key to the ordered key set and store the value', where=s.where)
    body = [x for x in d.node.body if not (isinstance(x, ast.Expr) and isinstance(x.value, ast.Constant))]
    idx_remove = [i for i, x in enumerate(body) if 'self.__keys.remove(keyi)' in norm(x)]
    idx_del = [i for i, x in enumerate(body) if 'del self.__dict[keyi]' in norm(x)]
    if idx_remove and idx_del and idx_remove[0] < idx_del[0]:
        rep.ok('C09.R4', d.site, 'deleting a missing key raises before anything is removed', 'self.__keys.remove(keyi) (KeyError) comes first')
    else:
        rep.fail('C09.R4', d.site, 'deleting a missing key raises before anything is removed', '__delitem__ does not remove from the key set (raising KeyError) before touching the dictionary',
                 where=d.where)
    it = src.func('deb822:Deb822Dict.__iter__')
    if 'for key in self.__keys:' in norm(it.node) and 'yield str(key)' in norm(it.node):
        rep.ok('C09.R1', it.site, 'iteration yields the stored spelling in order', 'str(key) for key in the ordered key set', nontrivial=False)
    else:
        rep.fail('C09.R1', it.site, 'iteration yields the stored spelling in order', 'iteration does not yield str(key) over the ordered key set', where=it.where)
    # case-insensitive string: hash and eq from the same lowered text, str() the original
    c = src.mod(UT)
    hs, eq, st_ = (norm(c.method('_CaseInsensitiveString', x).node) for x in ('__hash__', '__eq__', '__str__'))
    nw = norm(c.method('_CaseInsensitiveString', '__new__').node)
    if 'return hash(self.str_lower)' in hs and 'return self.str_lower == other.lower()' in eq and 'return self.str_orig' in st_ \
            and 's.str_lower = str_.lower()' in nw and 's.str_orig = str_' in nw:
        rep.ok('C09.R1', UT + ':_CaseInsensitiveString', 'hash/eq on the lowered text, str() the original', 'ok')
    else:
        rep.fail('C09.R1', UT + ':_CaseInsensitiveString', 'hash/eq on the lowered text, str() the original',
                 'hash and equality of the case-insensitive key are not both computed from the lower-cased text, or the original spelling is not kept')
    sf = src.func('deb822:Deb822Dict.sort_fields')
    if 'self.__keys = OrderedSet(sorted(self.__keys, key=key))' in norm(sf.node):
        rep.ok('C09.R2', sf.site, 'sorting rebuilds the key set only', 'values untouched', nontrivial=False)
    else:
        rep.fail('C09.R2', sf.site, 'sorting rebuilds the key set only', 'sort_fields does not rebuild the ordered key set from its own keys', where=sf.where)


def check(src, rep, tier):
    rep.explanation = ('C09: the methods of LinkedListNode/LinkedList/OrderedSet are interpreted by a heap-shape abstract interpreter on '
                       'symbolic heaps covering every pointer-equality pattern (lists of 0..3 nodes × position of the argument node); after '
                       'each call the list is read back from head and compared with a reference list model (links both ways, head/tail, size, '
                       'detached node).  OrderedSet operations are checked with keys that differ only in case: table/list tandem, first '
                       'spelling kept, KeyError/ValueError raised with an unchanged heap.  AST rules: every Deb822Dict access to its internal '
                       'structures uses _strI(key); hash/eq of the case-insensitive string agree.')
    rep.not_decided = ['equality with the reference model over arbitrary histories (follows by induction, not executed)', 'copy and dump/parse cycles (C02)']
    rep.need('C09.R1', 12)
    rep.need('C09.R2', 12)
    rep.need('C09.R3', 40)
    rep.need('C09.R4', 9)
    rep.guard('C09.R3', r3_list_shapes, src)
    rep.guard('C09.R2', r2_r4_orderedset, src)
    rep.guard('C09.R1', r1_key_normalisation, src)

"""C09 -- Deb822 mappings stay ordered, case-insensitive, case-preserving in any history."""
import ast

from .. import heap as H
from ..core import AnalysisError, norm, walk_no_nested


def _OS_FIELDS(src):
    from .common import ordered_set_fields
    return ordered_set_fields(src)


META = {
    'design_ref': 'DESIGN.md §5 C09',
    'technique': 'shape-case abstract interpretation of the loop-free LinkedList / LinkedListNode / OrderedSet methods over symbolic heaps with a reference list model as oracle; failure-atomicity on the same interpreter; Deb822Dict methods interpreted with case-variant keys (a plain string meets a stored key only in its lower-cased spelling) against a reference mapping; hash/equality agreement of the case-insensitive string from path enumeration; copy-protocol rule for classes that store weak references and for key classes with __slots__; __reduce__ interpreted after every re-ordering (items in list order); default sort key interpreted on names of mixed case; constructor interpreted on sequences of pairs with repeated keys; two-step histories (re-order, sort or delete, then assign) on objects completed with what the constructor derives from their attributes; a class that keeps a container rebuilt on copy next to a table of its nodes defines its own copy protocol (MRO lookup); operations on the empty key set',
    'level_text': 'Static decision per shape case: after append / insert at head / insert before-after / remove / pop / clear the list is a '
                  'well-formed doubly linked list holding exactly the reference sequence; OrderedSet add/remove/order_* keep table and list in '
                  'tandem, keep the first spelling and raise KeyError/ValueError before any mutation; every access of Deb822Dict to its '
                  'key set / dictionary uses the case-insensitive key.  Equality with a reference model for arbitrary histories follows by '
                  'induction over these operations but is not itself executed.',
    'level_note': 'trusted: the heap interpreter (statement kinds outside its vocabulary are ANALYSIS-ERROR; weak references are modelled as '
                  'plain references); copy / dump-parse cycles are covered by C02',
}

UT = '_util'


def new_heap(src):
    return H.Heap(src.mod(UT), field_alias={'_previous_node': 'previous_node'})


def model_ok(rep, rule, site, what, heap, lst, want_nodes, want_values=None, where=None, detached=()):
    seq, problems = H.read_list(heap, lst)
    names = [n.name for n in seq]
    if names != want_nodes and want_values is None:
        problems.append('order is %s, reference model says %s' % (names, want_nodes))
    if want_values is not None:
        vals = [repr(heap.objs[n.name]['value']) for n in seq]
        if vals != want_values:
            problems.append('values are %s, reference model says %s' % (vals, want_values))
    for d in detached:
        o = heap.objs[d.name]
        if o['previous_node'] is not None or o['next_node'] is not None:
            problems.append('removed node %s still links to its neighbours' % d.name)
    if problems:
        rep.fail(rule, site, what, '; '.join(problems), where=where)
        return False
    rep.ok(rule, site, what, 'list = %s' % (names,))
    return True


def r3_list_shapes(rep, src, tier='quick'):
    m = src.mod(UT)
    site = UT + ':LinkedList'
    vals = [H.Key(c, c) for c in 'abcdefg']
    top = 7 if tier == 'thorough' else 4
    newv = H.Key('x', 'x')

    def method(heap, lst, name):
        fn = m.method('LinkedList', name)
        if fn is None:
            raise AnalysisError('LinkedList.%s not found' % name)
        rep.saw_func(fn)
        if any(isinstance(n, (ast.For, ast.While)) for n in walk_no_nested(fn.node)) and name not in ('extend',):
            raise AnalysisError('LinkedList.%s contains a loop: the shape cases are no longer exhaustive' % name)
        return H.Closure(fn.node, {}, lst, fn.cls), fn
    n_cases = 0
    for size in range(0, top):
        # append / insert_at_head
        for op in ('append', 'insert_at_head'):
            heap = new_heap(src)
            lst, nodes = H.build_list(heap, vals[:size])
            it = H.Interp(heap)
            c, fn = method(heap, lst, op)
            n_cases += 1
            what = '%s on a list of %d' % (op, size)
            try:
                r = it.call(c, [newv])
            except H.Raised as x:
                rep.fail('C09.R3', fn.site, what, 'raises %s' % x.exc, where=fn.where)
                continue
            if not isinstance(r, H.Ref):
                rep.fail('C09.R3', fn.site, what, 'does not return the new node', where=fn.where)
                continue
            want = [n.name for n in nodes] + [r.name] if op == 'append' else [r.name] + [n.name for n in nodes]
            model_ok(rep, 'C09.R3', fn.site, what, heap, lst, want, where=fn.where)
        # pop / clear
        for op in ('pop', 'clear'):
            heap = new_heap(src)
            lst, nodes = H.build_list(heap, vals[:size])
            it = H.Interp(heap)
            c, fn = method(heap, lst, op)
            n_cases += 1
            what = '%s on a list of %d' % (op, size)
            try:
                it.call(c, [])
            except H.Raised as x:
                if op == 'pop' and size == 0 and x.exc == 'IndexError':
                    rep.ok('C09.R3', fn.site, what, 'IndexError, list untouched')
                else:
                    rep.fail('C09.R3', fn.site, what, 'raises %s' % x.exc, where=fn.where)
                continue
            want = [n.name for n in nodes[:-1]] if op == 'pop' else []
            model_ok(rep, 'C09.R3', fn.site, what, heap, lst, want, where=fn.where, detached=nodes[-1:] if op == 'pop' else ())
        # remove_node / insert_node_before / insert_node_after at every position
        for pos in range(size):
            role = 'only' if size == 1 else 'head' if pos == 0 else 'tail' if pos == size - 1 else ('inner' if size <= 4 else 'inner#%d' % pos)
            heap = new_heap(src)
            lst, nodes = H.build_list(heap, vals[:size])
            it = H.Interp(heap)
            c, fn = method(heap, lst, 'remove_node')
            n_cases += 1
            what = 'remove_node(%s node) on a list of %d' % (role, size)
            try:
                it.call(c, [nodes[pos]])
                want = [n.name for i, n in enumerate(nodes) if i != pos]
                model_ok(rep, 'C09.R3', fn.site, what, heap, lst, want, where=fn.where, detached=[nodes[pos]])
            except H.Raised as x:
                rep.fail('C09.R3', fn.site, what, 'raises %s (line %d)' % (x.exc, x.lineno), where=fn.where)
            for op in ('insert_node_before', 'insert_node_after', 'insert_before', 'insert_after'):
                heap = new_heap(src)
                lst, nodes = H.build_list(heap, vals[:size])
                it = H.Interp(heap)
                c, fn = method(heap, lst, op)
                n_cases += 1
                what = '%s(%s node) on a list of %d' % (op, role, size)
                if op.startswith('insert_node'):
                    new = heap.alloc('LinkedListNode', {'previous_node': None, 'next_node': None, 'value': newv}, name='@new')
                    args = [new, nodes[pos]]
                else:
                    args = [newv, nodes[pos]]
                try:
                    r = it.call(c, args)
                except H.Raised as x:
                    rep.fail('C09.R3', fn.site, what, 'raises %s (line %d)' % (x.exc, x.lineno), where=fn.where)
                    continue
                if not isinstance(r, H.Ref):
                    rep.fail('C09.R3', fn.site, what, 'does not return the inserted node', where=fn.where)
                    continue
                names = [n.name for n in nodes]
                k = pos if 'before' in op else pos + 1
                want = names[:k] + [r.name] + names[k:]
                model_ok(rep, 'C09.R3', fn.site, what, heap, lst, want, where=fn.where)
    # inserting a node that is already linked must be refused
    heap = new_heap(src)
    lst, nodes = H.build_list(heap, vals[:3])
    it = H.Interp(heap)
    c, fn = method(heap, lst, 'insert_node_after')
    before = heap.snapshot()
    try:
        it.call(c, [nodes[0], nodes[2]])
        rep.fail('C09.R3', fn.site, 'linked node is refused', 're-inserting a node that is still linked is accepted (corrupts the list)', where=fn.where)
    except H.Raised as x:
        if x.exc == 'ValueError' and heap.snapshot() == before:
            rep.ok('C09.R3', fn.site, 'linked node is refused', 'ValueError before any change')
        else:
            rep.fail('C09.R3', fn.site, 'linked node is refused', 'raises %s after modifying the list' % x.exc, where=fn.where)
    rep.extra['shape_cases'] = n_cases
    _ = site


def build_set(heap, src, keys):
    """an OrderedSet holding keys (built directly, not through add)"""
    lst, nodes = H.build_list(heap, keys)
    table = heap.new_dict('@table')
    for k, n in zip(keys, nodes):
        heap.objs[table.name]['entries'].append((k, n))
    oset = heap.alloc('OrderedSet', {_OS_FIELDS(src)[0]: table, _OS_FIELDS(src)[1]: lst}, name='@set')
    return oset, lst, table, nodes


def set_state(heap, lst, table):
    def kc(x):
        return x.cls if isinstance(x, H.Key) else ('plain string', x)

    def sp(x):
        return x.spelling if isinstance(x, H.Key) else repr(x)
    seq, problems = H.read_list(heap, lst)
    vals = [heap.objs[n.name]['value'] for n in seq]
    ent = heap.objs[table.name]['entries']
    for v in vals:
        if not isinstance(v, H.Key):
            problems.append('the key set holds the plain string %r instead of a case-insensitive key: look-ups in another spelling miss it' % (v,))
    for k, node in ent:
        if node not in seq:
            problems.append('table entry %s points to a node that is not in the list' % sp(k))
        elif kc(heap.objs[node.name]['value']) != kc(k):
            problems.append('table entry %s points to the node of %s' % (sp(k), sp(heap.objs[node.name]['value'])))
    if sorted(map(str, (kc(k) for k, _ in ent))) != sorted(map(str, (kc(v) for v in vals))):
        problems.append('table has keys %s but the list holds %s' % ([sp(k) for k, _ in ent], [sp(v) for v in vals]))
    return [sp(v) if isinstance(v, H.Key) else v for v in vals], problems


def r2_r4_orderedset(rep, src, tier='quick'):
    m = src.mod(UT)
    A, B, C = H.Key('a', 'Alpha'), H.Key('b', 'Beta'), H.Key('c', 'Gamma')
    A2 = H.Key('a', 'ALPHA')          # same key, other spelling
    Z = H.Key('z', 'Zeta')            # absent
    base = [A, B, C]

    def run(opname, args, keys=base):
        heap = new_heap(src)
        oset, lst, table, nodes = build_set(heap, src, keys)
        it = H.Interp(heap)
        fn = m.method('OrderedSet', opname)
        if fn is None:
            node, c = m.class_const_node('OrderedSet', opname)
            fn = m.method('OrderedSet', node.id) if isinstance(node, ast.Name) else None
        if fn is None:
            raise AnalysisError('OrderedSet.%s not found' % opname)
        rep.saw_func(fn)
        before = heap.snapshot()
        v0 = heap.version
        try:
            it.call(H.Closure(fn.node, {}, oset, fn.cls), args)
            exc = None
        except H.Raised as x:
            exc = x
        return heap, lst, table, fn, exc, before, v0
    cases = [
        ('add', [Z], ['Alpha', 'Beta', 'Gamma', 'Zeta'], None),
        ('add', [A2], ['Alpha', 'Beta', 'Gamma'], None),                 # first spelling wins, position kept
        ('remove', [B], ['Alpha', 'Gamma'], None),
        ('remove', [A2], ['Beta', 'Gamma'], None),
        ('remove', [Z], None, 'KeyError'),
        ('order_last', [A2], ['Beta', 'Gamma', 'Alpha'], None),
        ('order_last', [C], ['Alpha', 'Beta', 'Gamma'], None),
        ('order_first', [C], ['Gamma', 'Alpha', 'Beta'], None),
        ('order_first', [A2], ['Alpha', 'Beta', 'Gamma'], None),
        ('order_first', [Z], None, 'KeyError'),
        ('order_last', [Z], None, 'KeyError'),
        ('order_before', [C, A2], ['Gamma', 'Alpha', 'Beta'], None),
        ('order_before', [A2, C], ['Beta', 'Alpha', 'Gamma'], None),
        ('order_before', [B, C], ['Alpha', 'Beta', 'Gamma'], None),
        ('order_after', [A2, C], ['Beta', 'Gamma', 'Alpha'], None),
        ('order_after', [C, A], ['Alpha', 'Gamma', 'Beta'], None),
        ('order_after', [B, A2], ['Alpha', 'Beta', 'Gamma'], None),
        ('order_before', [A, A2], None, 'ValueError'),
        ('order_after', [B, B], None, 'ValueError'),
        ('order_before', [Z, A], None, 'KeyError'),
        ('order_before', [A, Z], None, 'KeyError'),
        ('order_after', [Z, A], None, 'KeyError'),
        ('order_after', [B, Z], None, 'KeyError'),
    ]
    cases = [(o, a, w, e, base) for o, a, w, e in cases]
    # boundary shapes: the only key (head is tail), two keys (the moved key is head or tail and so is the reference)
    cases += [('order_first', [A2], ['Alpha'], None, [A]), ('order_last', [A2], ['Alpha'], None, [A]), ('remove', [A2], [], None, [A]),
              ('add', [A2], ['Alpha'], None, [A]), ('add', [Z], ['Zeta'], None, []),
              ('order_first', [B], ['Beta', 'Alpha'], None, [A, B]), ('order_last', [A2], ['Beta', 'Alpha'], None, [A, B]),
              ('order_before', [B, A2], ['Beta', 'Alpha'], None, [A, B]), ('order_after', [A2, B], ['Beta', 'Alpha'], None, [A, B])]
    # ... and the set without keys (a fresh paragraph, or one whose last field was deleted): every key is missing
    cases += [('order_first', [Z], None, 'KeyError', []), ('order_last', [Z], None, 'KeyError', []), ('remove', [Z], None, 'KeyError', []),
              ('order_before', [Z, A], None, 'KeyError', []), ('order_after', [A, Z], None, 'KeyError', [])]
    if tier == 'thorough':
        # every operation with every combination of present (other spelling) / absent arguments on sets of 0..4 keys,
        # expected outcome from a reference model (python list of spellings)
        allk = [H.Key('a', 'Alpha'), H.Key('b', 'Beta'), H.Key('c', 'Gamma'), H.Key('d', 'Delta')]
        for size in range(0, 5):
            keys = allk[:size]
            cands = [H.Key(k.cls, k.spelling.upper()) for k in keys] + [Z]
            model = [k.spelling for k in keys]
            idx = {k.cls: i for i, k in enumerate(keys)}
            for opname in ('add', 'remove', 'order_first', 'order_last'):
                for x in cands:
                    present = x.cls in idx
                    m2 = list(model)
                    exc_ = None
                    if opname == 'add':
                        if not present:
                            m2.append(x.spelling)
                    elif not present:
                        exc_ = 'KeyError'
                    else:
                        item = m2.pop(idx[x.cls])
                        if opname == 'order_first':
                            m2.insert(0, item)
                        elif opname == 'order_last':
                            m2.append(item)
                    cases.append((opname, [x], None if exc_ else m2, exc_, keys))
            for opname in ('order_before', 'order_after'):
                for x in cands:
                    for y in cands:
                        exc_ = None
                        m2 = list(model)
                        if x.cls == y.cls:
                            exc_ = 'ValueError' if x.cls in idx else ('ValueError', 'KeyError')
                        elif x.cls not in idx or y.cls not in idx:
                            exc_ = 'KeyError'
                        else:
                            item = m2.pop(idx[x.cls])
                            j = m2.index(keys[idx[y.cls]].spelling)
                            m2.insert(j if opname == 'order_before' else j + 1, item)
                        cases.append((opname, [x, y], None if exc_ else m2, exc_, keys))
    for opname, args, want, wantexc, keys in cases:
        heap, lst, table, fn, exc, before, v0 = run(opname, args, keys)
        what = '%s(%s) on [%s]' % (opname, ', '.join(a.spelling for a in args), ', '.join(k.spelling for k in keys))
        if isinstance(wantexc, tuple):
            wantexc = exc.exc if (exc is not None and exc.exc in wantexc) else wantexc[0]
        if wantexc is not None:
            if exc is None:
                rep.fail('C09.R4', fn.site, what, 'succeeds; the reference model raises %s' % wantexc, where=fn.where)
            elif exc.exc != wantexc:
                rep.fail('C09.R4', fn.site, what, 'raises %s instead of %s' % (exc.exc, wantexc), where=fn.where)
            elif heap.snapshot() != before:
                vals, problems = set_state(heap, lst, table)
                rep.fail('C09.R4', fn.site, what, 'raises %s only after the set was modified: order is now %s%s; a failed operation must leave the mapping unchanged'
                         % (wantexc, vals, (' (' + '; '.join(problems) + ')') if problems else ''), where='%s:%d' % (fn.module.relpath, exc.lineno))
            else:
                rep.ok('C09.R4', fn.site, what, '%s before any mutation' % wantexc)
            continue
        if exc is not None:
            rep.fail('C09.R2', fn.site, what, 'raises %s (line %d)' % (exc.exc, exc.lineno), where=fn.where)
            continue
        vals, problems = set_state(heap, lst, table)
        if vals != want:
            problems.append('order/spelling is %s, reference model says %s' % (vals, want))
        if problems:
            rep.fail('C09.R2', fn.site, what, '; '.join(problems), where=fn.where)
        else:
            rep.ok('C09.R2', fn.site, what, '→ %s, table and list in tandem' % vals)
    # iteration / membership / length read the right structure (interpreted)
    heap = new_heap(src)
    oset, lst, table, nodes = build_set(heap, src, base)
    it = H.Interp(heap)

    def call(name, args):
        fn = m.method('OrderedSet', name)
        if fn is None:
            raise AnalysisError('OrderedSet.%s not found' % name)
        rep.saw_func(fn)
        return it.call(H.Closure(fn.node, {}, oset, fn.cls), args)
    got_iter = [getattr(x, 'spelling', x) for x in it.seq(call('__iter__', []))]
    ok = got_iter == ['Alpha', 'Beta', 'Gamma'] and call('__contains__', [A2]) is True and call('__contains__', [Z]) is False and call('__len__', []) == 3
    if ok:
        rep.ok('C09.R2', UT + ':OrderedSet', 'iteration follows the list, membership the table', 'iter → %s, contains/len consistent' % got_iter)
    else:
        rep.fail('C09.R2', UT + ':OrderedSet', 'iteration follows the list, membership the table', 'iteration gives %s / membership or length disagree with the stored keys' % got_iter)


def r1_key_normalisation(rep, src):
    """Deb822Dict interpreted on a symbolic heap: the internal dictionary and the ordered key set (OrderedSet, real code
    of _util) are keyed by case-insensitive keys; the caller passes plain strings in various spellings.  A plain
    string meets a stored key only in its lower-cased spelling (as with the real hash/eq), so an access that forgets
    the normalisation misses."""
    mods = [src.mod('deb822'), src.mod(UT)]

    def world():
        def strI(it, args, kw):
            a = args[0]
            if isinstance(a, H.Key):
                return a
            return H.Key(a.lower(), a)

        def to_str(it, args, kw):
            return args[0].spelling if isinstance(args[0], H.Key) else args[0]
        heap = H.Heap(mods[0], field_alias={'_previous_node': 'previous_node'}, extra_modules=[mods[1]],
                      hooks={'_strI': strI, 'str': to_str, '.decode': lambda it, args, kw: args[1],
                             'sorted': lambda it, args, kw: list(reversed(it.seq(args[0]))), 'default_field_sort_key': lambda it, args, kw: args[0]})
        A, B = H.Key('alpha', 'Alpha'), H.Key('beta', 'Beta')
        oset, lst, table, nodes = build_set(heap, src, [A, B])
        d = heap.new_dict('@values')
        heap.objs[d.name]['entries'] += [(A, 'v-alpha'), (B, 'v-beta')]
        dec = heap.alloc('Decoder', {}, name='@decoder')
        me = heap.alloc('Deb822Dict', {'_Deb822Dict__dict': d, '_Deb822Dict__keys': oset, '_Deb822Dict__parsed': None, 'decoder': dec, 'encoding': 'utf-8'}, name='@dict')
        H.Interp(heap).complete_from_init(me)       # what the constructor derives from these attributes (a cached bound method, a count)
        return heap, me, d, lst, table

    def state(heap, d, lst, table, me):
        oset = heap.objs[me.name]['_Deb822Dict__keys']
        o = heap.objs[oset.name]
        lst2, table2 = o[_OS_FIELDS(src)[1]], o[_OS_FIELDS(src)[0]]
        order, problems = set_state(heap, lst2, table2)
        vals = {k.spelling if isinstance(k, H.Key) else k: v for k, v in heap.objs[heap.objs[me.name]['_Deb822Dict__dict'].name]['entries']}
        return order, vals, problems

    def run(mname, args):
        heap, me, d, lst, table = world()
        fn = heap.module.method('Deb822Dict', mname)
        if fn is None:
            raise AnalysisError('Deb822Dict.%s not found' % mname)
        rep.saw_func(fn)
        heap.mark()          # the objects that exist now are the mapping; what the call allocates on the way (a module-level marker made on first use) is not
        before = heap.snapshot()
        try:
            r = H.Interp(heap).call(H.Closure(fn.node, {}, me, fn.cls), args)
            exc = None
        except H.Raised as x:
            r, exc = None, x.exc
        return r, exc, state(heap, d, lst, table, me), heap.snapshot() == before, fn
    V0 = {'Alpha': 'v-alpha', 'Beta': 'v-beta'}
    cases = [
        # method, args, want result, want exception, want key order, want values
        ('__getitem__', ['ALPHA'], 'v-alpha', None, ['Alpha', 'Beta'], V0),
        ('__getitem__', ['beta'], 'v-beta', None, ['Alpha', 'Beta'], V0),
        ('__getitem__', ['Zeta'], None, 'KeyError', ['Alpha', 'Beta'], V0),
        ('__contains__', ['aLPHa'], True, None, ['Alpha', 'Beta'], V0),
        ('__contains__', ['Zeta'], False, None, ['Alpha', 'Beta'], V0),
        ('__setitem__', ['ALPHA', 'new'], None, None, ['Alpha', 'Beta'], {'Alpha': 'new', 'Beta': 'v-beta'}),
        ('__setitem__', ['Gamma', 'new'], None, None, ['Alpha', 'Beta', 'Gamma'], {'Alpha': 'v-alpha', 'Beta': 'v-beta', 'Gamma': 'new'}),
        ('__delitem__', ['ALPHA'], None, None, ['Beta'], {'Beta': 'v-beta'}),
        ('__delitem__', ['Zeta'], None, 'KeyError', ['Alpha', 'Beta'], V0),
        ('__iter__', [], ['Alpha', 'Beta'], None, ['Alpha', 'Beta'], V0),
        ('__len__', [], 2, None, ['Alpha', 'Beta'], V0),
        ('order_last', ['ALPHA'], None, None, ['Beta', 'Alpha'], V0),
        ('order_first', ['BETA'], None, None, ['Beta', 'Alpha'], V0),
        ('order_before', ['BETA', 'alpha'], None, None, ['Beta', 'Alpha'], V0),
        ('order_after', ['ALPHA', 'beta'], None, None, ['Beta', 'Alpha'], V0),
        ('sort_fields', [None], None, None, ['Beta', 'Alpha'], V0),        # `sorted` is modelled as a fixed permutation (reversal)
    ]
    # the methods the class inherits from collections.abc.MutableMapping are CPython's; when the class defines one of them ITSELF (an
    # "optimised" pop / get / setdefault / popitem / update / clear), that definition answers as the inherited one does
    OWN = [
        ('pop', ['ALPHA'], 'v-alpha', None, ['Beta'], {'Beta': 'v-beta'}),
        ('pop', ['Zeta'], None, 'KeyError', ['Alpha', 'Beta'], V0),
        ('pop', ['Zeta', 'dflt'], 'dflt', None, ['Alpha', 'Beta'], V0),
        ('pop', ['Zeta', None], None, None, ['Alpha', 'Beta'], V0),
        ('pop', ['beta', 'dflt'], 'v-beta', None, ['Alpha'], {'Alpha': 'v-alpha'}),
        ('get', ['ALPHA'], 'v-alpha', None, ['Alpha', 'Beta'], V0),
        ('get', ['Zeta'], None, None, ['Alpha', 'Beta'], V0),
        ('get', ['Zeta', 'dflt'], 'dflt', None, ['Alpha', 'Beta'], V0),
        ('setdefault', ['ALPHA', 'x'], 'v-alpha', None, ['Alpha', 'Beta'], V0),
        ('setdefault', ['Gamma', 'x'], 'x', None, ['Alpha', 'Beta', 'Gamma'], {'Alpha': 'v-alpha', 'Beta': 'v-beta', 'Gamma': 'x'}),
        ('clear', [], None, None, [], {}),
    ]
    probe_heap = world()[0]
    cases += [c_ for c_ in OWN if probe_heap.module.method('Deb822Dict', c_[0]) is not None]
    n = 0
    for mname, args, wr, wexc, worder, wvals in cases:
        r, exc, (order, vals, problems), unchanged, fn = run(mname, args)
        n += 1
        what = 'Deb822Dict.%s(%s) on {Alpha, Beta}' % (mname, ', '.join(repr(a) for a in args))
        rule = 'C09.R4' if wexc else ('C09.R2' if mname in ('__setitem__', '__delitem__', 'sort_fields') or mname.startswith('order_') else 'C09.R1')
        if isinstance(r, H.Ref) and r.name in run.__globals__.get('_', {}):
            pass
        if wexc:
            if exc != wexc:
                rep.fail(rule, fn.site, what, 'the reference mapping raises %s, the code %s' % (wexc, 'raises ' + exc if exc else 'returns %r' % (r,)), where=fn.where)
            elif not unchanged:
                rep.fail(rule, fn.site, what, '%s is raised only after the mapping was modified (keys now %s, values %s): a failed operation must leave it unchanged'
                         % (wexc, order, vals), where=fn.where)
            else:
                rep.ok(rule, fn.site, what, '%s before any mutation' % wexc)
            continue
        if exc is not None:
            rep.fail(rule, fn.site, what, 'raises %s: the key is not found although the mapping holds it in another spelling (case-insensitive lookup lost)' % exc
                     if exc == 'KeyError' else 'raises %s' % exc, where=fn.where)
            continue
        if isinstance(r, H.PyIter):
            r = r.drain()          # (a generator: its items)
        got = r
        if isinstance(r, list):
            got = [x.spelling if isinstance(x, H.Key) else x for x in r]
        bad = []
        if wr is not None and got != wr:
            bad.append('returns %r instead of %r' % (got, wr))
        if order != worder:
            bad.append('the key order/spelling becomes %s instead of %s (first spelling and position are kept; new keys go last)' % (order, worder))
        if vals != wvals:
            bad.append('the stored values become %r instead of %r' % (vals, wvals))
        bad += problems
        if bad:
            rep.fail(rule, fn.site, what, '; '.join(bad), where=fn.where)
        else:
            rep.ok(rule, fn.site, what, 'result %r, keys %s' % (got, order))
    rep.analysed['call_sites'] += n
    # two operations in a row: what the first leaves behind (a replaced key set, a detached node, a cached helper that was bound at
    # construction) must not make the second miss -- every re-ordering / sort / deletion, then a new key and an old key assigned
    firsts = [('sort_fields', [None], ['Beta', 'Alpha']), ('order_last', ['ALPHA'], ['Beta', 'Alpha']), ('order_first', ['BETA'], ['Beta', 'Alpha']),
              ('__delitem__', ['ALPHA'], ['Beta']), ('__setitem__', ['Gamma', 'g'], ['Alpha', 'Beta', 'Gamma'])]
    for m1_, a1_, order1 in firsts:
        for key2, is_new in (('Delta', True), ('alpha', 'Alpha' not in order1), ('BETA', False)):
            heap, me, d, lst, table = world()
            it_ = H.Interp(heap)
            f1_ = heap.module.method('Deb822Dict', m1_)
            f2_ = heap.module.method('Deb822Dict', '__setitem__')
            f3_ = heap.module.method('Deb822Dict', '__contains__')
            f4_ = heap.module.method('Deb822Dict', '__len__')
            what = 'Deb822Dict.%s(%s), then [%r] = "x", on {Alpha, Beta}' % (m1_, ', '.join(repr(a) for a in a1_), key2)
            try:
                it_.call(H.Closure(f1_.node, {}, me, f1_.cls), list(a1_))
                it_.call(H.Closure(f2_.node, {}, me, f2_.cls), [key2, 'x'])
                has = it_.call(H.Closure(f3_.node, {}, me, f3_.cls), [key2])
                ln = it_.call(H.Closure(f4_.node, {}, me, f4_.cls), [])
            except H.Raised as x:
                rep.fail('C09.R2', f2_.site, what, 'raises %s (line %d)' % (x.exc, x.lineno), where=f2_.where)
                continue
            order, vals, problems = state(heap, d, lst, table, me)
            worder = order1 + [key2] if is_new else list(order1)
            bad = list(problems)
            if order != worder:
                bad.append('the keys are %s, the reference list model says %s%s' % (order, worder, ': the assigned key is stored but not listed (iteration, len(), `in`, dump() and copy() do '
                                                                                         'not see it)' if is_new and key2 not in order else ''))
            if has is not True:
                bad.append('`%r in d` is %r' % (key2, has))
            if ln != len(worder):
                bad.append('len() is %r, the model has %d keys' % (ln, len(worder)))
            stored = next((v_ for k_, v_ in vals.items() if k_.lower() == key2.lower()), None)
            if stored != 'x':
                bad.append('the value stored for %r is %r' % (key2, stored))
            if bad:
                rep.fail('C09.R2', f2_.site, what, '; '.join(bad), where=f2_.where)
            else:
                rep.ok('C09.R2', f2_.site, what, 'keys %s' % order)
    # copy(): a mapping whose key order was changed after the keys were inserted (order_last) copies in its *current* order, with
    # the same values; the constructor is interpreted (items() of the abstract base is iteration + item access)
    heap, me, d, lst, table = world()
    itp = H.Interp(heap)

    def items_hook(it, args, kw):
        obj = args[0]
        if isinstance(obj, H.Ref) and it.h.objs[obj.name]['__class__'] == 'dict':
            return it.h.new_list(list(it.h.objs[obj.name]['entries']))         # a builtin dictionary: its own items
        fi = heap.module.method('Deb822Dict', '__iter__')
        gi = heap.module.method('Deb822Dict', '__getitem__')
        keys = it.seq(it.call(H.Closure(fi.node, {}, obj, fi.cls), []))
        return it.h.new_list([(k, it.call(H.Closure(gi.node, {}, obj, gi.cls), [k])) for k in keys])
    heap.hooks['.items'] = items_hook
    heap.hooks['_AutoDecoder'] = lambda it, a, k: it.h.alloc('Decoder', {})
    heap.hooks['super'] = lambda it, a, k: ('super',)
    fcopy = heap.module.method('Deb822Dict', 'copy')
    fol = heap.module.method('Deb822Dict', 'order_last')
    what = 'Deb822Dict.copy() after order_last(Alpha) on {Alpha, Beta}'
    try:
        itp.call(H.Closure(fol.node, {}, me, fol.cls), ['Alpha'])
        cp = itp.call(H.Closure(fcopy.node, {}, me, fcopy.cls), [])
        order2, vals2, problems2 = state(heap, d, lst, table, cp)
        bad = list(problems2)
        if order2 != ['Beta', 'Alpha']:
            bad.append('the copy lists its keys as %s, the original (after the re-ordering) as [\'Beta\', \'Alpha\']' % order2)
        if vals2 != {'Alpha': 'v-alpha', 'Beta': 'v-beta'}:
            bad.append('the copy holds %r' % (vals2,))
        if cp == me:
            bad.append('copy() returns the mapping itself')
        if bad:
            rep.fail('C09.R2', fcopy.site, what, '; '.join(bad), where=fcopy.where)
        else:
            rep.ok('C09.R2', fcopy.site, what, 'same order and values, separate object')
    except H.Raised as x:
        rep.fail('C09.R2', fcopy.site, what, 'raises %s (line %d)' % (x.exc, x.lineno), where=fcopy.where)
    # the constructor on a sequence of pairs whose keys repeat, exactly and in another case: the pairs are assigned in sequence (first
    # spelling kept, last value wins) -- also when an exact repetition stands between two case variants
    finit = heap.module.method('Deb822Dict', '__init__')
    rep.saw_func(finit)
    for label, pairs, worder, wvals in (
            ('pairs with a key repeated exactly around a case variant', [('Alpha', '1'), ('ALPHA', '2'), ('Beta', '3'), ('Alpha', '4')], ['Alpha', 'Beta'], {'Alpha': '4', 'Beta': '3'}),
            ('pairs with distinct keys', [('Beta', '1'), ('Alpha', '2')], ['Beta', 'Alpha'], {'Beta': '1', 'Alpha': '2'}),
            # (a field with an empty value is a field: copy() and Deb822(mapping) go through this loop)
            ('pairs with an empty value', [('Beta', ''), ('Alpha', '2'), ('Gamma', '')], ['Beta', 'Alpha', 'Gamma'], {'Beta': '', 'Alpha': '2', 'Gamma': ''})):
        heap, me0, d0, lst0, table0 = world()
        heap.hooks['.items'] = items_hook
        heap.hooks['_AutoDecoder'] = lambda it, a, k: it.h.alloc('Decoder', {})
        heap.hooks['super'] = lambda it, a, k: ('super',)
        itp = H.Interp(heap)
        fresh = heap.alloc('Deb822Dict', {}, name='@fresh')
        what = 'Deb822Dict(%s)' % label
        try:
            itp.call(H.Closure(finit.node, {}, fresh, finit.cls), [heap.new_list([tuple(p_) for p_ in pairs])])
            order2, vals2, problems2 = state(heap, None, None, None, fresh)
            bad = list(problems2)
            if order2 != worder:
                bad.append('keys are %s, assigning the pairs in sequence gives %s' % (order2, worder))
            if vals2 != wvals:
                bad.append('values are %r, assigning the pairs in sequence gives %r (the last pair of a name wins)' % (vals2, wvals))
            if bad:
                rep.fail('C09.R2', finit.site, what, '; '.join(bad), where=finit.where)
            else:
                rep.ok('C09.R2', finit.site, what, 'keys %s, values %r' % (order2, vals2))
        except H.Raised as x:
            rep.fail('C09.R2', finit.site, what, 'raises %s (line %d)' % (x.exc, x.lineno), where=finit.where)
    # case-insensitive string: hash and equality from the same lower-cased text, str() gives the original
    from .. import paths
    c = src.mod(UT)
    cname = '_CaseInsensitiveString'

    def ret_of(mname):
        fn = c.method(cname, mname)
        if fn is None:
            raise AnalysisError('%s.%s not found' % (cname, mname))
        ps = [p_ for p_ in paths.function_paths(fn.node) if p_.outcome[0] == 'return' and not any('__raised__' in norm(t) for t, _ in p_.conds)]
        return fn, ps
    fn_new, ps_new = ret_of('__new__')
    stores = {}
    for p_ in ps_new:
        for e in p_.events:
            if e[0] == 'store':
                stores[e[1].split('.')[-1]] = norm(e[2])
    arg = fn_new.params()[1]
    lowered = [k for k, v in stores.items() if v == '%s.lower()' % arg]
    original = [k for k, v in stores.items() if v == arg]
    fn_h, ps_h = ret_of('__hash__')
    fn_e, ps_e = ret_of('__eq__')
    fn_s, ps_s = ret_of('__str__')
    ok = bool(lowered) and bool(original)
    why = 'the constructor does not keep the original and the lower-cased text'
    if ok:
        low, orig = 'self.' + lowered[0], 'self.' + original[0]
        other = fn_e.params()[1]
        hs = {norm(p_.outcome[1]) for p_ in ps_h}
        es = {norm(p_.outcome[1]) for p_ in ps_e}
        ss = {norm(p_.outcome[1]) for p_ in ps_s}
        if not hs <= {'hash(%s)' % low, 'hash(self.lower())'}:
            ok, why = False, 'the hash is computed from %s, not from the lower-cased text' % sorted(hs)
        elif not all(_eq_of_lowered(p_, low, other, cname, lowered[0]) for p_ in ps_e):
            ok, why = False, 'equality is %s, not a comparison of the lower-cased texts' % sorted(es)
        elif not ss <= {orig}:
            ok, why = False, 'str() returns %s, not the original spelling' % sorted(ss)
    if ok:
        rep.ok('C09.R1', UT + ':' + cname, 'hash/eq on the lowered text, str() the original', 'ok')
    else:
        rep.fail('C09.R1', UT + ':' + cname, 'hash/eq on the lowered text, str() the original', why)


def _eq_of_lowered(path, low, other, cname, lowered_attr):
    """a returning path of __eq__ compares the lower-cased text of this string with the lower-cased text of the other one: `other.lower()`,
    or -- on a path that has established that the other object is of this very class -- the other object's own stored lower-cased text"""
    e = path.outcome[1]
    if isinstance(e, ast.Constant) and e.value is False:
        return True          # (a path that answers False: not-a-string)
    if not (isinstance(e, ast.Compare) and len(e.ops) == 1 and isinstance(e.ops[0], ast.Eq)):
        return False
    sides = {norm(e.left), norm(e.comparators[0])}
    mine = {low, 'self.lower()'}
    theirs = {'%s.lower()' % other}
    same_class = any(pol and norm(t) in ('type(%s) is %s' % (other, cname), 'isinstance(%s, %s)' % (other, cname), 'type(%s) is type(self)' % other,
                                         'isinstance(%s, type(self))' % other, '%s.__class__ is %s' % (other, cname)) for t, pol in path.conds)
    if same_class:
        theirs = theirs | {'%s.%s' % (other, lowered_attr)}
    return len(sides) == 2 and bool(sides & mine) and bool(sides & theirs)


def r5_copy_protocol(rep, src):
    """the key order of a paragraph lives in a linked list whose back links are weak references.  The copy module (copy.deepcopy,
    copy.copy) and pickle treat a weak reference as an atom: a deep copy keeps the back links pointing into the *original* list,
    and pickling fails.  A class that stores weakref.ref(...) in an attribute therefore has to say how it is copied
    (__deepcopy__ / __reduce__ / __getstate__), or the containers built from it do."""
    mod = src.mod('_util')
    n = 0
    for cname in sorted(mod.classes):
        stores = [st for q, fn in mod.funcs.items() if q.startswith(cname + '.') for st in ast.walk(fn.node)
                  if isinstance(st, ast.Assign) and any(isinstance(t, ast.Attribute) and norm(t.value) == 'self' for t in st.targets)
                  and any(isinstance(c, ast.Call) and norm(c.func) in ('weakref.ref', 'ref', 'weakref.proxy') for c in ast.walk(st.value))]
        if not stores:
            continue
        n += 1
        owners = [cname] + [c2 for c2 in mod.classes if any(isinstance(x, ast.Call) and norm(x.func) == cname for q, fn in mod.funcs.items() if q.startswith(c2 + '.') for x in ast.walk(fn.node))]
        protocol = [c2 for c2 in owners if any(mod.method(c2, m_) is not None for m_ in ('__deepcopy__', '__reduce__', '__reduce_ex__', '__getstate__'))]
        what = 'objects with weak back links define how they are copied'
        if protocol:
            rep.ok('C09.R5', '_util:' + cname, what, 'copy protocol in %s' % ', '.join(protocol))
        else:
            rep.fail('C09.R5', '_util:' + cname, what, '%s stores weakref.ref(...) in %s and neither it nor %s defines __deepcopy__ / __reduce__: copy.deepcopy() of a paragraph '
                     'leaves the back links of the copy pointing at the nodes of the original (deleting or re-ordering a field in the copy changes the key order of the original), '
                     'and pickle.dumps() of a paragraph with two or more fields raises TypeError' % (cname, norm(stores[0].targets[0]), ' / '.join(owners[1:]) or 'its container'),
                     where='%s:%d' % (mod.relpath, stores[0].lineno))
    if n < 1:
        raise AnalysisError('no class with weak references found in _util (the linked list changed?)')
    # a class that keeps one of those containers NEXT TO a table of its own (the key set: a dictionary from key to list node, and the
    # list): the container is rebuilt by its copy protocol with new nodes, a table copied by the default protocol refers to copies
    # of the old ones -- the two halves of the copy no longer belong together (a deletion in the copy unlinks a node of nobody's
    # list; the copy's order still names the key).  Such a class says itself how it is copied.
    PROT = ('__deepcopy__', '__reduce__', '__reduce_ex__', '__getstate__')
    rebuilt = [c2 for c2 in mod.classes if any(mod.method(c2, m_) is not None for m_ in PROT)]          # (defined or inherited from a class of the module)
    n2 = 0
    for cname in sorted(mod.classes):
        init = mod.funcs.get(cname + '.__init__')
        if init is None:
            continue
        inner, tables = [], []
        for st in ast.walk(init.node):
            if isinstance(st, (ast.Assign, ast.AnnAssign)):
                tgt = st.targets[0] if isinstance(st, ast.Assign) else st.target
                v = st.value
                if not (isinstance(tgt, ast.Attribute) and norm(tgt.value) == 'self' and v is not None):
                    continue
                if isinstance(v, ast.Call) and isinstance(v.func, ast.Name) and v.func.id in rebuilt and v.func.id != cname:
                    inner.append((tgt.attr, v.func.id))
                elif isinstance(v, (ast.Dict, ast.List, ast.Set)) or (isinstance(v, ast.Call) and norm(v.func) in ('dict', 'list', 'set')):
                    tables.append(tgt.attr)
        if not inner or not tables:
            continue
        n2 += 1
        what = 'a container kept next to a table of its nodes is copied by a protocol of the owning class'
        if any(mod.method(cname, m_) is not None for m_ in PROT):
            rep.ok('C09.R5', '_util:' + cname, what, '%s (%s next to %s)' % (cname, ', '.join('%s: %s' % x for x in inner), ', '.join(tables)))
        else:
            rep.fail('C09.R5', '_util:' + cname, what, '%s keeps self.%s (a %s, which rebuilds itself with new nodes when it is copied) next to the table self.%s and defines none of '
                     '%s: copy.deepcopy() of a paragraph gives a key set whose table refers to nodes that are not in its list -- deleting a field from the copy leaves the key in '
                     'the copy\'s order (dump() raises KeyError) and may unlink a node of the original' % (cname, inner[0][0], inner[0][1], tables[0], ' / '.join(PROT)),
                     where=init.where)
    if n2 < 1:
        raise AnalysisError('no class that pairs a rebuilt container with a table found in _util (the key set changed?)')
    # the key objects of a paragraph: a class with non-empty __slots__ (and no __dict__) is not reducible by pickle protocols 0 and 1
    # unless it defines __reduce__ / __getstate__ ("a class that defines __slots__ without defining __getstate__ cannot be pickled")
    ci = mod.classes.get('_CaseInsensitiveString')
    if ci is None:
        raise AnalysisError('_util:_CaseInsensitiveString not found')
    slots = [st for st in ci.body if isinstance(st, ast.Assign) and norm(st.targets[0]) == '__slots__' and isinstance(st.value, (ast.List, ast.Tuple)) and st.value.elts]
    what = 'key strings with __slots__ say how they are reduced'
    if not slots or any(mod.method('_CaseInsensitiveString', m_) is not None for m_ in ('__reduce__', '__reduce_ex__', '__getstate__')):
        rep.ok('C09.R5', '_util:_CaseInsensitiveString', what, '__reduce__ / __getstate__ defined' if slots else 'no __slots__')
    else:
        rep.fail('C09.R5', '_util:_CaseInsensitiveString', what, 'the class defines __slots__ %s and neither __reduce__ nor __getstate__: pickle.dumps(paragraph, 0) and '
                 'pickle.dumps(paragraph, 1) raise TypeError (protocols 2 and later work)' % norm(slots[0].value), where='%s:%d' % (mod.relpath, slots[0].lineno))


def r5b_copy_follows_order(rep, src):
    """what a copy / an unpickled set is rebuilt from (the arguments __reduce__ hands to the class) is the keys in their current
    order: OrderedSet operations interpreted on a heap, then __reduce__ interpreted in that heap and its item list compared with
    the list read from the head.  (The hash table keeps the order of first insertion: a re-ordering moves the list node only.)"""
    m = src.mod(UT)
    A, B, C = H.Key('a', 'Alpha'), H.Key('b', 'Beta'), H.Key('c', 'Gamma')
    n = 0
    for cname in ('OrderedSet', 'LinkedList'):
        red = m.funcs.get(cname + '.__reduce__')
        if red is None:
            continue
        rep.saw_func(red)
        for opname, args in ((None, []), ('order_first', [C]), ('order_last', [A]), ('order_before', [C, B]), ('order_after', [A, B])):
            if cname != 'OrderedSet' and opname is not None:
                continue
            heap = new_heap(src)
            oset, lst, table, nodes = build_set(heap, src, [A, B, C])
            it = H.Interp(heap)
            what = '__reduce__ after %s' % ('%s(%s)' % (opname, ', '.join(a.spelling for a in args)) if opname else 'no re-ordering')
            try:
                if opname is not None:
                    op = m.method('OrderedSet', opname)
                    it.call(H.Closure(op.node, {}, oset, op.cls), list(args))
                r = it.call(H.Closure(red.node, {}, oset if cname == 'OrderedSet' else lst, red.cls), [])
            except H.Raised as x:
                rep.fail('C09.R5', red.site, what, 'raises %s (line %d)' % (x.exc, x.lineno), where=red.where)
                continue
            want, _p = set_state(heap, lst, table)
            items = None
            if isinstance(r, tuple) and len(r) >= 2 and isinstance(r[1], tuple) and len(r[1]) == 1:
                try:
                    items = [x.spelling if isinstance(x, H.Key) else x for x in it.seq(r[1][0])]
                except AnalysisError:
                    items = None
            n += 1
            if items is None:
                raise AnalysisError('%s: the reduce value %r is not (class, (items,))' % (red.site, r))
            if items == want:
                rep.ok('C09.R5', red.site, what, 'rebuilt from %s' % items)
            else:
                rep.fail('C09.R5', red.site, what, 'the copy is rebuilt from %s while the keys are in the order %s: copy.deepcopy() / pickle of a paragraph forget the re-ordering'
                         % (items, want), where=red.where)
    return n


def r6_sort_fields(rep, src):
    """Deb822Dict.sort_fields() interpreted on a paragraph whose field names differ in the case of their first letter: without a key
    function the fields are sorted by their lower-cased name (the documented default), not by their spelling -- a plain sort of the
    case-insensitive strings compares the spelling, since the class keeps the ordering of str."""
    dm, um = src.mod('deb822'), src.mod(UT)
    f = dm.method('Deb822Dict', 'sort_fields')
    if f is None:
        raise AnalysisError('deb822:Deb822Dict.sort_fields not found')
    rep.saw_func(f)
    ci = um.classes.get('_CaseInsensitiveString')
    if ci is None:
        raise AnalysisError('_util:_CaseInsensitiveString not found')
    if any(isinstance(st, ast.FunctionDef) and st.name in ('__lt__', '__le__', '__gt__', '__ge__') for st in ci.body):
        raise AnalysisError('_util:_CaseInsensitiveString defines its own ordering (not modelled)')
    names = ['package', 'Version', 'architecture', 'Depends', 'Zeta', 'alpha']
    keys = [H.Key(n_.lower(), n_) for n_ in names]
    for label, args in (('sort_fields()', []), ('sort_fields(None)', [None])):
        heap = H.Heap(dm, field_alias={'_previous_node': 'previous_node'}, extra_modules=[um])
        it = H.Interp(heap)
        oset, lst, table, nodes = build_set(heap, src, keys)
        me = heap.alloc('Deb822Dict', {'_Deb822Dict__keys': oset})
        H.Interp(heap).complete_from_init(me)
        try:
            it.call(H.Closure(f.node, {}, me, f.cls), list(args))
        except H.Raised as x:
            rep.fail('C09.R6', f.site, label, 'raises %s (line %d)' % (x.exc, x.lineno), where=f.where)
            continue
        ks = heap.objs[me.name].get('_Deb822Dict__keys')
        if not isinstance(ks, H.Ref):
            raise AnalysisError('%s: the key set after sorting is %r' % (f.site, ks))
        if heap.objs[ks.name]['__class__'] == 'OrderedSet':
            got = [x.spelling if isinstance(x, H.Key) else x for x in it.seq(ks)]
        else:
            got = [x.spelling if isinstance(x, H.Key) else x for x in it.seq(ks)]
        want = sorted(names, key=str.lower)
        if got == want:
            rep.ok('C09.R6', f.site, label, 'sorted by lower-cased name: %s' % got)
        else:
            rep.fail('C09.R6', f.site, label, 'the fields %s come out as %s; sorted by lower-cased name (the default key) they are %s%s' % (
                names, got, want, ': the sort compares the spelling, upper-case initials first' if got == sorted(names) else ''), where=f.where)


def check(src, rep, tier):
    rep.explanation = ('C09: the methods of LinkedListNode/LinkedList/OrderedSet are interpreted by a heap-shape abstract interpreter on '
                       'symbolic heaps covering every pointer-equality pattern (lists of 0..3 nodes × position of the argument node); after '
                       'each call the list is read back from head and compared with a reference list model (links both ways, head/tail, size, '
                       'detached node).  OrderedSet operations are checked with keys that differ only in case: table/list tandem, first '
                       'spelling kept, KeyError/ValueError raised with an unchanged heap.  AST rules: every Deb822Dict access to its internal '
                       'structures uses _strI(key); hash/eq of the case-insensitive string agree.  (R5) copy protocol; __reduce__ after every '
                       're-ordering hands over the keys in list order.  (R6) sort_fields() without a key sorts by lower-cased name.')
    rep.not_decided = ['equality with the reference model over arbitrary histories (follows by induction, not executed)', 'dump/parse cycles (C02)', 'copy.copy (shallow by definition)']
    rep.need('C09.R1', 6)
    rep.need('C09.R2', 12)
    rep.need('C09.R3', 40)
    rep.need('C09.R4', 9)
    rep.guard('C09.R3', r3_list_shapes, src, tier)
    rep.guard('C09.R2', r2_r4_orderedset, src, tier)
    rep.guard('C09.R1', r1_key_normalisation, src)
    rep.need('C09.R5', 2)
    rep.guard('C09.R5', r5_copy_protocol, src)
    rep.guard('C09.R5', r5b_copy_follows_order, src)
    rep.need('C09.R6', 2)
    rep.guard('C09.R6', r6_sort_fields, src)

"""C19 -- update_file converges to the published content and never corrupts the local file."""
import ast
import importlib.util

from .. import cfg, flow, normalize
from ..core import AnalysisError, norm, walk_no_nested, calls_in, set_parents

META = {
    'design_ref': 'DESIGN.md §5 C19',
    'technique': 'CFG must-pass-through / dominance rules on update_file (both hash comparisons before replace_file, '
                 'non-empty patch list), who-may-call rule for writers of the local file, replace protocol shape, '
                 'exit classification (fall-back or integrity error), definite-assignment and unguarded-unpack audit, '
                 'import-provider resolution for the hash constructors, path rule for malformed index entries; the roles of the locals (content, hash functions, patch table) are inferred from the calls; handler-coverage rule for decode errors of the local copy and the index; byte-faithful-stream rule over every stream constructor on the content path (open, gzip.open, io.TextIOWrapper, gzip.GzipFile ...: binary, or text with the encoding of the hash functions and newline handling that neither translates nor splits at a lone CR); update_file interpreted (sa.heap) on 84 index scenarios with streams, downloads, hashes and patch application as a model in which contents are named by their hashes (history with a recurring content, one malformed entry at every position, missing fields); format-arity rule for the messages of refusals; replace_file interpreted on a model file system (names and files, buffered writes, fsync that does not flush the buffer) with a fault at the first write, the last write, the flush on close and the rename, for a present / absent local file with and without a stale temporary; content read from the local copy or a download is not cut with str.splitlines',
    'level_text': 'Static path rules over every path of update_file/replace_file/download_*: the local file is written only by '
                  'replace_file, which update_file reaches only after the patch-hash and result-hash comparisons; every other exit '
                  'is the up-to-date return, a full download or an integrity error; temporaries are removed in finally; no local is '
                  'possibly unbound and index entries are not unpacked unguarded.  Does not decide patch contents or urllib.',
    'level_note': 'trusted: the CFG builder, the recognised guard idioms (listed in the rule), importlib.util.find_spec for the '
                  'built-in hash modules of the running interpreter',
}

MODN = 'debian_support'
SITE = MODN + ':update_file'
WRITE_CALLS = {'os.rename', 'os.unlink', 'os.remove', 'os.replace', 'shutil.move', 'shutil.copy', 'shutil.copyfile', 'os.truncate'}


def _is_call(node, name):
    return isinstance(node, ast.Call) and norm(node.func) == name


def _calls(g, name):
    out = []
    for n in g.nodes:
        if n.ast is None or n.kind in ('handler', 'finally', 'dispatch', 'join', 'def'):
            continue
        root = n.ast
        if n.kind == 'fortest':
            continue
        for c in (ast.walk(root) if not isinstance(root, (ast.With,)) else ast.walk(root.items[0].context_expr)):
            if _is_call(c, name):
                out.append((n, c))
    return out


def _closure_returning_download(f):
    """names of nested functions whose every return is download_file(remote, local), directly or through another such function"""
    out = set()
    changed = True
    while changed:
        changed = False
        for st in f.node.body:
            if isinstance(st, ast.FunctionDef) and st.name not in out:
                rets = [r for r in ast.walk(st) if isinstance(r, ast.Return)]
                if rets and all(r.value is not None and (_is_download(r.value, f) or (isinstance(r.value, ast.Call) and isinstance(r.value.func, ast.Name)
                                                                                       and r.value.func.id in out)) for r in rets):
                    out.add(st.name)
                    changed = True
    return out


def _is_download(e, f):
    p = f.params()
    return _is_call(e, 'download_file') and [norm(a) for a in e.args] == [p[0], p[1]]


def site_func(src, site=None):
    """the function with its private module-level helpers in place (a helper that reads the local file, say); the local closures
    that end in the full download keep their identity"""
    from .. import normalize
    from ..core import Func
    f = src.func(site or SITE)
    node, _inl = normalize.inline_helpers(f, depth=2, skip=tuple(_closure_returning_download(f)) if (site or SITE) == SITE else ())
    set_parents(node)
    return Func(f.module, node, f.qual, f.cls)


def r1_verify_before_replace(rep, src):
    f = src.func(SITE)
    rep.saw_func(f)
    # private module-level helpers (e.g. "download one patch and verify it") are inlined; the local closures that end in the full
    # download keep their identity (they are the recognised fall-back exits)
    from .. import normalize
    fnode, _inl = normalize.inline_helpers(f, depth=2, skip=tuple(_closure_returning_download(f)))
    set_parents(fnode)
    g = cfg.CFG(fnode)
    reps = _calls(g, 'replace_file')
    if len(reps) != 1:
        raise AnalysisError('%s: expected exactly one replace_file call, found %d' % (f.site, len(reps)))
    rn, rc = reps[0]
    p = f.params()
    if len(rc.args) < 2 or not isinstance(rc.args[0], ast.Name) or norm(rc.args[1]) != p[1]:
        rep.fail('C19.R1', f.site, 'replace_file arguments', 'replace_file is called with %s, not (<patched lines>, %s)' % (norm(rc), p[1]),
                 where='%s:%d' % (f.module.relpath, rc.lineno))
        return g
    content = rc.args[0].id          # role: the list of lines that is patched and written
    hashfns = _hash_functions(src, f)
    # --- result-hash guard
    tests = [n for n in g.nodes if n.kind == 'test']

    def raise_side(t):
        """polarity whose successor is (directly) a raise"""
        for d, lab in g.succ[t.id]:
            if g.nodes[d].kind == 'raise':
                return lab
        return None
    final = []
    def hash_of(e):
        """(node that computes it, hashed argument) when e is H(x) for a hash function H, directly or through a local bound once"""
        if isinstance(e, ast.Call) and norm(e.func) in hashfns and len(e.args) == 1:
            return e
        return None
    single_defs = {}
    for n in g.stmts():
        if n.kind == 'stmt' and isinstance(n.ast, ast.Assign) and len(n.ast.targets) == 1 and isinstance(n.ast.targets[0], ast.Name):
            single_defs.setdefault(n.ast.targets[0].id, []).append(n)
    for t in tests:
        if isinstance(t.ast, ast.Compare) and len(t.ast.ops) == 1 and isinstance(t.ast.ops[0], (ast.NotEq, ast.Eq)) and raise_side(t) is not None:
            for side in (t.ast.left, t.ast.comparators[0]):
                hc = hash_of(side)
                if hc is None and isinstance(side, ast.Name) and len(single_defs.get(side.id, [])) == 1:
                    hc = hash_of(single_defs[side.id][0].ast.value)
                if hc is not None and norm(hc.args[0]) == content:
                    final.append((t, side))
    ok = False
    why = 'no comparison of the patched result with the published hash guards replace_file'
    for t, other in final:
        rs = raise_side(t)
        neq = isinstance(t.ast.ops[0], ast.NotEq)
        if (neq and rs is not True) or (not neq and rs is not False):
            why = 'the result-hash comparison raises on the wrong outcome'
            continue
        if not g.dominates(t.id, rn.id):
            why = 'a path reaches replace_file without passing the result-hash comparison: ' + \
                  g.describe_path(g.find_path(g.entry.id, rn.id, avoid=[t.id]) or [])
            continue
        # `other` must be the hash of `lines`, computed after the last mutation of lines
        hv = None
        if isinstance(other, ast.Name):
            defs = [n for n in g.stmts() if n.kind == 'stmt' and isinstance(n.ast, ast.Assign) and norm(n.ast.targets[0]) == other.id]
            if len(defs) == 1:
                hv = defs[0]
                hcall = defs[0].ast.value
        elif isinstance(other, ast.Call):
            hv, hcall = t, other
        if hv is None or not (isinstance(hcall, ast.Call) and [norm(a) for a in hcall.args] == [content] and norm(hcall.func) in hashfns):
            why = 'the value compared with remote_hash is not the hash of the patched lines'
            continue
        muts = [n for n, c in _calls(g, 'patch_lines')] + \
               [n for n in g.stmts() if n.kind == 'stmt' and isinstance(n.ast, (ast.Assign, ast.AugAssign))
                and any(norm(x) == content or (isinstance(x, ast.Subscript) and norm(x.value) == content)
                        for x in (n.ast.targets if isinstance(n.ast, ast.Assign) else [n.ast.target]))]
        late = [m for m in muts if g.exists_path(hv.id, m.id) and g.exists_path(m.id, rn.id)]
        if late:
            why = 'the lines are modified (line %d) after their hash was taken and before they are written' % late[0].lineno
            continue
        if not g.dominates(hv.id, t.id):
            why = 'the result hash is not computed on every path to the comparison'
            continue
        ok = True
        break
    if ok:
        rep.ok('C19.R1', f.site, 'result hash checked before replace', '`%s` (raise otherwise) dominates replace_file; hash taken after the last patch' % norm(t.ast))
    else:
        rep.fail('C19.R1', f.site, 'result hash checked before replace', why, where='%s:%d' % (f.module.relpath, rc.lineno))
    # --- per-patch hash guard
    pls = _calls(g, 'patch_lines')
    if len(pls) != 1:
        raise AnalysisError('%s: expected exactly one patch_lines call' % f.site)
    pn, pc = pls[0]
    guard = None
    ploop = _enclosing_loop(pn)
    for t in tests:
        if isinstance(t.ast, ast.Compare) and len(t.ast.ops) == 1 and isinstance(t.ast.ops[0], (ast.NotEq, ast.Eq)) and raise_side(t) is not None \
                and ploop is not None and any(x is t.ast for x in ast.walk(ploop)) \
                and any(hash_of(s_) is not None for s_ in (t.ast.left, t.ast.comparators[0])):
            guard = t
    okp = False
    whyp = 'no comparison of the downloaded patch with its hash in the index guards patch_lines'
    if guard is not None:
        rs = raise_side(guard)
        neq = isinstance(guard.ast.ops[0], ast.NotEq)
        sides = [guard.ast.left, guard.ast.comparators[0]]
        hashed = [s for s in sides if hash_of(s) is not None]
        def deref(e_):
            if isinstance(e_, ast.Name) and len(single_defs.get(e_.id, [])) == 1:
                return single_defs[e_.id][0].ast.value
            return e_
        entry = [deref(s) for s in sides if isinstance(deref(s), ast.Subscript) and isinstance(deref(s).value, ast.Name)]
        if (neq and rs is not True) or (not neq and rs is not False):
            whyp = 'the patch-hash comparison raises on the wrong outcome'
        elif not g.dominates(guard.id, pn.id) or g.exists_path([d for d, l in g.succ[guard.id] if l == rs][0], pn.id, avoid=[guard.id]) and False:
            whyp = 'a path applies a patch without passing its hash comparison'
        elif not hashed or not entry:
            whyp = 'the comparison is not between the hash of the downloaded patch and patch_hashes[...]'
        else:
            hv = norm(hashed[0].args[0])
            # what is applied must be the hashed data (or a list() copy of it)
            applied = None
            for c in ast.walk(pc):
                if _is_call(c, 'patches_from_ed_script') and c.args:
                    a_ = c.args[0]
                    while isinstance(a_, ast.Call) and norm(a_.func) in ('list', 'tuple', 'iter') and len(a_.args) == 1:
                        a_ = a_.args[0]      # a copy of the hashed data is the same data
                    applied = norm(a_)
            derived = {hv}
            for n in g.stmts():
                if n.kind == 'stmt' and isinstance(n.ast, ast.Assign) and isinstance(n.ast.targets[0], ast.Name):
                    v = n.ast.value
                    if norm(v) in derived or (isinstance(v, ast.Call) and norm(v.func) in ('list', 'tuple') and v.args and norm(v.args[0]) in derived):
                        derived.add(n.ast.targets[0].id)
            key_ok = norm(entry[0].slice) == _loopvar(g, pn)
            if applied not in derived:
                whyp = 'the patch that is applied (%s) is not the data whose hash was compared (%s)' % (applied, hv)
            elif not key_ok:
                whyp = 'the hash is looked up under %s, not under the name of the patch being applied' % norm(entry[0].slice)
            else:
                okp = True
    if okp:
        rep.ok('C19.R1', f.site, 'patch hash checked before applying', '`%s` (raise otherwise) dominates patch_lines on the same data' % norm(guard.ast))
    else:
        rep.fail('C19.R1', f.site, 'patch hash checked before applying', whyp, where='%s:%d' % (f.module.relpath, pc.lineno))
    # --- the patch loop is not empty on the path to replace_file
    todo = norm(ploop.iter) if ploop is not None else None     # role: the list of patches to apply
    empt = [t for t in tests if todo is not None and norm(t.ast) in ('not %s' % todo, 'len(%s) == 0' % todo, '%s == []' % todo, 'not len(%s)' % todo, 'len(%s) < 1' % todo)]
    ok3 = False
    for t in empt:
        succs = [d for d, lab in g.succ[t.id] if lab is True]
        if succs and g.dominates(t.id, rn.id) and not g.exists_path(succs[0], rn.id, avoid=[t.id]):
            ok3 = True
    if ok3:
        rep.ok('C19.R1', f.site, 'no replace without patches', 'empty patch list leaves before replace_file')
    else:
        rep.fail('C19.R1', f.site, 'no replace without patches', 'replace_file can be reached with nothing to apply (unknown local version not sent to a full download)',
                 where='%s:%d' % (f.module.relpath, rc.lineno))
    # --- the lines handed back are the lines that were verified and written
    rets = [n for n in g.nodes if n.kind == 'return' and n.ast is not None and g.exists_path(rn.id, n.id)]
    wrong = [n for n in rets if n.ast.value is None or norm(n.ast.value) != content]
    if not rets:
        raise AnalysisError('%s: no return after replace_file' % f.site)
    if wrong:
        rep.fail('C19.R1', f.site, 'returned lines are the written lines', 'after replace_file(%s, ...) the function returns `%s`, not the lines that were verified and written'
                 % (content, norm(wrong[0].ast.value) if wrong[0].ast.value is not None else 'None'), where='%s:%d' % (f.module.relpath, wrong[0].lineno))
    else:
        rep.ok('C19.R1', f.site, 'returned lines are the written lines', 'return %s after replace_file(%s, ...)' % (content, content), nontrivial=False)
    rep.analysed['paths'] += len(tests)
    remote = None
    for t, side in final:
        o_ = t.ast.comparators[0] if side is t.ast.left else t.ast.left
        if isinstance(o_, ast.Name):
            remote = o_.id
    table = None
    if guard is not None:
        for s_ in (guard.ast.left, guard.ast.comparators[0]):
            if isinstance(s_, ast.Subscript) and isinstance(s_.value, ast.Name):
                table = s_.value.id
    g.roles = dict(content=content, remote=remote, table=table, hashfns=hashfns, single_defs=single_defs, todo=todo)
    return g


def _enclosing_loop(node):
    n = node.ast
    while n is not None:
        n = getattr(n, '_parent', None)
        if isinstance(n, ast.For):
            return n
    return None


def _hash_functions(src, f):
    """names callable in update_file that compute the hash of a list of lines: module functions whose result (helpers inlined)
    is <hash object>.hexdigest(), and locals of update_file that are only ever bound to such functions"""
    from .. import normalize
    m = f.module
    out = set()
    for q, fn in m.funcs.items():
        if '.' in q:
            continue
        node, _ = normalize.inline_helpers(fn, depth=2)
        rets = [r for r in ast.walk(node) if isinstance(r, ast.Return) and r.value is not None]
        if rets and all(isinstance(r.value, ast.Call) and isinstance(r.value.func, ast.Attribute) and r.value.func.attr == 'hexdigest' for r in rets):
            out.add(q)
    binds = {}
    for st in ast.walk(f.node):
        if isinstance(st, ast.Assign):
            for t in st.targets:
                if isinstance(t, ast.Name):
                    binds.setdefault(t.id, []).append(st.value)
    for nm, vals in binds.items():
        if vals and all(isinstance(v, ast.Name) and v.id in out for v in vals):
            out.add(nm)
    if not out:
        raise AnalysisError('%s: no hash function of line lists found' % f.site)
    return out


def _loopvar(g, node):
    n = node.ast
    while n is not None:
        n = getattr(n, '_parent', None)
        if isinstance(n, ast.For):
            return norm(n.target)
    return None


def r2_single_writer(rep, src):
    m = src.mod(MODN)
    control = 0
    for fn in m.funcs.values():
        if '.' in fn.qual and fn.qual.split('.')[0] in m.funcs:
            continue
        # taint: names derived from a parameter called local / from `local`
        derived = {'local'} if 'local' in fn.params() else set()
        if not derived:
            continue
        for _round in (1, 2):
            for st in ast.walk(fn.node):
                if isinstance(st, ast.Assign) and isinstance(st.targets[0], ast.Name):
                    if any(isinstance(x, ast.Name) and x.id in derived for x in ast.walk(st.value)):
                        derived.add(st.targets[0].id)
                if isinstance(st, ast.With):
                    # with helper(local + '.new') as name: what the context manager hands out is derived from what it was given
                    for it_ in st.items:
                        if isinstance(it_.optional_vars, ast.Name) and any(isinstance(x, ast.Name) and x.id in derived for x in ast.walk(it_.context_expr)):
                            derived.add(it_.optional_vars.id)
        for c in calls_in(fn.node):
            nm = norm(c.func)
            args = [a for a in c.args] + [k.value for k in c.keywords]
            touches = any(isinstance(x, ast.Name) and x.id in derived for a in args for x in ast.walk(a))
            writer = False
            if nm in WRITE_CALLS and touches:
                writer = True
            if nm == 'open' and touches:
                mode = c.args[1] if len(c.args) > 1 else next((k.value for k in c.keywords if k.arg == 'mode'), None)
                if mode is not None and not (isinstance(mode, ast.Constant) and set(mode.value) <= set('rbtU')):
                    writer = True
            if not writer:
                continue
            if fn.site == MODN + ':replace_file':
                control += 1
                continue
            rep.fail('C19.R2', fn.site, 'writer ' + norm(c)[:50], 'the local file (or a name derived from it) is written outside replace_file: %s' % norm(c)[:70],
                     where='%s:%d' % (fn.module.relpath, c.lineno))
    if control < 2:
        raise AnalysisError('positive control failed: replace_file should contain the open-for-write and the rename')
    rep.ok('C19.R2', MODN, 'only replace_file writes the local file', '%d writer call sites, all inside replace_file' % control)
    # update_file passes `local` only to open(read), download_file, replace_file
    f = site_func(src)
    local = f.params()[1]
    bad = []
    for c in calls_in(f.node):
        if any(isinstance(x, ast.Name) and x.id == local for a in list(c.args) + [k.value for k in c.keywords] for x in ast.walk(a)):
            nm = norm(c.func)
            if nm not in ('open', 'download_file', 'replace_file', 'print'):
                bad.append(norm(c))
    if bad:
        rep.fail('C19.R2', f.site, 'uses of the local path', 'the local path is handed to %s' % bad[0][:60], where=f.where)
    else:
        rep.ok('C19.R2', f.site, 'uses of the local path', 'open(read) / download_file / replace_file only')
    # download_file = download then replace
    d = src.func(MODN + ':download_file')
    rep.saw_func(d)
    gd = cfg.CFG(d.node)
    dl = _calls(gd, 'download_gunzip_lines')
    rp = _calls(gd, 'replace_file')
    got = None
    if len(dl) == 1 and isinstance(dl[0][0].ast, ast.Assign) and dl[0][0].ast.value is dl[0][1] and isinstance(dl[0][0].ast.targets[0], ast.Name):
        got = dl[0][0].ast.targets[0].id       # the downloaded lines
    rebound = [n for n in gd.stmts() if n.kind == 'stmt' and isinstance(n.ast, (ast.Assign, ast.AugAssign)) and n is not (dl[0][0] if dl else None)
               and any(isinstance(x, ast.Name) and x.id == got for t_ in (n.ast.targets if isinstance(n.ast, ast.Assign) else [n.ast.target]) for x in ast.walk(t_))]
    rets_d = [n for n in gd.nodes if n.kind == 'return' and n.ast is not None]
    if got is not None and not rebound and len(rp) == 1 and gd.dominates(dl[0][0].id, rp[0][0].id) and [norm(a) for a in rp[0][1].args][:2] == [got, d.params()[1]] \
            and rets_d and all(n.ast.value is not None and norm(n.ast.value) == got and gd.dominates(rp[0][0].id, n.id) for n in rets_d):
        rep.ok('C19.R2', d.site, 'full download replaces through replace_file', 'lines = download_gunzip_lines(...) → replace_file(lines, local) → return lines')
    else:
        rep.fail('C19.R2', d.site, 'full download replaces through replace_file', 'download_file does not write the downloaded lines through replace_file and return them', where=d.where)


def _folds_to_str(mod, e):
    try:
        v = mod.fold(e, '')
    except Exception:      # pylint: disable=broad-except
        return False
    return isinstance(v, str) and v != ''


def r3_replace_protocol(rep, src):
    f = src.func(MODN + ':replace_file')
    rep.saw_func(f)
    local = f.params()[1]
    tmp = None
    for st in f.node.body:
        if isinstance(st, ast.Assign) and isinstance(st.targets[0], ast.Name) and isinstance(st.value, ast.BinOp) \
                and isinstance(st.value.op, ast.Add) and norm(st.value.left) == local and _folds_to_str(f.module, st.value.right):
            tmp = st.targets[0].id
    if tmp is None:
        raise AnalysisError('%s: no temporary name derived from the target path' % f.site)
    tries = [s for s in f.node.body if isinstance(s, ast.Try)]
    if len(tries) != 1 or not tries[0].finalbody:
        rep.fail('C19.R3', f.site, 'temporary removed on every exit', 'no try/finally around the write', where=f.where)
        return
    t = tries[0]
    withs = [s for s in t.body if isinstance(s, ast.With)]
    opens = [w for w in withs if _is_call(w.items[0].context_expr, 'open') and norm(w.items[0].context_expr.args[0]) == tmp]
    if not opens:
        rep.fail('C19.R3', f.site, 'write goes to the temporary', 'the new content is not written to %s' % tmp, where=f.where)
    else:
        rep.ok('C19.R3', f.site, 'write goes to the temporary', norm(opens[0].items[0].context_expr)[:60], nontrivial=False)
    ren = [(s, c) for s in t.body for c in ast.walk(s) if _is_call(c, 'os.rename') or _is_call(c, 'os.replace')]
    if len(ren) == 1 and [norm(a) for a in ren[0][1].args] == [tmp, local] and ren[0][0] not in withs and opens \
            and t.body.index(ren[0][0]) > t.body.index(opens[0]):
        rep.ok('C19.R3', f.site, 'rename after the file is closed', 'os.rename(%s, %s) follows the with block' % (tmp, local))
    else:
        rep.fail('C19.R3', f.site, 'rename after the file is closed',
                 'the temporary is not renamed onto the target after the with block has closed it (rename inside the block, wrong arguments or missing)',
                 where=f.where)
    # the target itself is touched by nothing but that rename: any other writer of the target path (unlink before the rename, open
    # for writing, truncate ...) destroys the old content before the new one is in place
    others = []
    for c in calls_in(f.node):
        nm = norm(c.func)
        args = list(c.args) + [k.value for k in c.keywords]
        on_target = any(isinstance(x, ast.Name) and x.id == local for a_ in args for x in ast.walk(a_)) \
            and not any(isinstance(x, ast.Name) and x.id == tmp for a_ in args[:1] for x in ast.walk(a_))
        if not on_target:
            continue
        if nm in WRITE_CALLS and not (ren and c is ren[0][1]):
            others.append(c)
        if nm == 'open':
            mode = c.args[1] if len(c.args) > 1 else next((k.value for k in c.keywords if k.arg == 'mode'), None)
            if mode is not None and not (isinstance(mode, ast.Constant) and set(mode.value) <= set('rbtU')) and norm(c.args[0]) == local:
                others.append(c)
    if others:
        rep.fail('C19.R3', f.site, 'the target is only replaced by the rename', 'the target path is also written by %s: if the following step fails the old local file is '
                 'already gone or damaged' % norm(others[0])[:60], where='%s:%d' % (f.module.relpath, others[0].lineno))
    else:
        rep.ok('C19.R3', f.site, 'the target is only replaced by the rename', 'no other writer of the target path in replace_file')
    # all writes of lines happen before the rename; nothing else between
    unl = [c for s in t.finalbody for c in ast.walk(s) if (_is_call(c, 'os.unlink') or _is_call(c, 'os.remove')) and norm(c.args[0]) == tmp]
    if unl:
        rep.ok('C19.R3', f.site, 'temporary removed on every exit', 'finally: unlink(%s)' % tmp)
    else:
        rep.fail('C19.R3', f.site, 'temporary removed on every exit', 'the finally block does not remove %s' % tmp, where=f.where)
    if t.handlers and any(not any(isinstance(x, ast.Raise) for x in ast.walk(h)) for h in t.handlers):
        rep.fail('C19.R3', f.site, 'write errors propagate', 'an except clause swallows write/rename errors', where=f.where)
    else:
        rep.ok('C19.R3', f.site, 'write errors propagate', 'no swallowing handler', nontrivial=False)


def r9b_content_lines(rep, src):
    """str.splitlines() also ends a line at a form feed, a lone CR, VT, FS / GS / RS, NEL, U+2028 and U+2029.  Where the text that was
    read from the local copy or from a download (an expression that contains .read() / .decode(), directly or through locals of the
    function) is cut with it, a copy with such a character inside a line has more lines than the repository counted: the patches land on
    the wrong lines and update_file fails on every run although nothing is corrupted.  (The entries of an index FIELD are whitespace-free
    tokens on lines of their own: cutting a field value with splitlines() is not judged here.)"""
    mod = src.mod(MODN)
    n = 0
    for q in ('update_file', 'download_gunzip_lines', '_download_gunzip', 'download_file'):
        f = mod.funcs.get(q)
        if f is None:
            continue
        rep.saw_func(f)
        n += 1
        binds = {}
        for st in ast.walk(f.node):
            if isinstance(st, ast.Assign) and len(st.targets) == 1 and isinstance(st.targets[0], ast.Name):
                binds.setdefault(st.targets[0].id, []).append(st.value)

        def from_content(e, depth=0):
            for x in ast.walk(e):
                if isinstance(x, ast.Call) and isinstance(x.func, ast.Attribute) and x.func.attr in ('read', 'decode', 'getvalue'):
                    return True
                if isinstance(x, ast.Name) and depth < 3 and any(from_content(v, depth + 1) for v in binds.get(x.id, [])):
                    return True
            return False
        bad = [c for c in ast.walk(f.node) if isinstance(c, ast.Call) and isinstance(c.func, ast.Attribute) and c.func.attr == 'splitlines' and from_content(c.func.value)
               and not any(isinstance(x, ast.Call) and isinstance(x.func, ast.Attribute) and x.func.attr == 'decode' for x in ast.walk(c.func.value)) is False]
        bad = [c for c in bad if any(isinstance(x, ast.Call) and isinstance(x.func, ast.Attribute) and x.func.attr == 'decode' for x in ast.walk(c.func.value))
               or any(isinstance(x, ast.Name) and any(from_content(v) and any(isinstance(y, ast.Call) and isinstance(y.func, ast.Attribute) and y.func.attr == 'decode' for y in ast.walk(v))
                                                      for v in binds.get(x.id, [])) for x in ast.walk(c.func.value))]
        what = 'content read from the local copy / a download is not cut into lines with str.splitlines()'
        if bad:
            rep.fail('C19.R9', f.site, what, '`%s` cuts decoded text at a form feed, a lone CR, NEL, U+2028 ... as well: a copy with such a character inside a line has more lines '
                     'than the repository counted, the patches land on the wrong lines, and update_file fails on every run although nothing is corrupted' % norm(bad[0])[:80],
                     where='%s:%d' % (mod.relpath, bad[0].lineno))
        else:
            rep.ok('C19.R9', f.site, what, 'no str.splitlines() on decoded content', nontrivial=False)
    if n < 2:
        raise AnalysisError('%s: update_file / download_gunzip_lines not found' % MODN)


def r10_replace_by_interpretation(rep, src):
    """replace_file interpreted (sa.heap) on a model file system -- open / write / writelines / flush / close (a text file is buffered:
    what is written reaches the file when the buffer is flushed or the file is closed, and THAT is where a full disk is reported),
    os.rename / os.replace, os.unlink / os.remove, os.path.exists, os.fsync (which does not flush Python's buffer) -- with the local
    file present or absent, with and without a stale temporary, and with a fault injected at the first / the last write, at the flush
    on close, and at the rename.  Without a fault the local file holds exactly the new lines; with one, the error leaves the function,
    the local file is as it was, and in both cases no other file remains."""
    from .. import heap as H
    mod = src.mod(MODN)
    f = src.func(MODN + ':replace_file')
    rep.saw_func(f)
    LINES = ['first\n', 'second\n', 'third']
    NEW = ''.join(LINES)
    n, bad = 0, None
    for before in ({'/d/local': 'OLD\n'}, {}, {'/d/local': 'OLD\n', '/d/local.new': 'stale'}):
        for fault in (None, 'write 1', 'write 3', 'flush', 'rename'):
            # (names and files: a rename moves the name, an open file keeps writing to the file it was opened on)
            data = {k_ + '#0': v_ for k_, v_ in before.items()}
            names = {k_: k_ + '#0' for k_ in before}
            state = {'writes': 0, 'files': 0}

            def view():
                return {k_: data[v_] for k_, v_ in names.items()}

            def create(path):
                state['files'] += 1
                names[path] = '%s#%d' % (path, state['files'])
                data[names[path]] = ''

            def h_open(it, a, k):
                path = a[0]
                mode = a[1] if len(a) > 1 else k.get('mode', 'r')
                if not isinstance(path, str) or not isinstance(mode, str):
                    raise AnalysisError('replace_file opens %r with mode %r' % (path, mode))
                if 'r' in mode and '+' not in mode:
                    if path not in names:
                        raise H.Raised('FileNotFoundError', it.h.version, 0)
                elif 'w' in mode:
                    if path in names:
                        data[names[path]] = ''
                    else:
                        create(path)
                elif 'x' in mode:
                    if path in names:
                        raise H.Raised('FileExistsError', it.h.version, 0)
                    create(path)
                elif 'a' in mode and path not in names:
                    create(path)
                return it.h.alloc('File', {'file': names[path], 'mode': mode, 'buf': '', 'closed': False})

            def flush(it, o):
                if o['buf']:
                    if fault == 'flush':
                        o['buf'] = ''
                        raise H.Raised('OSError', it.h.version, 0)          # no space left on device
                    data[o['file']] += o['buf']
                    o['buf'] = ''

            def h_write(it, a, k):
                o = it.h.objs[a[0].name]
                if o['closed']:
                    raise H.Raised('ValueError', it.h.version, 0)
                text = a[1].concrete() if hasattr(a[1], 'concrete') else a[1]
                if not isinstance(text, str):
                    raise H.Raised('TypeError', it.h.version, 0)
                state['writes'] += 1
                if fault == 'write %d' % state['writes']:
                    raise H.Raised('OSError', it.h.version, 0)
                o['buf'] += text
                return len(text)

            def h_writelines(it, a, k):
                for x_ in it.walk(a[1]):
                    h_write(it, [a[0], x_], {})

            def h_close(it, a, k):
                o = it.h.objs[a[0].name]
                if not o['closed']:
                    o['closed'] = True          # (a file whose flush fails on close is closed nevertheless)
                    flush(it, o)

            def h_rename(it, a, k):
                if fault == 'rename':
                    raise H.Raised('OSError', it.h.version, 0)
                if a[0] not in names:
                    raise H.Raised('FileNotFoundError', it.h.version, 0)
                names[a[1]] = names.pop(a[0])

            def h_unlink(it, a, k):
                if a[0] not in names:
                    raise H.Raised('FileNotFoundError', it.h.version, 0)
                del names[a[0]]
            heap = H.Heap(mod, hooks={'open': h_open, 'io.open': h_open, '.write': h_write, '.writelines': h_writelines, '.close': h_close,
                                      '.flush': lambda it, a, k: flush(it, it.h.objs[a[0].name]), '.fileno': lambda it, a, k: 3,
                                      'os.fsync': lambda it, a, k: None, 'os.rename': h_rename, 'os.replace': h_rename, 'os.unlink': h_unlink, 'os.remove': h_unlink,
                                      'os.path.exists': lambda it, a, k: a[0] in names, 'os.path.isfile': lambda it, a, k: a[0] in names,
                                      'os.path.lexists': lambda it, a, k: a[0] in names})
            it = H.Interp(heap)
            n += 1
            label = 'the local file %s%s, %s' % ('present' if '/d/local' in before else 'absent', ' (and a stale temporary)' if len(before) == 2 else '',
                                                'no fault' if fault is None else 'a fault at %s' % {'write 1': 'the first write', 'write 3': 'the last write', 'flush': 'the flush when the new file is closed (disk full)',
                                                                                                    'rename': 'the rename'}[fault])
            try:
                it.call(H.Closure(f.node, {}, None, None), [heap.new_list(list(LINES)), '/d/local'])
                exc = None
            except H.Raised as x:
                exc = x.exc
            fs = view()
            if fault is None:
                want = {'/d/local': NEW}
                if exc is not None:
                    bad = bad or '%s: raises %s' % (label, exc)
                elif fs != want:
                    bad = bad or '%s: afterwards the files are %r; the local file must hold the new lines %r and nothing else may remain' % (label, fs, NEW)
            else:
                want = {k_: v_ for k_, v_ in before.items() if k_ == '/d/local'}
                if exc is None:
                    bad = bad or '%s: the function returns as if the content had been written (files afterwards: %r)' % (label, fs)
                elif fs != want:
                    bad = bad or ('%s: the error (%s) leaves the files %r; the local file must be as it was (%r) with no temporary remaining' % (
                        label, exc, fs, want.get('/d/local', 'absent')))
    rep.analysed['paths'] += n
    what = 'the new content replaces the local file completely or not at all, and no temporary remains (interpreted on a model file system)'
    if bad:
        rep.fail('C19.R3', f.site, what, bad, where=f.where)
    else:
        rep.ok('C19.R3', f.site, what, '%d combinations of local state and fault' % n)


def r4_fallbacks(rep, src, g):
    f = site_func(src)
    closures = _closure_returning_download(f)
    roles = getattr(g, 'roles', None) or {}
    content, remote, table = roles.get('content') or 'lines', roles.get('remote') or 'remote_hash', roles.get('table') or 'patch_hashes'
    hashfns, single_defs = roles.get('hashfns') or set(), roles.get('single_defs') or {}

    def is_content_hash(e):
        """e is H(content), directly or through a local bound once to it"""
        if isinstance(e, ast.Call) and norm(e.func) in hashfns and [norm(a_) for a_ in e.args] == [content]:
            return True
        if isinstance(e, ast.Name) and single_defs.get(e.id):
            # every binding of the name is the hash of the content (one per hash algorithm)
            return all(isinstance(d_.ast.value, ast.Call) and is_content_hash(d_.ast.value) for d_ in single_defs[e.id])
        return isinstance(e, ast.Name) and e.id == 'local_hash' and not hashfns
    # classify returns
    rn = _calls(g, 'replace_file')[0][0]
    n_ret = 0
    for n in g.nodes:
        if n.kind != 'return' or n.ast.value is None:
            continue
        # returns of nested closures are not part of this CFG
        v = n.ast.value
        n_ret += 1
        if _is_download(v, f) or (isinstance(v, ast.Call) and isinstance(v.func, ast.Name) and v.func.id in closures):
            rep.ok('C19.R4', f.site, 'exit `%s`' % norm(n.ast)[:50], 'full download', nontrivial=False)
            continue
        if norm(v) == content:
            if g.dominates(rn.id, n.id):
                rep.ok('C19.R4', f.site, 'exit `return lines` after replace_file', 'verified tail', nontrivial=False)
                continue
            # up-to-date return: dominated by local_hash == remote_hash
            doms = [t for t in g.nodes if t.kind == 'test' and g.dominates(t.id, n.id) and isinstance(t.ast, ast.Compare) and len(t.ast.ops) == 1
                    and isinstance(t.ast.ops[0], ast.Eq)
                    and ((norm(t.ast.left) == remote and is_content_hash(t.ast.comparators[0])) or (norm(t.ast.comparators[0]) == remote and is_content_hash(t.ast.left)))]
            reach_true = [t for t in doms if any(lab is True and (d == n.id or g.exists_path(d, n.id, avoid=[t.id])) for d, lab in g.succ[t.id])
                          and not any(lab is False and (d == n.id or g.exists_path(d, n.id, avoid=[t.id])) for d, lab in g.succ[t.id])]
            if reach_true:
                rep.ok('C19.R4', f.site, 'exit `return lines` when up to date', 'guarded by hash(local content) == published hash')
                continue
        rep.fail('C19.R4', f.site, 'exit `%s`' % norm(n.ast)[:50],
                 'this exit is neither the up-to-date return, the verified result, nor a full download', where='%s:%d' % (f.module.relpath, n.lineno))
    if n_ret < 5:
        raise AnalysisError('%s: only %d return statements classified' % (f.site, n_ret))
    for n in g.nodes:
        if n.kind != 'raise':
            continue
        pt = [p for p, lab in g.pred[n.id] if g.nodes[p].kind == 'test']
        txt = ' '.join(norm(g.nodes[p].ast) for p in pt)
        hashed = any(isinstance(c_, ast.Call) and norm(c_.func) in hashfns for p in pt for c_ in ast.walk(g.nodes[p].ast))
        if pt and (remote in txt or table in txt or hashed):
            rep.ok('C19.R4', f.site, 'raise `%s`' % norm(n.ast)[:40], 'integrity error', nontrivial=False)
        else:
            rep.fail('C19.R4', f.site, 'raise `%s`' % norm(n.ast)[:40], 'an error other than a hash mismatch is raised instead of falling back to a full download',
                     where='%s:%d' % (f.module.relpath, n.lineno))
    # handlers of the index download
    idx_try = [t for t in walk_no_nested(f.node) if isinstance(t, ast.Try) and any(_is_call(c, 'PackageFile') for s in t.body for c in ast.walk(s))]
    if len(idx_try) != 1:
        raise AnalysisError('%s: index download try-block not found' % f.site)
    HIER = {'IOError': {'IOError', 'OSError', 'EnvironmentError', 'Exception', 'BaseException'}, 'ParseError': {'ParseError', 'Exception', 'BaseException'},
            'UnicodeDecodeError': {'UnicodeDecodeError', 'UnicodeError', 'ValueError', 'Exception', 'BaseException'},
            'ValueError': {'ValueError', 'Exception', 'BaseException'}}

    def handler_names(h):
        if h.type is None:
            return {'BaseException'}
        return {norm(x).split('.')[-1] for x in (h.type.elts if isinstance(h.type, ast.Tuple) else [h.type])}

    def falls_back(h, t=None):
        if any(isinstance(s, ast.Return) and s.value is not None and (_is_download(s.value, f) or (isinstance(s.value, ast.Call) and norm(s.value.func) in closures))
               for s in h.body):
            return True
        # the handler leaves a loop (break) or falls out of the try: on the flow graph, every path from the handler reaches
        # `return download_file(...)` and passes nothing but prints, tests of the verbose flag and jumps on the way
        try:
            g2 = cfg.CFG(f.node)
            hn = [n_ for n_ in g2.nodes if n_.kind == 'handler' and n_.ast is h]
            if hn:
                seen, todo, ok_all = set(), [hn[0].id], True
                while todo and ok_all:
                    cur = todo.pop()
                    if cur in seen:
                        continue
                    seen.add(cur)
                    nd = g2.nodes[cur]
                    if nd.kind == 'return':
                        v_ = nd.ast.value if nd.ast is not None else None
                        if v_ is None or not (_is_download(v_, f) or (isinstance(v_, ast.Call) and norm(v_.func) in closures)):
                            ok_all = False
                        continue
                    if nd.kind in ('exit', 'raise_exit', 'raise'):
                        ok_all = False
                        continue
                    if nd.kind == 'stmt' and not (isinstance(nd.ast, ast.Pass) or (isinstance(nd.ast, ast.Expr) and isinstance(nd.ast.value, ast.Call)
                                                                                   and norm(nd.ast.value.func) == 'print')):
                        ok_all = False
                        continue
                    if nd.kind == 'test' and not ({n_.id for n_ in ast.walk(nd.ast) if isinstance(n_, ast.Name)} <= {'verbose'}):
                        ok_all = False
                        continue
                    if nd.kind == 'fortest':
                        ok_all = False          # back into a loop: more patches would be applied
                        continue
                    todo.extend(d_ for d_, _lab in g2.succ[cur])
                if ok_all and len(seen) > 1:
                    return True
        except AnalysisError:
            pass
        # the handler only marks the failure (`lines = None`) and the statements after the try turn the mark into the full download:
        # every path from the handler reaches `return download_file(...)` before it does anything else than print
        if t is None or t not in f.node.body:
            return False
        from .. import paths as P_
        rest = f.node.body[f.node.body.index(t) + 1:]
        try:
            ps = P_.Enumerator(P_.Folder(), max_paths=200).run(list(h.body) + rest[:3], [P_.Path()])
        except AnalysisError:
            return False
        for p_ in ps:
            if p_.outcome is None or p_.outcome[0] != 'return' or p_.outcome[1] is None:
                return False
            v = p_.outcome[1]
            if not (_is_download(v, f) or (isinstance(v, ast.Call) and norm(v.func) in closures)):
                return False
            for e_ in p_.events:
                if e_[0] == 'effect' and isinstance(e_[1], ast.Expr) and isinstance(e_[1].value, ast.Call) and norm(e_[1].value.func) == 'print':
                    continue
                if e_[0] in ('assign',):
                    continue
                return False
        return bool(ps)
    why = {'ParseError': 'parsed', 'IOError': 'fetched', 'UnicodeDecodeError': 'decoded (bytes that are not text in the expected encoding: a compressed file, an error page)'}
    # the index reader decodes the bytes it reads (a `.decode(...)` without an error policy, or a text-mode stream): that raises
    # UnicodeDecodeError, a ValueError, for an index that is not text
    pf = src.mod('debian_support').classes.get('PackageFile')
    decodes = [c for q, fn_ in src.mod('debian_support').funcs.items() if q.startswith('PackageFile.') for c in ast.walk(fn_.node)
               if isinstance(c, ast.Call) and isinstance(c.func, ast.Attribute) and c.func.attr == 'decode' and len(c.args) <= 1
               and not any(k.arg == 'errors' for k in c.keywords)
               and not any(isinstance(a, ast.Try) and any(handler_names(h_) & HIER['UnicodeDecodeError'] for h_ in a.handlers) for a in _ancestors(c))]
    need = {'ParseError': False, 'IOError': False}
    if decodes or pf is None:
        need['UnicodeDecodeError'] = False
    for h in idx_try[0].handlers:
        for k in need:
            if handler_names(h) & HIER[k] and falls_back(h):
                need[k] = True
    for k, v in need.items():
        if v:
            rep.ok('C19.R4', f.site, 'index %s → full download' % k, 'handler returns download_file', nontrivial=False)
        else:
            rep.fail('C19.R4', f.site, 'index %s → full download' % k, 'an index that cannot be %s does not lead to a full download%s'
                     % (why[k], ': %s propagates to the caller' % k if k == 'UnicodeDecodeError' else ''), where='%s:%d' % (f.module.relpath, idx_try[0].lineno))
    # missing, unreadable or foreign local copy: opening fails with OSError, reading a file that is not text in the expected encoding
    # with UnicodeDecodeError (text mode, strict error policy)
    loc_try = [t for t in walk_no_nested(f.node) if isinstance(t, ast.Try) and any(_is_call(c, 'open') for s in t.body for c in ast.walk(s))]
    needl = {'IOError': False}
    for t in loc_try:
        for c in [c for s_ in t.body for c in ast.walk(s_) if _is_call(c, 'open')]:
            mode = c.args[1].value if len(c.args) > 1 and isinstance(c.args[1], ast.Constant) else next((k.value.value for k in c.keywords if k.arg == 'mode' and isinstance(k.value, ast.Constant)), 'r')
            if 'b' not in mode and not any(k.arg == 'errors' for k in c.keywords):
                needl['UnicodeDecodeError'] = False
        for h in t.handlers:
            for k in needl:
                if handler_names(h) & HIER[k] and falls_back(h, t):
                    needl[k] = True
    for k, v in needl.items():
        what = 'missing local copy → full download' if k == 'IOError' else 'local copy that is not text (foreign file) → full download'
        if v:
            rep.ok('C19.R4', f.site, what, 'except %s: return download_file' % k, nontrivial=False)
        else:
            rep.fail('C19.R4', f.site, what, ('an absent/unreadable local file does not lead to a full download' if k == 'IOError' else
                                               'a local file that is not valid text in the expected encoding makes the read raise UnicodeDecodeError, which no handler turns into a '
                                               'full download: the update fails on every call until the file is removed by hand'), where=f.where)
    # a patch that is what the index says (hash verified) but that the ed reader refuses -- a command other than a / c / d, such as the
    # "s/.//" that diff -e writes after a text line consisting of a dot -- is one more input update_file cannot use: every call of a
    # function of the module that raises ValueError itself (the reader, the applier) sits in a try whose handler for ValueError ends
    # in the full download
    mod_ = f.module
    n_vr = 0
    for c in [c for c in ast.walk(f.node) if isinstance(c, ast.Call) and isinstance(c.func, ast.Name) and c.func.id in mod_.funcs and c.func.id not in closures]:
        callee = mod_.funcs[c.func.id]
        if not any(isinstance(r_, ast.Raise) and r_.exc is not None and norm(r_.exc).startswith('ValueError') for r_ in ast.walk(callee.node)):
            continue
        n_vr += 1
        rep.saw_func(callee)
        what = 'a patch the reader refuses → full download: %s()' % c.func.id
        tries = [a for a in _ancestors(c) if isinstance(a, ast.Try) and any(c in list(ast.walk(b_)) for b_ in a.body)]
        okv = False
        for t in tries:
            for h in t.handlers:
                if handler_names(h) & HIER['ValueError'] and falls_back(h, t):
                    okv = True
        if okv:
            rep.ok('C19.R4', f.site, what, 'except ValueError: return download_file', nontrivial=False)
        else:
            rep.fail('C19.R4', f.site, what, '%s raises ValueError for a script it cannot use and the call is not inside a handler that turns that into the full download: a '
                     'history in which a line is a single "." (diff -e then writes "..", ".", "s/.//") makes update_file raise on every call from that version, with a correct '
                     'index and no fault, while an unknown or absent local copy is updated from the same repository' % c.func.id, where='%s:%d' % (f.module.relpath, c.lineno))
    if n_vr < 1:
        raise AnalysisError('%s: no call of a function that raises ValueError (the ed reader / applier) found' % f.site)
    # implicit exceptions while interpreting the index: unguarded tuple unpacking of split(), unguarded dict subscripts, unbound locals
    for n in g.stmts():
        if n.kind == 'stmt' and isinstance(n.ast, ast.Assign) and isinstance(n.ast.targets[0], ast.Tuple):
            v = n.ast.value
            if isinstance(v, ast.Call) and isinstance(v.func, ast.Attribute) and v.func.attr == 'split':
                rep.fail('C19.R4', f.site, 'unpacking ' + norm(n.ast)[:60],
                         'an index entry with an unexpected number of columns raises ValueError here instead of leading to a full download',
                         where='%s:%d' % (f.module.relpath, n.lineno))
            elif isinstance(v, ast.Name):
                k = len(n.ast.targets[0].elts)
                guards = [t for t in g.nodes if t.kind == 'test' and g.dominates(t.id, n.id) and norm(t.ast) in
                          ('len(%s) != %d' % (v.id, k), 'len(%s) == %d' % (v.id, k))]
                if guards:
                    rep.ok('C19.R4', f.site, 'unpacking ' + norm(n.ast)[:60], 'guarded by %s' % norm(guards[0].ast))
                else:
                    rep.fail('C19.R4', f.site, 'unpacking ' + norm(n.ast)[:60], 'tuple unpacking of an index entry without a length check',
                             where='%s:%d' % (f.module.relpath, n.lineno))
    subs = [(n, s) for n in g.nodes if n.ast is not None and n.kind in ('stmt', 'test') for s in ast.walk(n.ast)
            if isinstance(s, ast.Subscript) and norm(s.value) == table and isinstance(s.ctx, ast.Load)]
    for n, s in subs:
        key = norm(s.slice)
        guards = [t for t in g.nodes if t.kind == 'test' and g.dominates(t.id, n.id) and
                  ('%s in %s' % (key, table) in norm(t.ast) or '%s not in %s' % (key, table) in norm(t.ast))]
        in_try = any(isinstance(a, ast.Try) and any('KeyError' in norm(h.type or '') for h in a.handlers) for a in _ancestors(s))
        if guards or in_try:
            rep.ok('C19.R4', f.site, 'lookup ' + norm(s), 'guarded: %s' % (norm(guards[0].ast)[:70] if guards else 'try/except KeyError'))
        else:
            rep.fail('C19.R4', f.site, 'lookup ' + norm(s), 'a history entry without a hash in the -Patches field raises KeyError instead of leading to a full download',
                     where='%s:%d' % (f.module.relpath, n.lineno))
    ub = flow.possibly_unbound(f.node, g)
    if ub:
        for name, ln in ub:
            rep.fail('C19.R4', f.site, 'local %s may be unbound' % name,
                     '%s is used at line %d but not assigned on every path (an index without the corresponding entry raises NameError)' % (name, ln),
                     where='%s:%d' % (f.module.relpath, ln))
    else:
        rep.ok('C19.R4', f.site, 'no possibly-unbound local', 'definite assignment holds for all locals')
    # remote_hash None-guard when it has a None default
    inits = [n for n in g.stmts() if n.kind == 'stmt' and isinstance(n.ast, ast.Assign) and norm(n.ast.targets[0]) == remote
             and isinstance(n.ast.value, ast.Constant) and n.ast.value.value is None]
    if inits:
        cmpn = [t for t in g.nodes if t.kind == 'test' and isinstance(t.ast, ast.Compare) and len(t.ast.ops) == 1 and isinstance(t.ast.ops[0], (ast.Eq, ast.NotEq))
                and g.dominates(t.id, rn.id) and remote in (norm(t.ast.left), norm(t.ast.comparators[0]))
                and (is_content_hash(t.ast.left) or is_content_hash(t.ast.comparators[0]))]
        guards = [t for t in g.nodes if t.kind == 'test' and ('%s is None' % remote in norm(t.ast) or 'not %s' % remote in norm(t.ast))]
        if cmpn and guards and all(any(g.dominates(gd.id, c.id) for gd in guards) for c in cmpn):
            rep.ok('C19.R4', f.site, 'index without a -Current entry → full download', '`remote_hash is None` test dominates the final comparison')
        else:
            rep.fail('C19.R4', f.site, 'index without a -Current entry → full download',
                     'remote_hash may still be None at the final comparison: a complete patch run ends in a spurious integrity error', where=f.where)


def _ancestors(n):
    n = getattr(n, '_parent', None)
    while n is not None:
        yield n
        n = getattr(n, '_parent', None)


def r5_hash_backends(rep, src):
    m = src.mod(MODN)
    for target in ('new_sha1', 'new_sha256'):
        chains = []
        for st in m.tree.body:
            if isinstance(st, ast.Try):
                mods = []

                def collect(t):
                    for s in t.body:
                        if isinstance(s, ast.Import):
                            mods.extend(a.name for a in s.names)
                    for h in t.handlers:
                        for s in h.body:
                            if isinstance(s, ast.Try):
                                collect(s)
                binds = any(isinstance(s, ast.Assign) and norm(s.targets[0]) == target for s in ast.walk(st)) or \
                    any(isinstance(s, ast.FunctionDef) and s.name == target for s in ast.walk(st))
                if binds:
                    collect(st)
                    chains.append(mods)
        if not chains:
            raise AnalysisError('no binding of %s found' % target)
        mods = chains[0]
        found = [x for x in mods if importlib.util.find_spec(x) is not None]
        if found:
            rep.ok('C19.R5', MODN + ':' + target, 'hash constructor has a provider', 'tries %s; %s resolves in this interpreter' % (mods, found[0]))
        else:
            rep.fail('C19.R5', MODN + ':' + target, 'hash constructor has a provider',
                     'none of the modules %s exists in the running interpreter: %s is the stub that raises NotImplementedError, so every index '
                     'using this hash makes update_file fail' % (mods, target))


def r6_temp_download(rep, src):
    f = src.func(MODN + ':download_gunzip_lines')
    rep.saw_func(f)
    tries = [s for s in f.node.body if isinstance(s, ast.Try)]
    mk = [n for n in ast.walk(f.node) if isinstance(n, ast.Assign) and isinstance(n.value, ast.Call) and norm(n.value.func) == 'tempfile.mkstemp']
    makers = [n for n in ast.walk(f.node) if isinstance(n, ast.Call) and (norm(n.func).startswith('tempfile.') or norm(n.func) in ('mkstemp', 'mktemp', 'NamedTemporaryFile', 'mkdtemp'))]
    if not makers and not any(isinstance(n, (ast.Import, ast.ImportFrom)) and 'tempfile' in ([a.name for a in n.names] + [getattr(n, 'module', None)]) for n in ast.walk(f.node)):
        rep.ok('C19.R6', f.site, 'download temporary removed', 'the download creates no temporary file', nontrivial=False)
        return
    if not mk or not isinstance(mk[0].targets[0], ast.Tuple):
        raise AnalysisError('%s: mkstemp site not found' % f.site)
    fname = norm(mk[0].targets[0].elts[1])
    ok = any(t.finalbody and any((_is_call(c, 'os.unlink') or _is_call(c, 'os.remove')) and norm(c.args[0]) == fname
                                 for s in t.finalbody for c in ast.walk(s)) and t.lineno > mk[0].lineno for t in tries)
    if ok:
        rep.ok('C19.R6', f.site, 'download temporary removed', 'finally: os.unlink(%s)' % fname)
    else:
        rep.fail('C19.R6', f.site, 'download temporary removed', 'the temporary file of a download is not removed on every exit', where=f.where)


def r7_history_order(rep, src, g=None):
    """the chain of patches is the suffix of the history *list* from the first entry whose hash is the
    local hash: order and multiplicity of the entries must survive, so the patch names may only travel
    through ordered, duplicate-preserving containers"""
    f = src.func(SITE)
    roles = getattr(g, 'roles', None) or {}
    TODO = roles.get('todo') or 'patches_to_apply'
    if not TODO.isidentifier():
        raise AnalysisError('%s: the patches to apply are not held in a local list (%s)' % (f.site, TODO))
    flows = {}      # name -> set of names its value is built from
    kinds = {}      # name -> 'list' | 'keyed'
    for n in walk_no_nested(f.node):
        tgt = val = None
        if isinstance(n, ast.Assign) and len(n.targets) == 1:
            tgt, val = n.targets[0], n.value
        elif isinstance(n, ast.AnnAssign) and n.value is not None:
            tgt, val = n.target, n.value
        elif isinstance(n, ast.AugAssign):
            tgt, val = n.target, n.value
        elif isinstance(n, ast.Expr) and isinstance(n.value, ast.Call) and isinstance(n.value.func, ast.Attribute) \
                and n.value.func.attr in ('append', 'extend', 'insert', 'add', 'update') and isinstance(n.value.func.value, ast.Name):
            tgt, val = n.value.func.value, n.value
        if tgt is None:
            continue
        base = tgt
        while isinstance(base, ast.Subscript):
            base = base.value
        if not isinstance(base, ast.Name):
            continue
        name = base.id
        srcs = {x.id for x in ast.walk(val) if isinstance(x, ast.Name) and x.id != name}
        if isinstance(tgt, ast.Subscript):
            srcs |= {x.id for x in ast.walk(tgt.slice) if isinstance(x, ast.Name)}
        flows.setdefault(name, set()).update(srcs)
        if isinstance(n, (ast.Assign, ast.AnnAssign)) and isinstance(tgt, ast.Name):
            if isinstance(val, (ast.Dict, ast.Set, ast.DictComp, ast.SetComp)) or \
                    (isinstance(val, ast.Call) and norm(val.func) in ('dict', 'set', 'frozenset', 'OrderedDict', 'collections.OrderedDict')):
                kinds[name] = 'keyed'
            elif isinstance(val, (ast.List, ast.ListComp)):
                kinds.setdefault(name, 'list')
        if isinstance(val, ast.Call) and norm(val.func) in ('sorted', 'reversed', 'set'):
            kinds[name] = 'keyed'
    if TODO not in flows and kinds.get(TODO) != 'list':
        raise AnalysisError('%s: the list of patches to apply was not found' % f.site)
    seen, todo, via = set(), [TODO], {}
    while todo:
        x = todo.pop()
        if x in seen:
            continue
        seen.add(x)
        for y in flows.get(x, ()):
            via.setdefault(y, x)
            todo.append(y)
    bad = [x for x in seen if kinds.get(x) == 'keyed']
    if bad:
        chain = [bad[0]]
        while chain[-1] in via and chain[-1] != TODO:
            chain.append(via[chain[-1]])
        rep.fail('C19.R7', f.site, 'history entries keep order and multiplicity',
                 'the patch chain is built through the keyed/unordered container `%s` (%s): a hash that occurs twice in the history '
                 '(content reverted to an earlier version) loses an entry or its position' % (bad[0], ' → '.join(chain)), where=f.where)
    else:
        rep.ok('C19.R7', f.site, 'history entries keep order and multiplicity',
               '%s is fed from %s through lists only' % (TODO, sorted(seen - {TODO})))
    # the start of the chain is the entry whose hash equals the local hash
    hashfns, single_defs, content, remote = roles.get('hashfns') or set(), roles.get('single_defs') or {}, roles.get('content') or 'lines', roles.get('remote') or 'remote_hash'

    def is_local_hash(e):
        if isinstance(e, ast.Call) and norm(e.func) in hashfns and [norm(a_) for a_ in e.args] == [content]:
            return True
        if isinstance(e, ast.Name) and single_defs.get(e.id):
            return all(isinstance(d_.ast.value, ast.Call) and is_local_hash(d_.ast.value) for d_ in single_defs[e.id])
        return isinstance(e, ast.Name) and e.id == 'local_hash' and not hashfns
    starts = [n for n in walk_no_nested(f.node) if isinstance(n, ast.Compare) and len(n.ops) == 1 and isinstance(n.ops[0], (ast.Eq, ast.In))
              and (is_local_hash(n.left) or is_local_hash(n.comparators[0])) and remote not in (norm(n.left), norm(n.comparators[0]))]
    if starts:
        rep.ok('C19.R7', f.site, 'chain starts at the local version', norm(starts[0]), nontrivial=False)
    # (no such comparison in the function body itself -- it may sit in a lambda or a helper: where the chain starts is decided by the
    # interpreted scenarios of r10_index_scenarios, local copy at every version of a history in which a content recurs)


def r8_malformed_entries(rep, src):
    """entries of the History / Patches fields: an entry that does not have the three columns makes the index unusable (full
    download); it is never silently dropped -- a gap in the patch chain would end in "patch failed" instead of the fallback.
    Decided on the paths of every loop over <field>.splitlines() in update_file and its local helpers."""
    from .. import paths
    f = src.func(SITE)
    closures = _closure_returning_download(f)
    from .. import normalize
    # module-level / local private helpers -- a generator that splits the entries included -- are fused into the function
    fnode, _inl = normalize.inline_helpers(f, depth=2, skip=tuple(closures))
    loops = [n for n in ast.walk(fnode) if isinstance(n, ast.For) and isinstance(n.iter, ast.Call) and isinstance(n.iter.func, ast.Attribute)
             and n.iter.func.attr == 'splitlines']
    if not loops:
        # the entries are not read in a loop over <field>.splitlines() (a comprehension, a helper that was not fused ...): this
        # shape-based reading does not apply; the clause is decided by the interpreted scenarios (r10_index_scenarios, C19.R8)
        return 0
    n = 0
    for lp in loops:
        ps = paths.Enumerator(paths.Folder()).run(lp.body, [paths.Path()])
        rep.analysed['paths'] += len(ps)
        what = 'entries of `%s`' % norm(lp.iter)[:40]
        bad = None
        seen_len = False
        for p_ in ps:
            wrong = None       # does this path carry "the entry does not have 3 columns"?
            for t_, pol in p_.conds:
                if isinstance(t_, ast.Compare) and len(t_.ops) == 1 and isinstance(t_.left, ast.Call) and norm(t_.left.func) == 'len' \
                        and isinstance(t_.comparators[0], ast.Constant) and t_.comparators[0].value == 3 and isinstance(t_.ops[0], (ast.Eq, ast.NotEq)):
                    seen_len = True
                    wrong = pol if isinstance(t_.ops[0], ast.NotEq) else not pol
            if not wrong:
                continue
            oc = p_.outcome
            ok = oc is not None and (oc[0] == 'raise' or (oc[0] == 'return' and oc[1] is not None and (
                _is_download(oc[1], f) or (isinstance(oc[1], ast.Call) and isinstance(oc[1].func, ast.Name) and oc[1].func.id in closures))))
            if not ok:
                bad = 'an entry without exactly three columns is %s' % ('skipped' if oc is None or oc[0] == 'continue' else 'answered with ' + norm(oc[1])[:40] if oc[1] is not None else oc[0])
        n += 1
        if bad:
            rep.fail('C19.R8', f.site, what, bad + ' instead of sending the update to a full download: a malformed History entry leaves a gap in the patch chain '
                     '(ValueError "patch failed" instead of the fallback)', where='%s:%d' % (f.module.relpath, lp.lineno))
        elif not seen_len:
            rep.fail('C19.R8', f.site, what, 'the number of columns of an entry is not checked before it is unpacked', where='%s:%d' % (f.module.relpath, lp.lineno))
        else:
            rep.ok('C19.R8', f.site, what, 'wrong column count → full download')
    return n


def _interpret_update(src, index, local_hash, prefix, undecodable=(), garbled=(), unparsable=(), unappliable=()):
    """update_file interpreted (sa.heap) on one index (paragraphs of (field, value) pairs) and one local content, with the streams,
    the downloads, the hash functions and the patch application replaced by a model: contents are named by their hashes, applying
    the patch the history lists for the current content gives the next content of the history, anything else gives garbage.
    -> (outcome, log): outcome ('return', value) / ('raise', name); log of urlopen / patch download / apply / full download / replace"""
    from .. import heap as H
    mod = src.mod(MODN)
    f = src.func(SITE)
    log = []
    state = {'hash': local_hash}
    hist, cur = [], None
    for para in index:
        for fld, val in para:
            if fld == prefix + '-History':
                for e in val.split('\n'):
                    cols = e.split()
                    if len(cols) == 3:
                        hist.append((cols[0], cols[2]))
    cur = 'hC'         # the content the repository really holds now, whatever the index says about it

    def h_hash(kind):
        def hk(it, args, kw):
            x = args[0]
            if isinstance(x, H.Ref) and x.name == '@locallines':
                return state['hash'] if kind == prefix else 'other:' + state['hash']
            if isinstance(x, H.Ref) and it.h.is_list(x):
                items = it.h.items(x)
                if items and isinstance(items[0], str) and items[0].startswith('patch:'):
                    if items[0][6:] in garbled:
                        return 'hash of something else'        # what was downloaded is not the patch the index lists
                    return ('ph:' if kind == prefix else 'oph:') + items[0][6:]
                if items and isinstance(items[0], bytes) and items[0].startswith(b'patch:'):          # (the same download, taken as bytes)
                    nm_ = items[0][6:].decode()
                    if nm_ in garbled:
                        return 'hash of something else'
                    return ('ph:' if kind == prefix else 'oph:') + nm_
                if items and all(isinstance(y_, (str, bytes)) for y_ in items) and b''.join(y_ if isinstance(y_, bytes) else y_.encode() for y_ in items) == b'line\n':
                    # the local copy, however it was read and cut (its one line of text)
                    state['local_lines'] = x
                    return state['hash'] if kind == prefix else 'other:' + state['hash']
            raise AnalysisError('C19 scenario: hash of %r' % (x,))
        return hk

    def h_dl_patch(it, args, kw):
        url = args[0].concrete() if hasattr(args[0], 'concrete') else args[0]
        if not isinstance(url, str) or '.diff/' not in url or not url.endswith('.gz'):
            raise AnalysisError('C19 scenario: patch URL %r' % (url,))
        log.append(('patch', url.split('.diff/')[1][:-3]))
        if url.split('.diff/')[1][:-3] in undecodable:
            # the patch leads to (or away from) a version that is not valid UTF-8: reading it as text fails
            raise H.Raised('UnicodeDecodeError', it.h.version, 0)
        return it.h.new_list(['patch:' + url.split('.diff/')[1][:-3]])

    def h_dl_any(it, args, kw):
        # the private download helper: (url, text) -- text as above, bytes always readable
        text = args[1] if len(args) > 1 else kw.get('text', True)
        if text:
            return h_dl_patch(it, args[:1], kw)
        url = args[0].concrete() if hasattr(args[0], 'concrete') else args[0]
        if not isinstance(url, str) or '.diff/' not in url or not url.endswith('.gz'):
            raise AnalysisError('C19 scenario: patch URL %r' % (url,))
        log.append(('patch-bytes', url.split('.diff/')[1][:-3]))
        return it.h.new_list([b'patch:' + url.split('.diff/')[1][:-3].encode()])

    def h_ed(it, args, kw):
        name = it.h.items(args[0])[0][6:]
        if name in unparsable:
            raise H.Raised('ValueError', it.h.version, 0)      # a command the ed reader does not know
        return ('edscript', name)

    def h_patch_lines(it, args, kw):
        name = args[1][1] if isinstance(args[1], tuple) else None
        if name in unappliable:
            raise H.Raised('ValueError', it.h.version, 0)      # a command that addresses lines the file does not have
        idx = [i for i, (hh, n) in enumerate(hist) if n == name and hh == state['hash']]
        state['hash'] = (hist[idx[0] + 1][0] if idx[0] + 1 < len(hist) else cur) if idx else 'garbage'
        log.append(('apply', name))
        return None
    hooks = {'open': lambda it, a, k: it.h.alloc('Stream', {'binary': 'b' in (a[1] if len(a) > 1 and isinstance(a[1], str) else k.get('mode', 'r'))}),
             '.readlines': lambda it, a, k: it.h.new_list(['line\n'], '@locallines'),
             # (the whole local copy in one piece: one line of text -- bytes when the file was opened in binary mode)
             '.read': lambda it, a, k: (b'line\n' if it.h.objs[a[0].name].get('binary') else 'line\n') if isinstance(a[0], H.Ref) and it.h.objs[a[0].name]['__class__'] == 'Stream' else NotImplemented,
             '.close': lambda it, a, k: None,
             'urlopen': lambda it, a, k: (log.append(('urlopen', a[0])), it.h.alloc('Stream', {}))[1],
             'PackageFile': lambda it, a, k: it.h.new_list([it.h.new_list([(x, y) for x, y in para]) for para in index]),
             'read_lines_sha256': h_hash('SHA256'), 'read_lines_sha1': h_hash('SHA1'), 'download_gunzip_lines': h_dl_patch, '_download_gunzip': h_dl_any,
             'patches_from_ed_script': h_ed, 'patch_lines': h_patch_lines,
             'download_file': lambda it, a, k: (log.append(('full',)), 'FULL')[1],
             'replace_file': lambda it, a, k: (state.__setitem__('written', a[0] if a else None), log.append(('replace', state['hash'])))[1], 'print': lambda it, a, k: None}
    heap = H.Heap(mod, hooks=hooks)
    heap.native_regex = True
    it = H.Interp(heap)
    try:
        r = it.call(H.Closure(f.node, {}, None, None), ['REMOTE', 'LOCAL'])
        if isinstance(r, H.Ref) and isinstance(state.get('written'), H.Ref) and r != state['written']:
            # what is returned is the list that was written to the local file (a copy made for patching is the result, not the lines read)
            return ('return', 'a list other than the one written to the local file'), log
        is_local = isinstance(r, H.Ref) and (r.name == '@locallines' or r == state.get('local_lines') or (
            heap.is_list(r) and b''.join(y_ if isinstance(y_, bytes) else y_.encode() for y_ in heap.items(r) if isinstance(y_, (str, bytes))) == b'line\n'))
        return ('return', 'LINES' if is_local else r), log
    except H.Raised as x:
        return ('raise', x.exc), log


def r10_index_scenarios(rep, src):
    """the interpretation of the index, decided on scenarios instead of on the shape of its loops: a history in which a content
    recurs (h0 h1 h0 -> current), the local copy at every version / current / unknown; the same with one entry of History, Patches
    or Current malformed (a column missing or added) at every position, a field missing, a needed patch not listed.  With the
    contents modelled by their hashes the outcome is decided exactly: the update ends at the current content through a chain of
    consecutive history entries that starts at an entry of the local content, or with the full download -- never with an error,
    a gap, or another content.  (reported as C19.R7 for well-formed indexes, C19.R8 for malformed ones)"""
    f = src.func(SITE)
    rep.saw_func(f)
    for prefix in ('SHA256', 'SHA1'):
        H_ = [('h0', 'P0'), ('h1', 'P1'), ('h0', 'P2'), ('h3', 'P3')]
        names = [n for _, n in H_]

        def index(hist_lines=None, patch_lines=None, current='hC 99', drop=()):
            hl = hist_lines if hist_lines is not None else ['%s 10 %s' % e for e in H_]
            pl = patch_lines if patch_lines is not None else ['ph:%s 5 %s' % (n, n) for n in names]
            fields = [(prefix + '-Current', current), (prefix + '-History', '\n ' + '\n '.join(hl)), (prefix + '-Patches', '\n ' + '\n '.join(pl))]
            return [[fv for fv in fields if fv[0].split('-')[1] not in drop]]

        def judge(rule, what, idx, local, must_patch, undecodable=(), **faults):
            out, log = _interpret_update(src, idx, local, prefix, undecodable, **faults)
            applied = [e[1] for e in log if e[0] == 'apply']
            fetched = [e[1] for e in log if e[0] == 'patch']          # (a second look at the same patch as bytes is logged as 'patch-bytes')
            repl = [e for e in log if e[0] == 'replace']
            full = [e for e in log if e[0] == 'full']
            starts = [j for j, (hh, _) in enumerate(H_) if hh == local]
            good_chain = any(applied == names[j:] for j in starts) and applied and fetched == applied and repl == [('replace', 'hC')] and not full and out == ('return', 'LINES')
            good_full = out == ('return', 'FULL') and not repl       # (patches applied to the lines in memory before the fallback change nothing on disk)
            up_to_date = local == 'hC' and out == ('return', 'LINES') and not log[1:]
            if up_to_date or good_chain or (good_full and not must_patch):
                rep.ok(rule, f.site, what, 'up to date' if up_to_date else 'patches %s' % ' '.join(applied) if good_chain else 'full download')
            else:
                got = 'raises %s' % out[1] if out[0] == 'raise' else 'returns %r' % (out[1],)
                rep.fail(rule, f.site, what, '%s: %s after %s%s; expected %s' % (
                    what, got, ', '.join('%s %s' % (e[0], e[1]) if len(e) > 1 else e[0] for e in log[1:]) or 'reading the index',
                    ' (the content written is %s, not the current one)' % repl[0][1] if repl and repl[0][1] != 'hC' else '',
                    'the patches from an entry of the local content to the end of the history, then the file replaced by the current content' if must_patch
                    else 'the patches of a consecutive chain, or the full download (the index is unusable)'), where=f.where)
        for local in ('h0', 'h1', 'h3', 'hC', 'hX'):
            judge('C19.R7', '[%s] history h0 h1 h0 h3 -> current, local copy at %s' % (prefix, local), index(), local, local in ('h0', 'h1', 'h3'))
        # a version in the middle of the history that is not valid UTF-8 (the current content is): the patches to and from it cannot be
        # read as text -- like a local copy or an index that cannot be decoded, that is a reason for the full download, not an error
        for bad_patch, local in (('P1', 'h1'), ('P2', 'h1'), ('P0', 'h0'), ('P3', 'h3')):
            judge('C19.R8', '[%s] patch %s cannot be decoded (a version that is not UTF-8), local copy at %s' % (prefix, bad_patch, local), index(), local, False, (bad_patch,))
        # ... while a patch that cannot be decoded because it was DAMAGED on the way (its bytes do not have the hash the index lists) is a
        # garbled patch like any other: an error, nothing written, no full download behind the caller's back
        for bad_patch, local in (('P1', 'h1'), ('P2', 'h1'), ('P0', 'h0')):
            out_, log_ = _interpret_update(src, index(), local, prefix, (bad_patch,), garbled=(bad_patch,))
            what_ = '[%s] patch %s is damaged so that it cannot be decoded, local copy at %s' % (prefix, bad_patch, local)
            if out_ == ('raise', 'ValueError') and not any(e_[0] in ('replace', 'full') for e_ in log_):
                rep.ok('C19.R1', f.site, what_, 'raises ValueError, nothing written')
            else:
                rep.fail('C19.R1', f.site, what_, '%s after %s; a downloaded patch that does not match the hash recorded in the index is an error with the local file left as it '
                         'was -- whether the damage leaves it decodable or not' % ('raises %s' % out_[1] if out_[0] == 'raise' else 'returns %r' % (out_[1],),
                                                                                    ', '.join(' '.join(map(str, e_)) for e_ in log_[1:]) or 'reading the index'), where=f.where)
        # a patch the index lists faithfully but that cannot be used here (a command the ed reader does not know, an address beyond the
        # file): the full download -- the repository is intact, only this way of getting there is closed
        for bad_patch, local in (('P1', 'h1'), ('P2', 'h1'), ('P0', 'h0')):
            judge('C19.R4', '[%s] patch %s cannot be parsed as an ed script, local copy at %s' % (prefix, bad_patch, local), index(), local, False, unparsable=(bad_patch,))
            judge('C19.R4', '[%s] patch %s cannot be applied to the lines, local copy at %s' % (prefix, bad_patch, local), index(), local, False, unappliable=(bad_patch,))
        # integrity: a downloaded patch that is not the one the index lists, or a result that is not the content the index announces,
        # ends in an error with nothing written (the statement's second sentence)
        for bad_patch, local in (('P1', 'h1'), ('P3', 'h1'), ('P0', 'h0')):
            out_, log_ = _interpret_update(src, index(), local, prefix, garbled=(bad_patch,))
            what_ = '[%s] the download of patch %s does not have the hash the index lists, local copy at %s' % (prefix, bad_patch, local)
            if out_[0] == 'raise' and not any(e_[0] in ('replace',) for e_ in log_) and ('apply', bad_patch) not in log_:
                rep.ok('C19.R1', f.site, what_, 'raises %s before the patch is applied, nothing written' % out_[1])
            else:
                rep.fail('C19.R1', f.site, what_, '%s after %s; expected an error before the patch is applied and nothing written' % (
                    'raises %s' % out_[1] if out_[0] == 'raise' else 'returns %r' % (out_[1],), ', '.join(' '.join(map(str, e_)) for e_ in log_[1:]) or 'nothing'), where=f.where)
        for local in ('h0', 'h1', 'h3'):
            out_, log_ = _interpret_update(src, index(current='hOTHER 99'), local, prefix)
            what_ = '[%s] the patched result is not the content the index announces as current, local copy at %s' % (prefix, local)
            if out_[0] == 'raise' and not any(e_[0] == 'replace' for e_ in log_):
                rep.ok('C19.R1', f.site, what_, 'raises %s, nothing written' % out_[1])
            else:
                rep.fail('C19.R1', f.site, what_, '%s after %s; expected an error and nothing written (a result that does not match the recorded hash must not replace the local '
                         'file)' % ('raises %s' % out_[1] if out_[0] == 'raise' else 'returns %r' % (out_[1],), ', '.join(' '.join(map(str, e_)) for e_ in log_[1:]) or 'nothing'),
                         where=f.where)
        # blank lines between the entries are not entries
        judge('C19.R7', '[%s] history with an empty line between the entries, local copy at h1' % prefix,
              [[(prefix + '-Current', 'hC 99'), (prefix + '-History', '\n h0 10 P0\n\n h1 10 P1\n h0 10 P2\n h3 10 P3\n'),
                (prefix + '-Patches', '\n ph:P0 5 P0\n ph:P1 5 P1\n\n ph:P2 5 P2\n ph:P3 5 P3')]], 'h1', True)
        # the three fields in three paragraphs
        three = index()
        judge('C19.R7', '[%s] the fields of the index in separate paragraphs, local copy at h1' % prefix, [[fv] for fv in three[0]], 'h1', True)
        for pos in range(len(H_)):
            for form, label in ((lambda e: '%s %s' % e, 'a column missing'), (lambda e: '%s 10 extra %s' % e, 'a column added')):
                hl = ['%s 10 %s' % e for e in H_]
                hl[pos] = form(H_[pos])
                for local in ('h0', 'h1'):
                    judge('C19.R8', '[%s] History entry %d with %s, local copy at %s' % (prefix, pos, label, local), index(hist_lines=hl), local, False)
                pl = ['ph:%s 5 %s' % (n, n) for n in names]
                pl[pos] = 'ph:%s %s' % (names[pos], names[pos]) if label == 'a column missing' else 'ph:%s 5 x %s' % (names[pos], names[pos])
                judge('C19.R8', '[%s] Patches entry %d with %s, local copy at h0' % (prefix, pos, label), index(patch_lines=pl), 'h0', False)
            pl = ['ph:%s 5 %s' % (n, n) for k_, n in enumerate(names) if k_ != pos]
            judge('C19.R8', '[%s] patch %s of the history not listed under Patches, local copy at h0' % (prefix, names[pos]), index(patch_lines=pl), 'h0', False)
        for cur_, label in (('hC', 'one column'), ('hC 99 x', 'three columns'), ('', 'no text')):
            judge('C19.R8', '[%s] Current with %s, local copy at h1' % (prefix, label), index(current=cur_), 'h1', False)
        for drop in ('Current', 'History', 'Patches'):
            judge('C19.R8', '[%s] index without the %s field, local copy at h1' % (prefix, drop), index(drop=(drop,)), 'h1', False)
        judge('C19.R8', '[%s] empty index, local copy at h1' % prefix, [], 'h1', False)


def r9_faithful_io(rep, src):
    """the content travels as text lines: local file -> lines -> hash / patch -> lines -> local file, and download -> lines.  The
    hashes of the index are over the bytes of the file, and the result must equal the published bytes.  So every stream on that
    path is byte-faithful: binary, or text with the one explicit encoding the hash functions encode with and without newline
    translation (`newline='\\n'` when reading -- '' would still split at a lone CR and shift the line numbers the patches use --,
    `newline` '' or '\\n' when writing; None is accepted there: os.linesep is LF on POSIX).  With the default `newline=None` a CR LF or a lone CR of the published content is read as LF:
    the hash never matches, the full download rewrites the file with other bytes, and nothing reports it."""
    mod = src.mod('debian_support')
    sites = [(SITE, 'read'), ('debian_support:download_gunzip_lines', 'read'), ('debian_support:replace_file', 'write')]
    enc_of_hash = set()
    for q in ('read_lines_sha1', 'read_lines_sha256'):
        fn = mod.funcs.get(q)
        if fn is not None:
            fnode_, _inl = normalize.inline_helpers(fn)          # a shared private helper that feeds the hash object
            for c in ast.walk(fnode_):
                if isinstance(c, ast.Call) and isinstance(c.func, ast.Attribute) and c.func.attr == 'encode' and c.args and isinstance(c.args[0], ast.Constant):
                    enc_of_hash.add(str(c.args[0].value).upper().replace('_', '-'))
    if len(enc_of_hash) != 1:
        raise AnalysisError('hash functions encode text lines with %s' % (sorted(enc_of_hash) or 'no explicit encoding'))
    want_enc = next(iter(enc_of_hash))
    n = 0
    for site, role in sites:
        rep.saw_func(src.func(site))
        f = site_func(src, site)
        params = f.params()
        defaults = {}
        a = f.node.args
        for p_, d_ in zip(a.args[len(a.args) - len(a.defaults):], a.defaults):
            if isinstance(d_, ast.Constant):
                defaults[p_.arg] = d_.value
        here = 0
        # (the function itself, and the private module-level helpers it calls -- the stream may be opened there)
        bodies = [f.node] + [mod.funcs[c_.func.id].node for c_ in walk_no_nested(f.node) if isinstance(c_, ast.Call) and isinstance(c_.func, ast.Name)
                             and c_.func.id.startswith('_') and c_.func.id in mod.funcs]
        for c in [x_ for b_ in bodies for x_ in walk_no_nested(b_)]:
            if not (isinstance(c, ast.Call) and norm(c.func) in ('open', 'gzip.open', 'io.open', 'codecs.open', 'io.TextIOWrapper', 'TextIOWrapper', 'gzip.GzipFile', 'GzipFile',
                                                                  'os.fdopen', 'bz2.open', 'lzma.open')):
                continue
            kw = {k.arg: k.value for k in c.keywords if k.arg}
            fname_ = norm(c.func)
            if fname_.endswith('TextIOWrapper'):
                # a text layer over a binary stream: text mode by construction, the same encoding / newline / errors parameters as open()
                mode_node = ast.Constant('rt' if role == 'read' else 'wt')
            elif fname_.endswith('GzipFile'):
                mode_node = ast.Constant('rb' if role == 'read' else 'wb')          # GzipFile has no text mode
            else:
                mode_node = c.args[1] if len(c.args) > 1 else kw.get('mode')
            mode = mode_node.value if isinstance(mode_node, ast.Constant) else ('rb' if fname_ in ('gzip.open', 'bz2.open', 'lzma.open') else 'r') if mode_node is None else None
            what = '%s stream `%s`' % (role, norm(c)[:70])
            n += 1
            here += 1
            if mode is None:
                raise AnalysisError('%s: mode of %s is not a constant' % (f.site, norm(c)[:60]))
            if 'b' in mode and 't' not in mode:
                rep.ok('C19.R9', f.site, what, 'binary', nontrivial=False)
                continue
            enc = kw.get('encoding')
            encv = enc.value if isinstance(enc, ast.Constant) else defaults.get(enc.id) if isinstance(enc, ast.Name) else None
            nl = kw.get('newline')
            nlv = nl.value if isinstance(nl, ast.Constant) else Ellipsis if nl is not None else None
            errs = kw.get('errors')
            problems = []
            if not isinstance(encv, str) or encv.upper().replace('_', '-') != want_enc:
                problems.append('the text encoding is %s while the hashes are taken over the %s encoding of the lines: outside a %s locale the content is garbled or the read fails'
                                % ('the locale\'s default' if enc is None else repr(encv), want_enc, want_enc))
            if role == 'read' and nlv == '':
                problems.append('newline=\'\' keeps every byte but still ends a line at a lone CR (and the other readers do not): a text line with a CR in it becomes two list '
                                'elements, the line numbers of every later patch below it are off by one and the chain ends in "patch failed" on every run')
            elif nlv not in (('\n',) if role == 'read' else ('', '\n', None)):        # writing with newline=None maps LF to os.linesep: the identity on POSIX (assumed)
                problems.append('newline translation is on (newline=%r): a CR LF or lone CR in the published content is %s, so the local file and the returned lines differ from '
                                'the published bytes and the file is never recognised as current' % (None if nlv is None else nlv, 'read as LF' if role == 'read' else 'rewritten'))
            if errs is not None and not (isinstance(errs, ast.Constant) and errs.value == 'strict'):
                problems.append('undecodable bytes are replaced instead of reported (errors=%s)' % norm(errs))
            if problems:
                rep.fail('C19.R9', f.site, what, '; '.join(problems), where='%s:%d' % (f.module.relpath, c.lineno))
            else:
                rep.ok('C19.R9', f.site, what, 'text, %s, no newline translation' % want_enc)
        if not here:
            raise AnalysisError('%s: no stream constructor found (open, gzip.open, io.TextIOWrapper, ...): how the content is %s is not visible' % (f.site, 'read' if role == 'read' else 'written'))
    if n < 3:
        raise AnalysisError('only %d content streams found (3 confirmed on the pinned tree: local read, download, replacement write)' % n)


def check(src, rep, tier):
    rep.explanation = ('C19: CFG rules on update_file: the result-hash comparison (raise on mismatch) dominates the single replace_file '
                       'call and the hash is taken after the last patch; the per-patch hash comparison dominates patch_lines on the same '
                       'data under the same name; empty patch list leaves earlier.  Who-may-call: only replace_file writes/renames/unlinks '
                       'a path derived from `local`.  replace_file: write to temp, rename after close, unlink in finally.  Every return '
                       'is classified (up-to-date / verified / full download), every raise is an integrity error; unguarded unpacking, '
                       'dict lookups and possibly-unbound locals are flagged; hash constructor providers resolve in this interpreter.')
    rep.not_decided = ['content of the patches and convergence of the chain as such', 'urllib/gzip behaviour', 'PackageFile grammar']
    rep.need('C19.R1', 3)
    rep.need('C19.R2', 3)
    rep.need('C19.R3', 4)
    rep.need('C19.R4', 12)
    rep.need('C19.R5', 2)
    rep.need('C19.R6', 1)
    rep.need('C19.R7', 14)
    rep.need('C19.R8', 60)
    # update_file interpreted on scenarios (r10) decides, on those scenarios, the clauses that the shape-based readings R1 (both hash
    # comparisons in front of the replacement), R4 (a patch that cannot be used leads to the full download), R7 (the chain keeps order
    # and multiplicity) and R8 (malformed entries) decide on the paths of today's spelling.  Where every scenario holds, a report of
    # one of those shape-based readings says that the code is written otherwise than the reading expects -- it is recorded as
    # information, not as a violation; where a scenario fails, both are reported.
    n_before = len(rep.violations)
    n_err = len(rep.errors)
    rep.guard('C19.R7', r10_index_scenarios, src)
    scenarios_hold = len(rep.violations) == n_before and len(rep.errors) == n_err

    class Soft:
        # the shape-based readings of R1 / R4 / R7 report through this
        def __init__(self, rep_):
            self._rep = rep_

        def fail(self, rule, site, construct, msg, detail=None, where=None):
            if scenarios_hold:
                self._rep.info.append('%s %s: the shape-based reading reports "%s" -- not confirmed by any of the interpreted scenarios of update_file, which all hold' % (
                    rule, site, msg[:200]))
            else:
                self._rep.fail(rule, site, construct, msg, detail, where)

        def error(self, rule, msg):
            if scenarios_hold:
                self._rep.info.append('%s: the shape-based reading does not apply (%s); decided on the interpreted scenarios' % (rule, msg[:200]))
            else:
                self._rep.error(rule, msg)

        def guard(self, rule, fn, *a, **kw):
            try:
                return fn(self, *a, **kw)
            except AnalysisError as e:
                self.error(rule, str(e))
            return None

        def __getattr__(self, name):
            return getattr(self._rep, name)
    soft = Soft(rep)
    g = soft.guard('C19.R1', r1_verify_before_replace, src)
    rep.guard('C19.R2', r2_single_writer, src)
    from . import common as _c19common
    n_v, n_e = len(rep.violations), len(rep.errors)
    rep.guard('C19.R3', r10_replace_by_interpretation, src)
    replace_holds = len(rep.violations) == n_v and len(rep.errors) == n_e
    n_r3 = sum(1 for i_ in rep.instances if i_.get('rule') == 'C19.R3')

    class _SoftBoth(_c19common.SoftAll):
        pass
    # (how replace_file is written -- a temporary next to the target, try / finally, the rename after the with block -- is a second
    # opinion behind the interpreted function on a model file system with faults)
    soft3 = _SoftBoth(rep, lambda: replace_holds, 'the interpreted replace_file on a model file system (C19.R3), which replaces completely or not at all')
    soft3.guard('C19.R3', r3_replace_protocol, src)
    if replace_holds and rep.min_instances.get('C19.R3') is not None:
        rep.min_instances['C19.R3'] = min(rep.min_instances['C19.R3'], n_r3)
    if g is not None:
        soft.guard('C19.R4', r4_fallbacks, src, g)
    rep.guard('C19.R5', r5_hash_backends, src)
    rep.need('C19.R9', 3)
    rep.guard('C19.R9', r9_faithful_io, src)
    # ... and where the CONTENT -- the local copy, a downloaded text -- is cut into lines by the library itself, only a line feed ends a
    # line (the patches address lines as the repository counted them)
    rep.guard('C19.R9', r9b_content_lines, src)
    rep.guard('C19.R6', r6_temp_download, src)
    soft.guard('C19.R7', r7_history_order, src, g)
    soft.guard('C19.R8', r8_malformed_entries, src)
    from . import common
    rep.guard('C19.R4', common.check_error_construction, src, 'C19.R4', 'debian_support', ('update_file', 'download_file', 'download_gunzip_lines', 'replace_file'), 0)
    from . import common as _common_flags
    rep.guard('C19.R8', _common_flags.check_re_positional_flags, src, 'C19.R8', 'debian_support', 'an index entry with more columns than that is read as fewer')

"""C15 -- changelog parsing is total and strictness-consistent; output is a normal form."""
import ast

from .. import rx, strlang
from ..core import AnalysisError, norm, walk_no_nested, calls_in
from .changelogmodel import Model, M

META = {
    'design_ref': 'DESIGN.md §5 C15',
    'technique': 'typestate extraction: abstract transition system of parse_changelog (local closures inlined, quantifiers expanded, named conditions tracked) over (state constant, saved state, block-exists flag, language of the current line) with reachability; diagnostics funnel decided on its paths per value of the strict flag, who-may-call rule for warnings/raises, may-raise rule for property setters reached from the parser; regular-language side conditions for implicit exceptions (arity of every split of the line, group indices, group participation -- also of groups whose value is bound to a local and used as text);); line structure of every layout of the block writer (normal form); every optional attribute is decided absent or written in each returning world of the writer; line-primitive rule; whole texts built from line classes through the interpreted constructor and str(), twice (lenient returns; strict raises exactly when lenient warns; formatted text is a fixed point); a memoised function does nothing but compute its result (no warning, log record or mode-dependent report in it or in the functions it calls); the transition-system rules are a second opinion behind the interpreted texts where the loop leaves their vocabulary',
    'level_text': 'Static decision over all line sequences: every reachable abstract state is handled, `assert False` is unreachable, '
                  'self._blocks[-1] is only evaluated when a block exists, warnings and parse errors are produced only through _parse_error '
                  'with the caller\'s strict flag (so strict raises exactly where lenient first warns), no other exception source is '
                  'reachable in lenient mode on text input, and end-of-input is an error exactly when a block is still open.',
    'level_note': 'trusted: the abstract interpreter of the loop body (unknown statement kinds are ANALYSIS-ERROR), CPython re parser, '
                  'automata engine; the normal-form clause is covered only through C04\'s writer/reader agreements',
}


def r1_funnel(rep, src):
    m = src.mod(M)
    pe = src.func(M + ':Changelog._parse_error')
    rep.saw_func(pe)
    from .. import paths
    ps = pe.params()
    msg, strict = ps[-2], ps[-1]
    # all paths of the funnel with the strict flag decided: strict → raises ChangelogParseError(message) without warning first;
    # lenient → exactly one warnings.warn(message), no exception
    why = None
    for flag in (True, False):
        def atom(e, flag=flag):
            return flag if isinstance(e, ast.Name) and e.id == strict else None
        pths = paths.function_paths(pe.node, paths.Folder(None, atom))
        if not pths:
            why = 'no path'
        for p_ in pths:
            if p_.conds:
                why = why or 'the outcome depends on %s, not only on the strict flag' % norm(p_.conds[0][0])[:40]
            warns = [ev for ev in p_.events if ev[0] == 'effect' and isinstance(ev[1], ast.Expr) and isinstance(ev[1].value, ast.Call)
                     and norm(ev[1].value.func) == 'warnings.warn']
            other = [ev for ev in p_.events if ev not in warns]
            if flag:
                if p_.outcome[0] != 'raise' or norm(p_.outcome[1]) != 'ChangelogParseError(%s)' % msg:
                    why = why or 'in strict mode the funnel %s instead of raising ChangelogParseError(message)' % (
                        'raises ' + norm(p_.outcome[1])[:40] if p_.outcome[0] == 'raise' else 'returns')
                if warns:
                    why = why or 'in strict mode the funnel warns before raising'
            else:
                if p_.outcome[0] == 'raise':
                    why = why or 'in lenient mode the funnel raises %s' % norm(p_.outcome[1])[:40]
                if len(warns) != 1 or [norm(a_) for a_ in warns[0][1].value.args][:1] != [msg]:
                    why = why or 'in lenient mode the funnel does not issue exactly one warnings.warn(message)'
            if other:
                why = why or 'the funnel has another effect: %s' % norm(other[0][1])[:50]
    if why is None:
        rep.ok('C15.R1', pe.site, '_parse_error = raise if strict else warn', 'strict → ChangelogParseError(message); lenient → warnings.warn(message)')
    else:
        rep.fail('C15.R1', pe.site, '_parse_error = raise if strict else warn',
                 'the diagnostics funnel no longer raises in strict mode exactly where it warns in lenient mode: ' + why, where=pe.where)
    f = src.func(M + ':Changelog.parse_changelog')
    rep.saw_func(f)
    calls = [c for c in calls_in(f.node) if norm(c.func) == 'self._parse_error']
    n = 0
    for c in calls:
        n += 1
        if len(c.args) == 2 and norm(c.args[1]) == 'strict' and not c.keywords:
            continue
        if len(c.args) == 1 and any(k.arg == 'strict' and norm(k.value) == 'strict' for k in c.keywords):
            continue
        rep.fail('C15.R1', f.site, 'call ' + norm(c)[:50], 'a diagnostic is issued with strictness %s instead of the caller\'s strict flag: strict and lenient parsing disagree here'
                 % (norm(c.args[1]) if len(c.args) > 1 else 'default'), where='%s:%d' % (f.module.relpath, c.lineno))
    if n < 8:
        raise AnalysisError('%s: only %d _parse_error calls found' % (f.site, n))
    rep.ok('C15.R1', f.site, 'all diagnostics pass the caller\'s strict flag', '%d call sites' % n)
    rep.analysed['call_sites'] += n
    # strict is never rebound and has no other use
    others = [x for x in ast.walk(f.node) if isinstance(x, ast.Name) and x.id == 'strict' and not any(x in c.args or any(x is k.value for k in c.keywords) for c in calls)]
    if others:
        rep.fail('C15.R1', f.site, 'strict is only forwarded', 'the strict flag is %s at line %d: strictness changes more than raise-vs-warn'
                 % ('rebound' if isinstance(others[0].ctx, ast.Store) else 'consulted directly', others[0].lineno), where=f.where)
    else:
        rep.ok('C15.R1', f.site, 'strict is only forwarded', 'no other use')
    # warnings / parse errors elsewhere in the parser
    for c in calls_in(f.node):
        if norm(c.func) in ('warnings.warn', 'warn'):
            rep.fail('C15.R1', f.site, 'direct warning', 'parse_changelog warns directly (line %d): strict mode would not raise here' % c.lineno, where=f.where)
    for r in [x for x in ast.walk(f.node) if isinstance(x, ast.Raise)]:
        rep.fail('C15.R1', f.site, 'direct raise', 'parse_changelog raises directly (line %d): lenient mode would not be total / would not warn here' % r.lineno, where=f.where)
    # constructor passes strict through
    init = src.func(M + ':Changelog.__init__')
    t = norm(init.node)
    if 'strict=strict' in t and 'allow_empty_author=allow_empty_author' in t:
        rep.ok('C15.R1', init.site, 'constructor forwards strict / allow_empty_author', 'ok', nontrivial=False)
    else:
        rep.fail('C15.R1', init.site, 'constructor forwards strict / allow_empty_author', 'the constructor does not forward its flags to parse_changelog', where=init.where)
    _ = m


def r2_typestate(rep, src, model):
    states, trans = model.explore()
    f = model.f
    rep.extra['states'] = len(states)
    rep.extra['transitions'] = len(trans)
    assigned = set()
    for n in walk_no_nested(f.node):
        if isinstance(n, ast.Assign) and isinstance(n.targets[0], ast.Name) and n.targets[0].id == 'state' and isinstance(n.value, ast.Name):
            assigned.add(n.value.id)
    unknown = assigned - set(model.consts) - {'old_state'}
    if unknown:
        rep.fail('C15.R2', f.site, 'state constants', 'state is assigned %s which is not one of the declared state constants' % sorted(unknown), where=f.where)
    if model.reached_asserts:
        ln, stt = model.reached_asserts[0]
        rep.fail('C15.R2', f.site, 'every state is handled', 'state %r falls through to `assert False` (line %d): the lenient parser raises AssertionError' % (stt, ln), where=f.where)
    else:
        rep.ok('C15.R2', f.site, 'every state is handled', '%d reachable abstract states, the `assert False` arm is unreachable' % len(states))
    bad = [(ln, u) for ln, u in model.uses if not u['nonempty']]
    if bad:
        ln, u = bad[0]
        rep.fail('C15.R2', f.site, 'self._blocks[-1] needs a block', 'self._blocks[-1] (line %d) is evaluated in state %r before any block exists: IndexError instead '
                 'of a warning / ChangelogParseError' % (ln, u['state']), detail={'state': u}, where='%s:%d' % (f.module.relpath, ln))
    else:
        rep.ok('C15.R2', f.site, 'self._blocks[-1] needs a block', '%d evaluations, all in states where a block has been appended' % len(model.uses))
    if len(model.uses) < 6:
        raise AnalysisError('%s: only %d uses of self._blocks[-1] seen' % (f.site, len(model.uses)))
    # next_heading_or_eof is entered only with a block
    for k in states:
        if k[0] == 'next_heading_or_eof' and not k[2]:
            rep.fail('C15.R2', f.site, 'next_heading_or_eof implies a block', 'the state is reachable without an appended block', where=f.where)
    # every line is stored somewhere or consumed by a header/trailer (nothing is silently dropped)
    lost = []
    for t in trans:
        if t['outcome'] in ('return', 'raise'):
            continue
        eff = [e[0] for e in t['effects']]
        if 'store' in eff or 'set' in eff or 'block-appended' in eff:
            continue
        if any(e[0] == 'warn' for e in t['effects']) and t['outcome'] == 'continue':
            # rejected trailer without details when allow_empty_author is off: reported, line dropped
            continue
        lost.append(t)
    if lost:
        rep.fail('C15.R2', f.site, 'every line is kept', 'in state %s the line %r is neither stored nor interpreted' % (lost[0]['src'][0], lost[0]['L'].witness()), where=f.where)
    else:
        rep.ok('C15.R2', f.site, 'every line is kept', '%d transitions store or interpret their line' % len(trans))
    return states, trans


def r3_no_other_escape(rep, src, model):
    f = model.f
    alpha = model.alpha
    # every split of the current line whose result is indexed / unpacked: the number of separators the line must
    # contain is compared with the language of the lines that reach the call (enclosing regex-match tests)
    lv = model.linevar
    n_split = 0
    for c in walk_no_nested(model.fnode):
        if isinstance(c, ast.Call) and isinstance(c.func, ast.Attribute) and c.func.attr in ('partition', 'rpartition') and norm(c.func.value) == lv and len(c.args) == 1:
            # partition always yields three parts: indexing 0..2 / unpacking into three names cannot fail
            par = c._parent
            what = norm(par)[:60]
            if isinstance(par, ast.Subscript) and par.value is c and isinstance(par.slice, ast.Constant) and isinstance(par.slice.value, int):
                n_split += 1
                if -3 <= par.slice.value <= 2:
                    rep.ok('C15.R3', f.site, what, 'partition is total: three parts for every line')
                else:
                    rep.fail('C15.R3', f.site, what, 'index %d of a partition never exists: IndexError' % par.slice.value, where='%s:%d' % (f.module.relpath, c.lineno))
            elif isinstance(par, ast.Assign) and par.value is c and isinstance(par.targets[0], (ast.Tuple, ast.List)):
                n_split += 1
                if len(par.targets[0].elts) == 3:
                    rep.ok('C15.R3', f.site, what, 'partition is total: three parts for every line')
                else:
                    rep.fail('C15.R3', f.site, what, 'a partition never yields %d parts: ValueError' % len(par.targets[0].elts), where='%s:%d' % (f.module.relpath, c.lineno))
            continue
        if not (isinstance(c, ast.Call) and isinstance(c.func, ast.Attribute) and c.func.attr in ('split', 'rsplit') and norm(c.func.value) == lv):
            continue
        if not (c.args and isinstance(c.args[0], ast.Constant) and isinstance(c.args[0].value, str) and len(c.args[0].value) == 1):
            continue
        sep = c.args[0].value
        maxsplit = c.args[1].value if len(c.args) > 1 and isinstance(c.args[1], ast.Constant) else None
        if len(c.args) > 1 and maxsplit is None:
            raise AnalysisError('%s: maxsplit of %s is not a constant' % (f.site, norm(c)))
        # language of the lines reaching the call
        lang = model.universe
        node = c
        while getattr(node, '_parent', None) is not None:
            par = node._parent
            if isinstance(par, ast.If) and node is not par.test:
                in_body = any(node is x for x in par.body)
                sub = [(t_, l_) for t_, l_ in (model.cond(par.test, dict(state=None, old=None, nonempty=True, L=lang, effects=[], allow_empty=None))
                                               if not any(isinstance(x, ast.Name) and x.id in ('state', 'old_state') for x in ast.walk(par.test)) else [])
                       if t_ == in_body]
                if sub:
                    u = sub[0][1]
                    for _t, l_ in sub[1:]:
                        u = u.union(l_)
                    lang = u
            node = par
        # requirement from the use of the result
        par = c._parent
        need = None      # (min separators, max separators or None)
        what = norm(par)[:60] if isinstance(par, (ast.Subscript, ast.Assign)) else norm(c)
        if isinstance(par, ast.Subscript) and par.value is c and isinstance(par.slice, ast.Constant) and isinstance(par.slice.value, int):
            k = par.slice.value
            k = k if k >= 0 else -k - 1
            need = (k, None)
            if maxsplit is not None and k > maxsplit:
                rep.fail('C15.R3', f.site, what, 'index %d of a split limited to %d separators never exists: IndexError' % (par.slice.value, maxsplit),
                         where='%s:%d' % (f.module.relpath, c.lineno))
                continue
        elif isinstance(par, ast.Assign) and par.value is c and isinstance(par.targets[0], (ast.Tuple, ast.List)):
            n = len(par.targets[0].elts)
            if maxsplit is None or n - 1 < maxsplit:
                need = (n - 1, n - 1)
            elif n - 1 == maxsplit:
                need = (n - 1, None)
            else:
                rep.fail('C15.R3', f.site, what, 'a split limited to %d separators never yields %d parts: ValueError' % (maxsplit, n),
                         where='%s:%d' % (f.module.relpath, c.lineno))
                continue
        else:
            continue
        n_split += 1
        e = rx.literal(sep)
        other = '[^%s\\n]' % (e if sep not in ']^\\-' else '\\' + sep)
        pat = '%s*(?:%s%s*){%d,%s}' % (other, e, other, need[0], '' if need[1] is None else str(need[1]))
        ok_lang = rx.regex_lang(pat, 0, 'fullmatch', alpha=alpha)
        w = lang.not_subset_witness(ok_lang)
        if w is not None:
            exc = 'IndexError' if isinstance(par, ast.Subscript) else 'ValueError (unpacking)'
            rep.fail('C15.R3', f.site, what, 'the line %r reaches %s, which needs %s %r: %s escapes instead of a warning / ChangelogParseError'
                     % (w, norm(c), ('exactly %d' % need[0]) if need[0] == need[1] else ('at least %d' % need[0]), sep, exc),
                     detail={'witness': w}, where='%s:%d' % (f.module.relpath, c.lineno))
        else:
            rep.ok('C15.R3', f.site, what, 'every line reaching the call has %s %r' % (('exactly %d' % need[0]) if need[0] == need[1] else ('at least %d' % need[0]), sep))
    if n_split < 1:
        raise AnalysisError('%s: no indexed/unpacked split of the line found (the header key=value part is cut from the line)' % f.site)
    # group indices exist and groups used unconditionally participate
    for n in walk_no_nested(f.node):
        if isinstance(n, ast.Call) and isinstance(n.func, ast.Attribute) and n.func.attr == 'group' and isinstance(n.func.value, ast.Name) \
                and n.args and isinstance(n.args[0], ast.Constant) and isinstance(n.args[0].value, int):
            mv = n.func.value.id
            rname = model.matchvars.get(mv)
            if rname is None:
                # local regex matches (kv_match / val_match)
                for a in walk_no_nested(f.node):
                    if isinstance(a, ast.Assign) and norm(a.targets[0]) == mv and isinstance(a.value, ast.Call) and isinstance(a.value.func, ast.Attribute) \
                            and a.value.func.attr == 'match' and isinstance(a.value.func.value, ast.Name):
                        rname = a.value.func.value.id
            if rname is None:
                continue
            r = src.regex(M, rname)
            tree = rx.parse(r['pattern'], r['flags'])
            g = n.args[0].value
            what = '%s.group(%d)' % (mv, g)
            if g >= tree.state.groups:
                rep.fail('C15.R3', f.site, what, 'regex %s has only %d groups: IndexError("no such group")' % (rname, tree.state.groups - 1),
                         where='%s:%d' % (f.module.relpath, n.lineno))
                continue
            # used as receiver of a method / in % formatting: must not be None
            par = n._parent
            needs = isinstance(par, ast.Attribute) and par.value is n
            # ... or bound to a local that is then used as text with no test of the local around the use: receiver of a method,
            # subject of another regex, stored into the block being filled (where None would later be written out as "None")
            if not needs and isinstance(par, ast.Assign) and len(par.targets) == 1 and isinstance(par.targets[0], ast.Name) and par.value is n:
                loc = par.targets[0].id
                for u in walk_no_nested(f.node):
                    if not (isinstance(u, ast.Name) and u.id == loc and isinstance(u.ctx, ast.Load) and u.lineno >= par.lineno):
                        continue
                    up = u._parent
                    as_text = (isinstance(up, ast.Attribute) and up.value is u and isinstance(getattr(up, '_parent', None), ast.Call)) \
                        or (isinstance(up, ast.Call) and u in up.args and isinstance(up.func, ast.Attribute) and up.func.attr in ('match', 'search', 'fullmatch')) \
                        or (isinstance(up, ast.Assign) and up.value is u and any(isinstance(t_, (ast.Subscript, ast.Attribute)) for t_ in up.targets))
                    if not as_text:
                        continue
                    a_, tested = u, False
                    while getattr(a_, '_parent', None) is not None and a_._parent is not f.node:
                        a_ = a_._parent
                        if isinstance(a_, (ast.If, ast.IfExp, ast.While)) and any(isinstance(x_, ast.Name) and x_.id == loc for x_ in ast.walk(a_.test)):
                            tested = True
                    if not tested:
                        needs = True
            if needs:
                markers = [('open', g), ('close', g)]
                Rm = rx.regex_lang(r['pattern'], r['flags'], 'match', [g], markers, alpha)
                wb = Rm.minus(rx.has_group(alpha, markers, g)).witness()
                if wb is not None:
                    rep.fail('C15.R3', f.site, what, 'group %d of %s does not participate for %r but its value is used as text (a method is called on it, it is matched again or stored in the block): '
                             'AttributeError / TypeError, or None written out as "None"' % (g, rname, wb),
                             where='%s:%d' % (f.module.relpath, n.lineno))
                    continue
            rep.ok('C15.R3', f.site, what, 'group exists%s' % (' and always participates' if needs else ''), nontrivial=needs)
    # attribute stores on the block being filled: where the attribute is a property, its setter runs inside the parser; a setter
    # that can raise (a raise statement, or a validating constructor of the version classes) is an escape outside _parse_error
    cb = {}
    cmod = src.mod(M)
    cdef = cmod.classes.get('ChangeBlock')
    for st in (cdef.body if cdef is not None else []):
        if isinstance(st, ast.Assign) and isinstance(st.value, ast.Call) and norm(st.value.func) == 'property' and len(st.value.args) >= 2 \
                and isinstance(st.value.args[1], ast.Name):
            for t_ in st.targets:
                if isinstance(t_, ast.Name):
                    cb[t_.id] = cmod.funcs.get('ChangeBlock.' + st.value.args[1].id)
    for fn_ in cmod.funcs.values():
        if fn_.cls == 'ChangeBlock' and isinstance(fn_.node, ast.FunctionDef):
            for d in fn_.node.decorator_list:
                if isinstance(d, ast.Attribute) and d.attr == 'setter':
                    cb[fn_.node.name] = fn_
    blockvars = {norm(a.targets[0]) for a in walk_no_nested(f.node) if isinstance(a, ast.Assign) and isinstance(a.value, ast.Call) and norm(a.value.func) == 'ChangeBlock'}
    n_prop = 0
    for a in walk_no_nested(model.fnode):
        if not (isinstance(a, ast.Assign) and isinstance(a.targets[0], ast.Attribute) and norm(a.targets[0].value) in blockvars):
            continue
        setter = cb.get(a.targets[0].attr)
        if setter is None:
            continue
        n_prop += 1
        what = 'setter of %s.%s' % (norm(a.targets[0].value), a.targets[0].attr)
        risky = [n_ for n_ in ast.walk(setter.node) if isinstance(n_, ast.Raise)
                 or (isinstance(n_, ast.Call) and norm(n_.func) in ('Version', 'BaseVersion', 'NativeVersion', 'AptPkgVersion', 'int', 'float'))]
        guarded = any(isinstance(p_, ast.Try) for p_ in _ancestors(a))
        if risky and not guarded:
            rep.fail('C15.R3', f.site, what, 'the parser assigns through a property whose setter (%s) can raise (%s): the lenient constructor raises instead of warning'
                     % (setter.qual, norm(risky[0])[:50]), where='%s:%d' % (f.module.relpath, a.lineno))
        else:
            rep.ok('C15.R3', f.site, what, 'setter %s cannot raise' % setter.qual, nontrivial=False)
    # decode of non-str lines is the only other implicit source (text input: not taken)
    rep.ok('C15.R3', f.site, 'explicit raises', 'none outside _parse_error (see R1)', nontrivial=False)


def _ancestors(n):
    n = getattr(n, '_parent', None)
    while n is not None:
        yield n
        n = getattr(n, '_parent', None)


def r4_eof(rep, src, model, states):
    f = model.f
    for k in sorted(states, key=str):
        effs = model.eof(k)
        open_block = k[0] in ('start_of_change_data', 'more_changes_or_trailer') or (k[0] == 'slurp_to_end' and k[1] in ('start_of_change_data', 'more_changes_or_trailer'))
        clean = k[0] == 'next_heading_or_eof' or (k[0] == 'slurp_to_end' and k[1] == 'next_heading_or_eof')
        for e in effs:
            warns = any(x[0] == 'warn' for x in e)
            app = any(x[0] == 'block-appended' for x in e)
            what = 'end of input in state %s%s' % (k[0], '/%s' % k[1] if k[1] else '')
            if open_block and not (warns and app):
                rep.fail('C15.R4', f.site, what, 'a block is still open here but the end of input %s: the collected changes are lost or no diagnostic is given'
                         % ('does not append it' if not app else 'is not reported'), where=f.where)
            elif clean and (warns or app):
                rep.fail('C15.R4', f.site, what, 'the end of a complete changelog is reported as an error / appends an empty block', where=f.where)
            elif warns != app:
                rep.fail('C15.R4', f.site, what, 'diagnostic and recovery disagree (warn=%s, block appended=%s)' % (warns, app), where=f.where)
            else:
                rep.ok('C15.R4', f.site, what, 'warn+append' if warns else 'clean')


def check(src, rep, tier):
    rep.explanation = ('C15: the line loop of Changelog.parse_changelog is interpreted over (state, saved state, block-exists flag, line '
                       'language): conditions on regex matches split the line language with automata built from the regex literals, conditions '
                       'on the state variables are decided, the rest forks.  Reachable abstract states and transitions are enumerated to a '
                       'fixpoint.  Rules: funnel (_parse_error shape, every call forwards `strict`, no direct warn/raise), typestate '
                       '(assert False unreachable, _blocks[-1] only with a block, every line stored), implicit exceptions (";" in every '
                       'topline match, group indices/participation), EOF handling per reachable state.')
    rep.not_decided = ['the normal-form (fixpoint) clause beyond the writer/reader agreements of C04', 'bytes input that is not valid in the given encoding',
                       'editing calls (new_block/add_change) followed by format']
    rep.need('C15.R1', 4)
    rep.need('C15.R2', 3)
    rep.need('C15.R3', 8)
    rep.need('C15.R4', 6)
    from . import common
    rep.need('C15.R7', 3)
    n_v, n_e = len(rep.violations), len(rep.errors)
    rep.guard('C15.R7', r7_end_to_end, src, tier)
    texts_hold = len(rep.violations) == n_v and len(rep.errors) == n_e
    # a function behind a memo runs once per argument tuple: what it reports (the lenient parser's warnings) is reported once
    rep.guard('C15.R8', common.check_memo_is_silent, src, 'C15.R8', ['changelog'],
              'a changelog that is parsed a second time (or a second block with the same heading text) is read without the warning that strict parsing turns into an error')
    # the transition-system readings of the line loop (exact for EVERY line of each class when the loop is in the model's vocabulary);
    # where it is not, the interpreted texts decide
    softm = common.SoftErrors(rep, lambda: texts_hold, 'the interpreted texts (C15.R7), which hold')
    softm.guard('C15.R1', r1_funnel, src)

    def rest(r):
        model = Model(src, r)
        out = r2_typestate(r, src, model)
        return model, out[0]
    got = softm.guard('C15.R2', rest)
    if got is not None:
        model, states = got
        softm.guard('C15.R3', r3_no_other_escape, src, model)
        softm.guard('C15.R4', r4_eof, src, model, states)
    elif texts_hold:
        for r_ in ('C15.R2', 'C15.R3', 'C15.R4'):
            rep.min_instances[r_] = 0
    rep.need('C15.R5', 10)
    rep.guard('C15.R5', common.check_line_primitive, src, 'C15.R5', [M + ':Changelog.parse_changelog'],
              'the text str() writes for a changelog read from a file object is not read back as the same lines')
    # (the template-level reading of the normal form: exact for every block the writer can produce when the writer is in its vocabulary)
    n_r5 = sum(1 for i_ in rep.instances if i_.get('rule') == 'C15.R5')
    common.SoftErrors(rep, lambda: texts_hold, 'the interpreted texts (C15.R7), which hold').guard('C15.R5', r5_normal_form, src)
    if rep.min_instances.get('C15.R5') == 0:
        rep.min_instances['C15.R5'] = n_r5
    from . import common as _common_flags
    rep.guard('C15.R3', _common_flags.check_re_positional_flags, src, 'C15.R3', 'changelog', 'a line with more separators than that is read differently')


def r7_end_to_end(rep, src, tier):
    """the three clauses on whole texts: the constructor, str() and the constructor again interpreted (sa.heap, CPython's regex engine on
    decided lines) on a family of changelog texts built from line classes -- two blocks whose trailers are, independently, complete /
    without details / with one blank before the date / missing / replaced by another line, and degenerate texts -- under both settings of
    allow_empty_author: lenient parsing returns; strict parsing raises the parse error exactly when lenient parsing warned; and when the
    result can be formatted, the text parses to the same blocks and formats to itself."""
    from .. import heap as H
    mod = src.mod(M)
    init = mod.method('Changelog', '__init__')
    if init is None:
        raise AnalysisError('%s:Changelog.__init__ not found' % M)
    rep.saw_func(init)
    H1, H2 = 'pkg (1.0-1) unstable; urgency=low', 'pkg (0.9) stable; urgency=high'
    C, B = '  * change', ''
    TRAILERS = {'complete': ' -- A B <a@b.c>  Thu, 01 Jan 2004 00:00:00 +0000', 'without details': ' --', 'one blank before the date': ' -- A B <a@b.c> Thu, 01 Jan 2004 00:00:00 +0000',
                'missing': None, 'replaced by another line': 'something else'}

    def block(h_, t_):
        return [h_, B, C, B] + ([TRAILERS[t_]] if TRAILERS[t_] is not None else [])
    texts = []
    for t1 in TRAILERS:
        for t2 in TRAILERS:
            texts.append(('two blocks, the trailer of the first %s, of the second %s' % (t1, t2), block(H1, t1) + [B] + block(H2, t2)))
    full = block(H1, 'complete')
    texts += [('the empty text', []), ('a blank line', [B]), ('a heading only', [H1]), ('a heading and a change', [H1, B, C]), ('two headings', [H1, H2]),
              ('blank lines in front', [B, B] + full), ('a change line only', [C]), ('a trailer only', [TRAILERS['complete']]),
              ('a block followed by editor settings', full + [B, 'Local variables:', 'mode: debian-changelog', 'End:']),
              ('a block followed by a vim line', full + [B, 'vim: set ts=4:']), ('a block followed by an old-format entry', full + [B, 'Old Changelog:', '  free text']),
              ('a block followed by comments', full + [B, '# comment', '/* more */']), ('no blank line between two blocks', full + block(H2, 'complete')),
              ('a change line after the trailer', full + [C]), ('two trailers', full + [TRAILERS['complete']]),
              # (blocks whose stored change lines are exactly [''], [] and ['', ''])
              ('one blank line between heading and trailer', [H1, B, TRAILERS['complete']]), ('the trailer right after the heading', [H1, TRAILERS['complete']]),
              ('two blank lines between heading and trailer', [H1, B, B, TRAILERS['complete']]),
              ('one blank line between heading and trailer, then a complete block', [H1, B, TRAILERS['complete'], B] + block(H2, 'complete'))]

    from .changelogmodel import interpret_text
    bad = {'total': None, 'strict': None, 'normal': None}
    n = 0
    for label, lines in texts:
        for final_nl in ((True, False) if tier == 'thorough' or lines == full else (True,)):
            text = '\n'.join(lines) + ('\n' if lines and final_nl else '')
            for aea in (False, True):
                n += 1
                where_ = '%s%s, allow_empty_author=%s' % (label, '' if final_nl else ' (last line unterminated)', aea)
                r1 = interpret_text(src, text, False, aea)
                warned = r1['warned']
                if r1['raised'] is not None:
                    bad['total'] = bad['total'] or '%s: the lenient constructor raises %s on %r' % (where_, r1['raised'], text)
                    continue
                exc_s = interpret_text(src, text, True, aea, and_format=False)['raised']
                if (exc_s is not None) != bool(warned) or (exc_s is not None and not exc_s.endswith('ChangelogParseError')):
                    bad['strict'] = bad['strict'] or '%s: lenient parsing warns %s, strict parsing %s (text %r)' % (
                        where_, ('%d time(s), first %r' % (len(warned), warned[0])) if warned else 'not at all', 'raises %s' % exc_s if exc_s else 'returns', text)
                if r1['format_raised'] is not None:
                    if not r1['format_raised'].endswith('ChangelogCreateError'):          # (cannot be formatted: the clause does not speak)
                        bad['normal'] = bad['normal'] or '%s: str() raises %s' % (where_, r1['format_raised'])
                    continue
                out, b1 = r1['text'], r1['blocks']
                r2 = interpret_text(src, out, False, aea)
                if r2['raised'] is not None or r2['format_raised'] is not None:
                    bad['normal'] = bad['normal'] or '%s: the formatted text %r makes %s raise %s' % (where_, out, 'the lenient constructor' if r2['raised'] else 'str()', r2['raised'] or r2['format_raised'])
                    continue
                b2, out2 = r2['blocks'], r2['text']
                if b1 != b2:
                    k_ = next((i for i in range(min(len(b1), len(b2))) if b1[i] != b2[i]), min(len(b1), len(b2)))
                    bad['normal'] = bad['normal'] or ('%s: parsed from %r the changelog has %d block(s); its formatted text %r parses to %d block(s)%s' % (
                        where_, text, len(b1), out, len(b2), '' if k_ >= min(len(b1), len(b2)) else ', block %d differs in %s' % (
                            k_ + 1, sorted(a_ for a_ in b1[k_] if b1[k_][a_] != b2[k_][a_]))))
                elif out2 != out:
                    bad['normal'] = bad['normal'] or '%s: the formatted text %r formats to %r the second time' % (where_, out, out2)
    rep.analysed['paths'] += n
    site = init.site
    for key, what in (('total', 'lenient parsing returns'), ('strict', 'strict parsing raises exactly when lenient parsing warns'), ('normal', 'formatted output is a normal form')):
        if bad[key]:
            rep.fail('C15.R7', site, what + ' (interpreted texts)', bad[key], where=init.where)
        else:
            rep.ok('C15.R7', site, what + ' (interpreted texts)', '%d texts' % n)


class _Proxy:
    """report adaptor: re-labels the C04 writer/reader agreement instances as C15.R5"""

    def __init__(self, rep):
        self._rep = rep

    def ok(self, rule, site, what, detail=None, nontrivial=True):
        self._rep.ok('C15.R5', site, '%s: %s' % (rule, what), detail, nontrivial)

    def fail(self, rule, site, construct, msg, detail=None, where=None):
        self._rep.fail('C15.R5', site, '%s: %s' % (rule, construct), 'formatted output is not a normal form: ' + msg, detail, where)

    def __getattr__(self, name):
        return getattr(self._rep, name)


def r5_normal_form(rep, src):
    """what _format writes is read back with the same attributes (the writer/reader agreements of C04)"""
    from . import C04
    px = _Proxy(rep)
    alpha = rx.alphabet('str')
    f, terms, raised = C04.extract_block_template(src, px, all_terms=True)
    lines = C04.cut_lines(terms[0])
    # every layout the writer has for a complete block is header / stored change lines / trailer / stored trailing lines
    for k_, t_ in enumerate(terms):
        C04.r4_layout(px, C04.cut_lines(t_), f, ' (content-dependent layout %d)' % (k_ + 1) if k_ else '')
    # an attribute that is set is written: in every world in which _format returns, each optional attribute that is present has
    # its slot in the text (else the parsed-back block lacks what the object holds -- e.g. author/date assigned to a block that
    # was parsed without trailer)
    _f, worlds, _r = C04.extract_block_template(src, px, all_terms='worlds')
    optional = ['self.package', 'self._raw_version', 'self.distributions', 'self.urgency', 'self.author', 'self.date']
    lost = None
    nw = 0
    for dec, term in worlds:
        nw += 1
        have = set(strlang.slots_of(term))
        for a_ in optional:
            # (an attribute the world did not even look at is written in none of its instances, set or not)
            if dec.get(('present', a_)) is not False and a_ not in have and lost is None:
                lost = (a_, {k[1]: v for k, v in dec.items() if k[0] in ('present', 'bool')})
    if lost:
        rep.fail('C15.R5', f.site, 'an attribute that is set is written', 'in the configuration %s the block is formatted without %s even when it is set: the parsed-back block '
                 'lacks it (the output is not a normal form of the object)' % (lost[1], lost[0]), where=f.where)
    elif nw < 4:
        raise AnalysisError('%s: only %d formatting worlds' % (f.site, nw))
    else:
        rep.ok('C15.R5', f.site, 'an attribute that is set is written', '%d configurations in which _format returns' % nw)
    if len(lines) < 3 or lines[0][0] != 'line':
        raise AnalysisError('%s: block template has no header line' % f.site)
    C04.r1_header(px, src, f, lines[0][1], alpha)
    trailer = [t for k, t in lines if k == 'line'][1:2]
    if not trailer:
        raise AnalysisError('%s: block template has no trailer line' % f.site)
    C04.r2_trailer(px, src, f, trailer[0], alpha)

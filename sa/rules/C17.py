"""C17 -- copyright documents and license texts survive dump and re-parse."""
import ast
import re

from .. import rx, strlang
from ..core import AnalysisError, norm, walk_no_nested, flat

META = {
    'design_ref': 'DESIGN.md §3 C17',
    'technique': 'composition of the per-line encoder and decoder as string functions by path enumeration over an abstract string value '
                 '(literal prefix + input line + literal suffix) with regular constraints on the input line (predicate languages and '
                 'quotients on automata): decode(encode(x)) is the identity on the property\'s line domain; regular-language agreement '
                 'between the writer-side validator and the reader-side splitter of the list converters; AST pairing/wiring rules',
    'level_text': 'Static decision: for every line of the stated domain the decoder applied to the encoder\'s output returns the line '
                  '(first line and continuation lines separately), the decoder rejects a continuation without the prefix with the format '
                  'error; a value accepted by the space-separated writer is never split by the reader; every restricted field uses the '
                  'from_str/to_str pair of one converter; wrapper getter/setter use the field name; document assembly order.',
    'level_note': 'trusted: the small string-function interpreter (unknown constructs are ANALYSIS-ERROR), CPython re parser, automata engine',
}

M = 'copyright'


# ---- abstract string values ------------------------------------------------------------------------

class SV:
    """pre + core + suf ; core is 'X' (the input line) or None (constant)"""

    def __init__(self, pre='', core='X', suf=''):
        self.pre, self.core, self.suf = pre, core, suf

    def __repr__(self):
        return '%r+%s+%r' % (self.pre, self.core, self.suf) if self.core else repr(self.pre + self.suf)

    def const(self):
        return self.pre + self.suf if self.core is None else None


class LineFn:
    """interprets the body of a `for i, line in enumerate(lines)` loop as a function of one line"""

    def __init__(self, f, alpha):
        self.f = f
        self.alpha = alpha
        loops = [s for s in f.node.body if isinstance(s, ast.For)]
        if len(loops) != 1 or not (isinstance(loops[0].target, ast.Tuple) and norm(loops[0].iter).startswith('enumerate(')):
            raise AnalysisError('%s: expected one `for i, line in enumerate(...)` loop' % f.site)
        self.loop = loops[0]
        self.ivar, self.lvar = [norm(x) for x in self.loop.target.elts]
        self.listvar = norm(self.loop.iter)[len('enumerate('):-1]
        self.inplace = any(isinstance(s, ast.Assign) and isinstance(s.targets[0], ast.Subscript) and norm(s.targets[0].value) == self.listvar
                           for s in walk_no_nested(self.loop))

    def run(self, first, value, L):
        """outcomes [(kind, SV|exc, L)] for a line with abstract value `value` whose X ranges over L"""
        outs = []
        self._run(list(self.loop.body), first, value, L, outs, emitted=None)
        return outs

    def _finish(self, value, L, outs, emitted, inp):
        if emitted is not None:
            outs.append(('emit', emitted, L))
        elif self.inplace:
            outs.append(('emit', inp, L))
        else:
            outs.append(('drop', None, L))

    def _run(self, stmts, first, value, L, outs, emitted, inp=None):
        inp = inp if inp is not None else value
        for k, st in enumerate(stmts):
            if isinstance(st, ast.Expr) and isinstance(st.value, ast.Constant):
                continue
            if isinstance(st, ast.If):
                for truth, L2 in self.cond(st.test, first, value, L):
                    self._run(list(st.body if truth else st.orelse) + list(stmts[k + 1:]), first, value, L2, outs, emitted, inp)
                return
            if isinstance(st, ast.Continue):
                self._finish(value, L, outs, emitted, inp)
                return
            if isinstance(st, ast.Raise):
                outs.append(('raise', norm(st.exc.func) if isinstance(st.exc, ast.Call) else norm(st.exc), L))
                return
            if isinstance(st, ast.Assign) and norm(st.targets[0]) == self.lvar:
                value = self.ev(st.value, value)
                continue
            if isinstance(st, ast.Assign) and isinstance(st.targets[0], ast.Subscript) and norm(st.targets[0].value) == self.listvar \
                    and norm(st.targets[0].slice) == self.ivar:
                emitted = self.ev(st.value, value)
                continue
            if isinstance(st, ast.Expr) and isinstance(st.value, ast.Call) and isinstance(st.value.func, ast.Attribute) \
                    and st.value.func.attr == 'append' and len(st.value.args) == 1:
                emitted = self.ev(st.value.args[0], value)
                continue
            raise AnalysisError('%s: statement outside the line-function vocabulary: %s' % (self.f.site, norm(st)[:60]))
        self._finish(value, L, outs, emitted, inp)

    def ev(self, e, value):
        if isinstance(e, ast.Constant) and isinstance(e.value, str):
            return SV(e.value, None, '')
        if isinstance(e, ast.Name) and e.id == self.lvar:
            return value
        if isinstance(e, ast.BinOp) and isinstance(e.op, ast.Add):
            l, r = self.ev(e.left, value), self.ev(e.right, value)
            if l.core is None:
                return SV(l.const() + r.pre, r.core, r.suf)
            if r.core is None:
                return SV(l.pre, l.core, l.suf + r.const())
        if isinstance(e, ast.Subscript) and isinstance(e.slice, ast.Slice) and e.slice.upper is None and e.slice.step is None \
                and isinstance(e.slice.lower, ast.Constant) and isinstance(e.slice.lower.value, int) and e.slice.lower.value >= 0:
            v = self.ev(e.value, value)
            k = e.slice.lower.value
            if v.core is None:
                return SV(v.const()[k:], None, '')
            if len(v.pre) >= k:
                return SV(v.pre[k:], v.core, v.suf)
            # cuts into the unknown part: still a value, but no longer the input itself
            return SV('', 'X[%d:]' % (k - len(v.pre)) if v.core == 'X' else v.core + '[%d:]' % k, v.suf)
        raise AnalysisError('%s: expression outside the line-function vocabulary: %s' % (self.f.site, norm(e)[:60]))

    def cond(self, t, first, value, L):
        """[(truth, L')]"""
        if isinstance(t, ast.BoolOp):
            isand = isinstance(t.op, ast.And)
            res = []

            def rec(i, lang):
                if i == len(t.values):
                    res.append((isand, lang))
                    return
                for truth, l2 in self.cond(t.values[i], first, value, lang):
                    if truth != isand:
                        res.append((truth, l2))
                    else:
                        rec(i + 1, l2)
            rec(0, L)
            return res
        if isinstance(t, ast.UnaryOp) and isinstance(t.op, ast.Not):
            return [(not a, l) for a, l in self.cond(t.operand, first, value, L)]
        names = {n.id for n in ast.walk(t) if isinstance(n, ast.Name)}
        if names <= {self.ivar}:
            txt = norm(t)
            table = {'%s != 0' % self.ivar: not first, '%s == 0' % self.ivar: first, self.ivar: not first, '%s > 0' % self.ivar: not first,
                     '%s >= 1' % self.ivar: not first, '%s < 1' % self.ivar: first}
            if txt in table:
                return [(table[txt], L)]
            raise AnalysisError('%s: index condition outside the vocabulary: %s' % (self.f.site, txt))
        if names <= {self.lvar}:
            LP = strlang.pred_lang(t, self.lvar, self.alpha)
            c = value.const()
            if c is not None:
                return [(LP.accepts(c), L)]
            if value.core != 'X':
                return [(True, L), (False, L)]
            LX = rx.quotient(LP, value.pre, value.suf)
            yes, no = L.intersect(LX), L.minus(LX)
            out = []
            if not yes.is_empty():
                out.append((True, yes))
            if not no.is_empty():
                out.append((False, no))
            return out
        raise AnalysisError('%s: condition outside the line-function vocabulary: %s' % (self.f.site, norm(t)[:60]))


def r1_codec(rep, src):
    enc = src.func(M + ':format_multiline_lines')
    dec = src.func(M + ':parse_multiline_as_lines')
    rep.saw_func(enc)
    rep.saw_func(dec)
    alpha = rx.alphabet('str')
    noboundary = alpha.mask_of(lambda c: len(('a' + c + 'b').splitlines()) == 1)
    anyline = rx.from_function(alpha, [], 0, lambda s, sym: 0 if (s == 0 and noboundary >> sym & 1) else 1, lambda s: s == 0)
    ws_only = rx.regex_lang(r'\s+', 0, 'fullmatch', alpha=alpha)
    lone_dot = rx.regex_lang(r'\.', 0, 'fullmatch', alpha=alpha)
    dom_cont = anyline.minus(ws_only).minus(lone_dot)
    E, D = LineFn(enc, alpha), LineFn(dec, alpha)
    n = 0
    for first, dom, label in ((True, anyline, 'first line'), (False, dom_cont, 'continuation line')):
        for k1, v1, L1 in E.run(first, SV(), dom):
            if k1 != 'emit':
                rep.fail('C17.R1', enc.site, '%s is encoded' % label, 'the encoder %s for the line %r' % ('raises ' + str(v1) if k1 == 'raise' else 'drops the line', L1.witness()),
                         where=enc.where)
                continue
            for k2, v2, L2 in D.run(first, v1, L1):
                n += 1
                what = '%s: decode(encode(x)) = x  [encoded as %r]' % (label, v1)
                w = None
                if k2 == 'raise':
                    w = 'the decoder raises %s on the encoder\'s output for the line %r' % (v2, L2.witness())
                elif k2 != 'emit':
                    w = 'the decoder drops the line %r' % L2.witness()
                elif v2.core == 'X' and v2.pre == '' and v2.suf == '':
                    pass
                elif v2.core is None:
                    c = v2.const()
                    only = rx.regex_lang(rx.literal(c), 0, 'fullmatch', alpha=alpha) if c else rx.regex_lang('', 0, 'fullmatch', alpha=alpha)
                    wit = L2.not_subset_witness(only)
                    if wit is not None:
                        w = 'the line %r is encoded as %r and decoded as %r' % (wit, _inst(v1, wit), c)
                else:
                    wit = L2.witness()
                    w = 'the line %r comes back as %r' % (wit, _inst(v2, wit))
                if w:
                    rep.fail('C17.R1', dec.site, what, w, detail={'encoded': repr(v1)}, where=dec.where)
                else:
                    rep.ok('C17.R1', dec.site, what, 'identity on %s' % ('all first lines' if first else 'lines that are empty or non-blank and not a lone "."'))
    rep.analysed['paths'] += n
    if n < 3:
        raise AnalysisError('only %d encoder/decoder path pairs analysed' % n)
    # decoder rejects a continuation line without the prefix
    rej = [(k, v, L) for k, v, L in D.run(False, SV(), anyline) if k == 'raise']
    ok = rej and all(v == 'MachineReadableFormatError' for k, v, L in rej)
    sp = rx.regex_lang(r' (?s:.*)', 0, 'fullmatch', alpha=alpha)
    accepted_wo_prefix = [L for k, v, L in D.run(False, SV(), anyline.minus(sp)) if k != 'raise']
    if ok and not accepted_wo_prefix:
        rep.ok('C17.R1', dec.site, 'continuation without the prefix is rejected', 'MachineReadableFormatError')
    else:
        rep.fail('C17.R1', dec.site, 'continuation without the prefix is rejected',
                 'a continuation line that does not start with a blank is %s' % ('accepted, e.g. %r' % accepted_wo_prefix[0].witness() if accepted_wo_prefix else 'not reported with MachineReadableFormatError'),
                 where=dec.where)
    # join / split
    et, dt = norm(enc.node), norm(dec.node)
    if "return '\\n'.join(out_lines)" in et and 'lines = s.splitlines()' in dt and 'return lines' in dt:
        rep.ok('C17.R1', enc.site, 'lines joined with "\\n" / split with splitlines()', 'ok', nontrivial=False)
    else:
        rep.fail('C17.R1', enc.site, 'lines joined with "\\n" / split with splitlines()', 'the encoder does not join its lines with "\\n" or the decoder does not split with splitlines()', where=enc.where)
    # License wiring
    lt = src.func(M + ':License.to_str')
    lf = src.func(M + ':License.from_str')
    if 'format_multiline_lines([self.synopsis] + self.text.splitlines())' in norm(lt.node):
        rep.ok('C17.R1', lt.site, 'license = synopsis line + text lines', 'encoded with format_multiline_lines', nontrivial=False)
    else:
        rep.fail('C17.R1', lt.site, 'license = synopsis line + text lines', 'License.to_str does not encode [synopsis] + text lines', where=lt.where)
    t = norm(lf.node)
    if 'lines = parse_multiline_as_lines(s)' in t and "cls(lines[0], text='\\n'.join(itertools.islice(lines, 1, None)))" in t:
        rep.ok('C17.R1', lf.site, 'synopsis = first decoded line, text = the rest', 'ok', nontrivial=False)
    else:
        rep.fail('C17.R1', lf.site, 'synopsis = first decoded line, text = the rest', 'License.from_str does not rebuild synopsis/text from the decoded lines', where=lf.where)


def _inst(v, x):
    return v.pre + (x if v.core else '') + v.suf


def r2_converters(rep, src):
    m = src.mod(M)
    alpha = rx.alphabet('str')
    # every RestrictedField takes from_str / to_str from the same converter
    n = 0
    for cname, cdef in m.classes.items():
        for st in cdef.body:
            if isinstance(st, ast.Assign) and isinstance(st.value, ast.Call) and norm(st.value.func).endswith('RestrictedField'):
                n += 1
                kw = {k.arg: norm(k.value) for k in st.value.keywords}
                fs, ts = kw.get('from_str'), kw.get('to_str')
                name = norm(st.targets[0])
                site = '%s:%s.%s' % (M, cname, name)
                if fs is None and ts is None:
                    rep.ok('C17.R2', site, 'converter pair', 'plain string field', nontrivial=False)
                    continue
                if fs is None and ts in m.funcs and _is_identity_validator(m.funcs[ts]):
                    rep.ok('C17.R2', site, 'converter pair', 'plain string field validated by %s (returns its argument)' % ts)
                    continue
                if fs and ts and fs.rsplit('.', 1)[0] == ts.rsplit('.', 1)[0] and fs.endswith('from_str') and ts.endswith('to_str'):
                    rep.ok('C17.R2', site, 'converter pair', '%s / %s' % (fs, ts))
                elif fs and ts and {fs, ts} <= {'format_multiline', 'parse_multiline'} and fs == 'parse_multiline' and ts == 'format_multiline':
                    rep.ok('C17.R2', site, 'converter pair', 'parse_multiline / format_multiline')
                else:
                    rep.fail('C17.R2', site, 'converter pair', 'the field is read with %s but written with %s: a value written through the property does not read back'
                             % (fs, ts), where='%s:%d' % (m.relpath, st.lineno))
    if n < 8:
        raise AnalysisError('only %d RestrictedField declarations found in copyright.py' % n)
    # _SpaceSeparated: what the writer accepts is never split by the reader
    r = src.regex(M, '_has_space', cls='_SpaceSeparated')
    rep.saw_regex('copyright:_SpaceSeparated._has_space')
    f = src.func(M + ':_SpaceSeparated.to_str')
    g = src.func(M + ':_SpaceSeparated.from_str')
    rep.saw_func(f)
    t = norm(f.node)
    if not ('if cls._has_space.search(s):' in t and 'raise MachineReadableFormatError' in t and "return ' '.join(tmp)" in t):
        rep.fail('C17.R2', f.site, 'writer validates and joins with a blank', 'the space-separated writer does not reject items matched by _has_space and join with " "', where=f.where)
    else:
        rejected = rx.regex_lang(r['pattern'], r['flags'], 'search', alpha=alpha)
        splitter = alpha.mask_of(lambda c: c.isspace())
        has_split = rx.from_function(alpha, [], 0, lambda s, sym: 1 if (s == 1 or splitter >> sym & 1) else 0, lambda s: s == 1)
        gt = norm(g.node)
        if ".split()" not in gt:
            rep.fail('C17.R2', g.site, 'reader splits on whitespace', 'from_str does not use str.split()', where=g.where)
        else:
            w = has_split.minus(rejected).witness()
            if w is not None:
                rep.fail('C17.R2', f.site, 'an accepted item is never split by the reader',
                         'the writer accepts the item %r (not matched by _has_space = %r with flags %s) but str.split() in from_str splits it: the list '
                         'reads back with more/other items' % (w, r['pattern'], re.RegexFlag(r['flags'])), detail={'witness': w}, where=f.where)
            else:
                rep.ok('C17.R2', f.site, 'an accepted item is never split by the reader', 'every string containing a str.split() separator is rejected by _has_space')
    # _LineBased
    lf = src.func(M + ':_LineBased.to_str')
    lg = src.func(M + ':_LineBased.from_str')
    t, gt = norm(lf.node), norm(lg.node)
    if "if '\\n' in s:" in t and "tmp.append(' ' + process_and_validate(s))" in t and "return '\\n'.join(tmp)" in t and "tmp = ['']" in t \
            and '.strip().splitlines()' in gt and 'line.strip()' in gt:
        rep.ok('C17.R2', lf.site, 'line-based list: one item per continuation line', "'' + ('\\n ' + item)*, items stripped, no newline inside")
    else:
        rep.fail('C17.R2', lf.site, 'line-based list: one item per continuation line', 'the line-based converter does not write one validated item per line / read one item per line', where=lf.where)


def _is_identity_validator(fn):
    p = fn.params()
    rets = [r for r in ast.walk(fn.node) if isinstance(r, ast.Return)]
    stores = [n for n in ast.walk(fn.node) if isinstance(n, ast.Name) and n.id == p[0] and isinstance(n.ctx, ast.Store)]
    return len(p) == 1 and rets and all(r.value is not None and norm(r.value) == p[0] for r in rets) and not stores


def r3_wrapper(rep, src):
    f = src.func('deb822:RestrictedWrapper.__init_restricted_field')
    rep.saw_func(f)
    inner = {n.name: n for n in f.node.body if isinstance(n, ast.FunctionDef)}
    if set(inner) != {'getter', 'setter'}:
        raise AnalysisError('%s: getter/setter not found' % f.site)
    gt, st = norm(inner['getter']), norm(inner['setter'])
    okg = 'val = self.__data.get(field.name)' in gt and 'return field.from_str(val)' in gt and 'return val' in gt
    oks = 'val = field.to_str(val)' in st and 'self.__data[field.name] = val' in st and 'del self.__data[field.name]' in st \
        and "raise TypeError('value must not be None')" in st and 'if field.allow_none:' in st
    if okg:
        rep.ok('C17.R3', f.site + '.getter', 'reads field.name through from_str', 'ok')
    else:
        rep.fail('C17.R3', f.site + '.getter', 'reads field.name through from_str', 'the generated getter does not read data[field.name] and apply from_str', where=f.where)
    if oks:
        rep.ok('C17.R3', f.site + '.setter', 'writes field.name through to_str; None deletes', 'ok')
    else:
        rep.fail('C17.R3', f.site + '.setter', 'writes field.name through to_str; None deletes', 'the generated setter does not store to_str(val) under field.name / delete on None', where=f.where)
    ci = src.func('deb822:RestrictedWrapper._class_init')
    t = norm(ci.node)
    si = norm(src.func('deb822:RestrictedWrapper.__setitem__').node)
    if 'restricted_fields.append(val.name.lower())' in t and 'key.lower() in self.__restricted_fields' in si:
        rep.ok('C17.R3', ci.site, 'restricted keys compared case-insensitively', 'lower() on registration and on test', nontrivial=False)
    else:
        rep.fail('C17.R3', ci.site, 'restricted keys compared case-insensitively', 'restricted field names are not lower-cased on both sides', where=ci.where)
    if 'setattr(cls, attr_name, property(getter, setter' in norm(f.node):
        rep.ok('C17.R3', f.site, 'property installed under the attribute name', 'ok', nontrivial=False)
    else:
        rep.fail('C17.R3', f.site, 'property installed under the attribute name', 'the property is not installed as (getter, setter) under attr_name', where=f.where)


def r4_document(rep, src):
    f = src.func(M + ':Copyright.__init__')
    rep.saw_func(f)
    loops = [n for n in walk_no_nested(f.node) if isinstance(n, ast.For)]
    if len(loops) != 1:
        raise AnalysisError('%s: paragraph loop not found' % f.site)
    lp = loops[0]

    def ev(t, env):
        if isinstance(t, ast.BoolOp):
            vs = [ev(v, env) for v in t.values]
            return all(vs) if isinstance(t.op, ast.And) else any(vs)
        if isinstance(t, ast.UnaryOp) and isinstance(t.op, ast.Not):
            return not ev(t.operand, env)
        if isinstance(t, ast.Compare) and len(t.ops) == 1 and isinstance(t.left, ast.Constant) and t.left.value in env \
                and isinstance(t.ops[0], (ast.In, ast.NotIn)):
            r = env[t.left.value]
            return r if isinstance(t.ops[0], ast.In) else not r
        raise AnalysisError('%s: classification test outside the vocabulary: %s' % (f.site, norm(t)))

    def classify(stmts, env):
        for st in stmts:
            if isinstance(st, ast.If):
                return classify(st.body if ev(st.test, env) else st.orelse, env)
            for c in ast.walk(st):
                if isinstance(c, ast.Call) and norm(c.func) in ('FilesParagraph', 'LicenseParagraph', '_complain'):
                    return norm(c.func)
        return None
    table = {}
    for fl in (True, False):
        for li in (True, False):
            table[(fl, li)] = classify(lp.body, {'Files': fl, 'License': li})
    want = {(True, True): 'FilesParagraph', (True, False): 'FilesParagraph', (False, True): 'LicenseParagraph', (False, False): '_complain'}
    appended = norm(f.node).count('self.__paragraphs.append(') >= 2 and 'insert' not in norm(lp)
    if table == want and appended and 'self.__header = Header(paragraphs[0])' in norm(f.node) and norm(lp.iter) == 'range(1, len(paragraphs))':
        rep.ok('C17.R4', f.site, 'paragraph classification', 'header = first; Files (with or without License) → FilesParagraph; License only → LicenseParagraph; appended in order')
    else:
        bad = {k: v for k, v in table.items() if want[k] != v}
        rep.fail('C17.R4', f.site, 'paragraph classification', 'paragraphs are mis-classified %r or not kept in document order' % bad, where=f.where)
    d = src.func(M + ':Copyright.dump')
    t = flat(d.node)
    if "self.header.dump(f, text_mode=True)\nfor p in self.__paragraphs:\nf.write('\\n')\np.dump(f, text_mode=True)" in t:
        rep.ok('C17.R4', d.site, 'dump = header, then blank line + paragraph, in list order', 'ok')
    else:
        rep.fail('C17.R4', d.site, 'dump = header, then blank line + paragraph, in list order', 'dump does not write the header followed by "\\n" + each paragraph in order', where=d.where)
    a = src.func(M + ':Copyright.add_files_paragraph')
    t = flat(a.node)
    if 'last_i = -1\nfor i, p in enumerate(self.__paragraphs):\nif isinstance(p, FilesParagraph):\nlast_i = i\nself.__paragraphs.insert(last_i + 1, paragraph)' in t:
        rep.ok('C17.R4', a.site, 'new Files paragraph goes after the last Files paragraph', 'ok', nontrivial=False)
    else:
        rep.fail('C17.R4', a.site, 'new Files paragraph goes after the last Files paragraph', 'insertion position changed', where=a.where)


def check(src, rep, tier):
    rep.explanation = ('C17: (R1) the loop bodies of format_multiline_lines and parse_multiline_as_lines are interpreted as functions of one '
                       'line over abstract strings (literal prefix + input + literal suffix); conditions become regular constraints on the input '
                       '(predicate languages, quotients by the literal parts); every encoder path is composed with every decoder path and the '
                       'result must be the input on the property\'s domain (lines without boundaries; continuation lines empty or non-blank and '
                       'not a lone "."); the decoder must reject a missing prefix.  (R2) RestrictedField pairs; the language accepted by the '
                       'space-separated writer (complement of _has_space under its flags) contains no str.split() separator.  (R3) wrapper '
                       'getter/setter wiring.  (R4) classification, dump and insertion order.')
    rep.not_decided = ['the single-empty-line and trailing-newline corner cases of the text codec', 'Deb822 dump/parse of the paragraphs themselves (C02)']
    rep.need('C17.R1', 7)
    rep.need('C17.R2', 9)
    rep.need('C17.R3', 4)
    rep.need('C17.R4', 3)
    rep.guard('C17.R1', r1_codec, src)
    rep.guard('C17.R2', r2_converters, src)
    rep.guard('C17.R3', r3_wrapper, src)
    rep.guard('C17.R4', r4_document, src)

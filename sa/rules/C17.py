"""C17 -- copyright documents and license texts survive dump and re-parse."""
import ast
import re

from .. import rx, strlang
from ..core import AnalysisError, norm, walk_no_nested, flat

META = {
    'design_ref': 'DESIGN.md §5 C17',
    'technique': "abstract interpretation on symbolic strings with automatic case refinement: decode(encode(lines)) on lists of symbolic lines of the property's domain, License converters, the two list converters on symbolic items (accepted items must read back, refused ones raise the format error); regular-language inclusion between the writer-side validator and str.split(); property accessors and document construction/dump/insertion interpreted on stubs; line-primitive rule for the multiline codec; who-may-call rule for the raw store of the wrapped paragraphs; validating constructors interpreted on paragraphs the creators can write; the constructor of the underlying mapping adopts only its _parsed argument as backing store; the strict reader interpreted on a paragraph whose pattern is no legal glob; frame rule over the codec functions and converters (no memoising decorator, no shared result object); the two list converters interpreted on lists of 0 to 12 (thorough: 40) items and on hand-written field texts (CPython regex engine on decided texts) -- the symbolic reading is a second opinion behind it; no regex flag at the position of maxsplit / count",
    'level_text': 'Static decision: for every line of the stated domain the decoder applied to the encoder\'s output returns the line '
                  '(first line and continuation lines separately), the decoder rejects a continuation without the prefix with the format '
                  'error; a value accepted by the space-separated writer is never split by the reader; every restricted field uses the '
                  'from_str/to_str pair of one converter; wrapper getter/setter use the field name; document assembly order.',
    'level_note': 'trusted: the small string-function interpreter (unknown constructs are ANALYSIS-ERROR), CPython re parser, automata engine',
}

M = 'copyright'


# ---- R1: text codec by interpretation over symbolic lines -------------------------------------------

NOBOUND = r'[^\n\r\x0b\x0c\x1c\x1d\x1e\x85\u2028\u2029]'


def _interp(src, hooks=None):
    from .. import heap as H
    heap = H.Heap(src.mod(M), extra_modules=[src.mod('deb822')], hooks=hooks or {})
    heap.symbolic_strings = True
    return heap, H.Interp(heap)


def r1_codec(rep, src):
    """format_multiline_lines / parse_multiline_as_lines and the License converters interpreted on lists of symbolic
    lines: the first line S, a continuation line X (any text without a line boundary), an empty line.  Where a decision
    depends on X the case is split on X's language automatically.  On the property's domain (continuation lines empty, or
    non-blank and not a lone ".") decode(encode(lines)) must be the same list; a continuation line without the blank prefix
    must be rejected with MachineReadableFormatError."""
    from .. import heap as H, symstr
    from ..symstr import SStr
    enc = src.func(M + ':format_multiline_lines')
    dec = src.func(M + ':parse_multiline_as_lines')
    rep.saw_func(enc)
    rep.saw_func(dec)
    line = symstr.L(NOBOUND + '*')
    nonblank = symstr.L(NOBOUND + '*[^\\s]' + NOBOUND + '*')
    domainX = nonblank.minus(symstr.lit_lang('.'))
    n = 0

    def roundtrip(atoms):
        heap, it = _interp(src)
        S, X, Y = atoms['S'], atoms['X'], atoms['Y']
        lines = heap.new_list([S, X, SStr(), Y, SStr()])
        text = it.call(H.Closure(enc.node, {}, None, None), [lines])
        back = it.call(H.Closure(dec.node, {}, None, None), [text])
        return text, [symstr.lift(x) for x in heap.items(back)] if heap.is_list(back) else back
    try:
        # continuation lines of the property's domain (the empty one is in the list explicitly)
        results = symstr.explore({'S': line, 'X': domainX, 'Y': domainX}, roundtrip)
    except H.Raised as x:
        rep.fail('C17.R1', dec.site, 'decode(encode(lines)) = lines', 'raises %s (line %d) on a well-formed list of lines' % (x.exc, x.lineno), where=dec.where)
        results = []
    for langs, (text, back) in results:
        n += 1
        in_domain = all(langs[k].not_subset_witness(domainX) is None for k in ('X', 'Y'))
        outside = any(langs[k].intersect(domainX).is_empty() for k in ('X', 'Y'))
        if not in_domain and not outside:
            rep.error('C17.R1', 'case split does not separate the property domain (X: %r)' % langs['X'].witness())
            continue
        if outside:
            continue
        S, X, Y = (symstr.atom(k, langs[k]) for k in ('S', 'X', 'Y'))
        want = [S, X, SStr(), Y, SStr()]
        what = 'decode(encode(lines)) = lines for X like %r, Y like %r' % (langs['X'].witness(), langs['Y'].witness())
        if isinstance(back, list) and len(back) == len(want) and all(g.key() == w.key() for g, w in zip(back, want)):
            rep.ok('C17.R1', dec.site, what, 'encoded as %r' % (text,))
        else:
            rep.fail('C17.R1', dec.site, what, 'the lines [S, X, "", Y, ""] are encoded as %r and come back as %r' % (text, back), where=dec.where)
    rep.analysed['paths'] += n
    if n < 1:
        raise AnalysisError('no encoder/decoder case analysed')
    # decoder rejects a continuation line without the prefix; accepts any line with it
    def decode_cont(atoms):
        heap, it = _interp(src)
        try:
            back = it.call(H.Closure(dec.node, {}, None, None), [atoms['S'] + '\n' + atoms['Z']])
        except H.Raised as x:
            return ('raise', x.exc)
        return ('ok', [symstr.lift(x) for x in heap.items(back)])
    sp = symstr.L(' ' + NOBOUND + '*')
    bad = None
    for langs, res in symstr.explore({'S': line, 'Z': symstr.L(NOBOUND + '+')}, decode_cont):
        starts_blank = langs['Z'].not_subset_witness(sp) is None
        if not starts_blank and not langs['Z'].intersect(sp).is_empty():
            rep.error('C17.R1', 'case split does not separate lines with and without the blank prefix')
            continue
        if not starts_blank and res != ('raise', 'MachineReadableFormatError') and bad is None:
            bad = 'a continuation line that does not start with a blank (e.g. %r) is %s' % (langs['Z'].witness(), 'accepted' if res[0] == 'ok' else 'reported with ' + res[1])
        if starts_blank and res[0] != 'ok' and bad is None:
            bad = 'the well-formed continuation line %r is rejected with %s' % (langs['Z'].witness(), res[1])
    if bad:
        rep.fail('C17.R1', dec.site, 'continuation without the prefix is rejected', bad, where=dec.where)
    else:
        rep.ok('C17.R1', dec.site, 'continuation without the prefix is rejected', 'MachineReadableFormatError; prefixed lines accepted')
    # License: to_str encodes [synopsis] + text lines, from_str rebuilds (synopsis, text)
    lt = src.func(M + ':License.to_str')
    lf = src.func(M + ':License.from_str')
    rep.saw_func(lt)
    rep.saw_func(lf)
    syn_lang = symstr.L(NOBOUND + '*[^\\s]' + NOBOUND + '*')

    def license_roundtrip(atoms):
        S, T1, T2 = atoms['synopsis'], atoms['text1'], atoms['text2']

        def mk_license(it_, args, kw):
            return it_.h.alloc('License', {'synopsis': args[0] if args else kw.get('synopsis'), 'text': (args[1] if len(args) > 1 else kw.get('text', ''))})
        heap, it = _interp(src, hooks={'mk': mk_license})
        lic = heap.alloc('License', {'synopsis': S, 'text': T1 + '\n\n' + T2}, name='@license')
        try:
            text = it.call(H.Closure(lt.node, {}, lic, lt.cls), [])
            res = it.call(H.Closure(lf.node, {}, None, lf.cls), [('hook', 'mk'), text])
        except H.Raised as x:
            return ('raise', x.exc, x.lineno)
        o = heap.objs[res.name] if isinstance(res, H.Ref) else {}
        ok = isinstance(o.get('synopsis'), (SStr, str)) and symstr.lift(o['synopsis']).same(S) and symstr.lift(o.get('text') or '').same(T1 + '\n\n' + T2)
        return ('ok' if ok else 'differs', text, (o.get('synopsis'), o.get('text')))
    what = 'License.from_str(License.to_str()) = (synopsis, text)'
    results = symstr.explore({'synopsis': syn_lang, 'text1': domainX, 'text2': domainX}, license_roundtrip)
    badl = [(langs, r) for langs, r in results if r[0] != 'ok']
    if not badl:
        rep.ok('C17.R1', lf.site, what, '%d case(s) of (synopsis, "text1\\n\\ntext2")' % len(results))
    else:
        langs, r = badl[0]
        ex = (langs['synopsis'].witness(), '%s\n\n%s' % (langs['text1'].witness(), langs['text2'].witness()))
        if r[0] == 'raise':
            rep.fail('C17.R1', lf.site, what, 'raises %s (line %d) for License%r' % (r[1], r[2], ex), where=lf.where)
        else:
            rep.fail('C17.R1', lf.site, what, 'License%r is written as %r and read back as %r' % (ex, r[1], r[2]), where=lf.where)


def r2_converters(rep, src):
    m = src.mod(M)
    alpha = rx.alphabet('str')
    # every RestrictedField takes from_str / to_str from the same converter
    n = 0
    for cname, cdef in m.classes.items():
        for st in cdef.body:
            if isinstance(st, ast.Assign) and isinstance(st.value, ast.Call) and norm(st.value.func).endswith('RestrictedField'):
                n += 1
                kw = {k.arg: norm(k.value) for k in st.value.keywords}
                fs, ts = kw.get('from_str'), kw.get('to_str')
                name = norm(st.targets[0])
                site = '%s:%s.%s' % (M, cname, name)
                if fs is None and ts is None:
                    rep.ok('C17.R2', site, 'converter pair', 'plain string field', nontrivial=False)
                    continue
                if fs is None and ts in m.funcs and _is_identity_validator(m.funcs[ts]):
                    rep.ok('C17.R2', site, 'converter pair', 'plain string field validated by %s (returns its argument)' % ts)
                    continue
                if fs and ts and fs.rsplit('.', 1)[0] == ts.rsplit('.', 1)[0] and fs.endswith('from_str') and ts.endswith('to_str'):
                    rep.ok('C17.R2', site, 'converter pair', '%s / %s' % (fs, ts))
                elif fs and ts and {fs, ts} <= {'format_multiline', 'parse_multiline'} and fs == 'parse_multiline' and ts == 'format_multiline':
                    rep.ok('C17.R2', site, 'converter pair', 'parse_multiline / format_multiline')
                else:
                    rep.fail('C17.R2', site, 'converter pair', 'the field is read with %s but written with %s: a value written through the property does not read back'
                             % (fs, ts), where='%s:%d' % (m.relpath, st.lineno))
    if n < 8:
        raise AnalysisError('only %d RestrictedField declarations found in copyright.py' % n)
    # the two list converters, interpreted on symbolic items; items the writer must refuse are found by case refinement
    from .. import heap as H, symstr
    from ..symstr import SStr
    for cname, sep_desc in (('_SpaceSeparated', 'blank'), ('_LineBased', 'line')):
        f = src.func('%s:%s.to_str' % (M, cname))
        g = src.func('%s:%s.from_str' % (M, cname))
        rep.saw_func(f)
        rep.saw_func(g)
        anyitem = symstr.L('(?:' + NOBOUND + r'|\n)+')      # any text of the document domain (line boundaries other than \\n are outside it, see C08)

        def round2(atoms, f=f, g=g, cname=cname):
            heap, it = _interp(src)
            items = heap.new_list([atoms['I1'], atoms['I2']])
            try:
                text = it.call(H.Closure(f.node, {}, None, f.cls), ([('class', cname)] if any(norm(d) == 'classmethod' for d in f.node.decorator_list) else []) + [items])
            except H.Raised as x:
                return ('refused', x.exc, None)
            back = it.call(H.Closure(g.node, {}, None, g.cls), ([('class', cname)] if any(norm(d) == 'classmethod' for d in g.node.decorator_list) else []) + [text])
            return ('ok', text, [symstr.lift(x) for x in it.seq(back)])
        try:
            results = symstr.explore({'I1': anyitem, 'I2': symstr.L(r'[^\s]+')}, round2)
        except H.Raised as x:
            rep.fail('C17.R2', g.site, '%s: from_str(to_str(items)) = items' % cname, 'raises %s (line %d)' % (x.exc, x.lineno), where=g.where)
            continue
        bad = None
        n_ok = n_ref = 0
        for langs, res in results:
            I1, I2 = symstr.atom('I1', langs['I1']), symstr.atom('I2', langs['I2'])
            if res[0] == 'refused':
                n_ref += 1
                if res[1] != 'MachineReadableFormatError' and bad is None:
                    bad = 'an item like %r is refused with %s instead of MachineReadableFormatError' % (langs['I1'].witness(), res[1])
                continue
            _, text, back = res
            # accepted: the items must read back -- literally for the blank-separated list, stripped for the line list
            if cname == '_SpaceSeparated':
                want = [I1, I2]
            else:
                want = [I1.strip(), I2.strip()]
            if not (isinstance(back, list) and len(back) == 2 and all(x.key() == w.key() for x, w in zip(back, want))) and bad is None:
                bad = 'the items [%r, I2] (accepted by the writer) are written as %r and read back as %r: the list does not round-trip' % (langs['I1'].witness(), text, back)
            else:
                n_ok += 1
        what = '%s: from_str(to_str(items)) = items for every accepted item' % cname
        if bad:
            rep.fail('C17.R2', f.site, what, bad, where=f.where)
        elif n_ok == 0:
            rep.fail('C17.R2', f.site, what, 'no item is accepted', where=f.where)
        else:
            rep.ok('C17.R2', f.site, what, '%d accepted and %d refused item classes' % (n_ok, n_ref))
    # _SpaceSeparated: what the writer accepts is never split by the reader (language inclusion over the whole alphabet)
    r = src.regex(M, '_has_space', cls='_SpaceSeparated') if src.mod(M).const_nodes.get('_SpaceSeparated', {}).get('_has_space') is not None else None
    if r is not None:
        rep.saw_regex('copyright:_SpaceSeparated._has_space')
        rejected = rx.regex_lang(r['pattern'], r['flags'], 'search', alpha=alpha)
        splitter = alpha.mask_of(lambda c: c.isspace())
        has_split = rx.from_function(alpha, [], 0, lambda s_, sym: 1 if (s_ == 1 or splitter >> sym & 1) else 0, lambda s_: s_ == 1)
        w = has_split.minus(rejected).witness()
        f = src.func(M + ':_SpaceSeparated.to_str')
        if w is not None:
            rep.fail('C17.R2', f.site, 'an accepted item is never split by the reader',
                     'the item %r is not matched by _has_space = %r (flags %s) but str.split() splits it: the list reads back with more/other items'
                     % (w, r['pattern'], re.RegexFlag(r['flags'])), detail={'witness': w}, where=f.where)
        else:
            rep.ok('C17.R2', f.site, 'an accepted item is never split by the reader', 'every string containing a str.split() separator is matched by _has_space')


def r2c_lists_of_any_length(rep, src, tier):
    """the two list converters interpreted (sa.heap, CPython's regex engine on decided texts) on lists of 0 .. 12 items (thorough: up to
    40) and on hand-written field texts -- the list on the line after the field name, one item per line, several blanks / tabs / line
    breaks between two items, blanks at both ends: from_str(to_str(items)) gives the items, and a text reads as the items it shows,
    however many there are."""
    from .. import heap as H
    mod = src.mod(M)
    sizes = list(range(0, 13)) + ([20, 40] if tier == 'thorough' else [])
    n = 0
    for cname in ('_SpaceSeparated', '_LineBased'):
        f = src.func('%s:%s.to_str' % (M, cname))
        g = src.func('%s:%s.from_str' % (M, cname))
        rep.saw_func(g)

        def conv(fn, arg, cname=cname):
            heap = H.Heap(mod, extra_modules=[src.mod('deb822')])
            heap.native_regex = True
            it = H.Interp(heap)
            pre = [('class', cname)] if any(norm(d) == 'classmethod' for d in fn.node.decorator_list) else []
            r_ = it.call(H.Closure(fn.node, {}, None, fn.cls), pre + [heap.new_list(list(arg)) if isinstance(arg, list) else arg])
            if isinstance(r_, (str, type(None))):
                return r_
            if hasattr(r_, 'concrete') and not isinstance(r_, H.Ref):
                return r_.concrete()
            return [x_.concrete() if hasattr(x_, 'concrete') else x_ for x_ in it.seq(r_)]
        bad = None
        for k in sizes:
            items = ['src/lib/file%d.c' % i for i in range(k)]
            n += 1
            try:
                text = conv(f, items)
                back = conv(g, text)
            except H.Raised as x:
                bad = bad or 'a list of %d items: raises %s (line %d)' % (k, x.exc, x.lineno)
                continue
            if list(back) != items:
                bad = bad or 'a list of %d items is written as %r and read back as %d item(s), the last one %r' % (k, text, len(back), (list(back) or [None])[-1])
        texts = []
        for k in (1, 3, 9, 10, 12):
            items = ['d%d/*' % i for i in range(k)]
            if cname == '_SpaceSeparated':
                texts += [('\n ' + '\n '.join(items), items), ('  ' + ' \t '.join(items) + '  \n', items), (' '.join(items[:1]) + ''.join('\n   ' + x_ for x_ in items[1:]), items)]
            else:
                texts += [('\n ' + '\n '.join(items), items), ('\n'.join('  ' + x_ + ' ' for x_ in items), items)]
        texts += [('', []), (None, []), ('  \n ', [])]
        for text, want in texts:
            n += 1
            try:
                back = conv(g, text)
            except H.Raised as x:
                bad = bad or 'the field text %r: from_str raises %s (line %d)' % (text, x.exc, x.lineno)
                continue
            if list(back) != want:
                bad = bad or 'the field text %r shows %d item(s); from_str gives %d, the last one %r' % (text, len(want), len(back), (list(back) or [None])[-1])
        what = '%s: lists of any length read back item by item (interpreted lists and field texts)' % cname
        if bad:
            rep.fail('C17.R2', g.site, what, bad, where=g.where)
        else:
            rep.ok('C17.R2', g.site, what, '%d lists and %d field texts' % (len(sizes), len(texts)))
    rep.analysed['paths'] += n


def _is_identity_validator(fn):
    p = fn.params()
    rets = [r for r in ast.walk(fn.node) if isinstance(r, ast.Return)]
    stores = [n for n in ast.walk(fn.node) if isinstance(n, ast.Name) and n.id == p[0] and isinstance(n.ctx, ast.Store)]
    return len(p) == 1 and rets and all(r.value is not None and norm(r.value) == p[0] for r in rets) and not stores


def r3_wrapper(rep, src):
    """the generated property accessors interpreted on a data dictionary: the getter returns from_str(data.get(name)) (or the raw
    value), the setter stores to_str(value) under the field name, None deletes (or is refused when allow_none is off)"""
    from .. import heap as H
    f = src.func('deb822:RestrictedWrapper.__init_restricted_field')
    rep.saw_func(f)
    mod = src.mod('deb822')

    def world(present, from_str, to_str, allow_none):
        """the installer interpreted for one field description: returns the (getter, setter) closures it hands to property() and the
        attribute name it installs them under"""
        installed = []

        def prop(it_, a, k):
            return ('property', a[0] if a else k.get('fget'), a[1] if len(a) > 1 else k.get('fset'))

        def inst(it_, a, k):
            installed.append((a[0], a[1], a[2]))
            return None
        heap = H.Heap(mod, hooks={'FROM': lambda it, a, k: ('from_str', a[0]), 'TO': lambda it, a, k: ('to_str', a[0]), 'property': prop, 'setattr': inst})
        heap.symbolic_strings = True
        data = heap.new_dict('@data')
        if present:
            heap.dict_set(data, 'License', 'raw-text')
        field = ('record', 'RestrictedField', ('name', 'from_str', 'to_str', 'allow_none'),
                 ('License', ('hook', 'FROM') if from_str else None, ('hook', 'TO') if to_str else None, allow_none))
        me = heap.alloc('RestrictedWrapper', {'_RestrictedWrapper__data': data}, name='@wrapper')
        it = H.Interp(heap)
        it.call(H.Closure(f.node, {}, ('class', 'RestrictedWrapper'), f.cls), ['license', field])
        if len(installed) != 1 or installed[0][0] != ('class', 'RestrictedWrapper') or installed[0][1] != 'license' \
                or not (isinstance(installed[0][2], tuple) and installed[0][2][0] == 'property' and all(isinstance(x, H.Closure) for x in installed[0][2][1:3])):
            raise AnalysisError('%s: the installer does not set one property(getter, setter) on the class under the attribute name (%r)' % (f.site, installed))
        return heap, it, data, me, installed[0][2][1], installed[0][2][2]
    try:
        world(True, True, True, True)
        rep.ok('C17.R3', f.site, 'property installed under the attribute name', 'setattr(cls, attr_name, property(getter, setter, ...))', nontrivial=False)
    except AnalysisError as x_:
        rep.fail('C17.R3', f.site, 'property installed under the attribute name', 'the property is not installed as (getter, setter) under attr_name: %s' % x_, where=f.where)
        return
    bad = []
    n = 0
    for present in (True, False):
        for conv in (True, False):
            heap, it, data, me, getter, setter = world(present, conv, conv, True)
            n += 1
            try:
                r = it.call(getter, [me])
            except H.Raised as x:
                r = 'raises ' + x.exc
            raw = 'raw-text' if present else None
            want = ('from_str', raw) if conv else raw
            if r != want:
                bad.append('getter with the field %s and %s converter returns %r instead of %r' % ('present' if present else 'absent', 'a' if conv else 'no', r, want))
    if bad:
        rep.fail('C17.R3', f.site + '.getter', 'reads field.name through from_str', bad[0], where=f.where)
    else:
        rep.ok('C17.R3', f.site + '.getter', 'reads field.name through from_str', '%d cases' % n)
    bad = []
    n = 0
    for present in (True, False):
        for conv in (True, False):
            for allow in (True, False):
                for value in ('new-value', None):
                    heap, it, data, me, getter, setter = world(present, conv, conv, allow)
                    n += 1
                    try:
                        it.call(setter, [me, value])
                        exc = None
                    except H.Raised as x:
                        exc = x.exc
                    ent = dict((k, v) for k, v in heap.objs[data.name]['entries'])
                    if value is not None:
                        want = {'License': ('to_str', value) if conv else value}
                        wexc = None
                    elif allow:
                        want, wexc = {}, None
                    else:
                        want, wexc = ({'License': 'raw-text'} if present else {}), 'TypeError'
                    if ent != want or exc != wexc:
                        bad.append('setter(%r) with the field %s, %s converter, allow_none=%s leaves %r%s; specified: %r%s'
                                   % (value, 'present' if present else 'absent', 'a' if conv else 'no', allow, ent, (' and raises ' + exc) if exc else '', want,
                                      (' and ' + wexc) if wexc else ''))
    if bad:
        rep.fail('C17.R3', f.site + '.setter', 'writes field.name through to_str; None deletes', bad[0], where=f.where)
    else:
        rep.ok('C17.R3', f.site + '.setter', 'writes field.name through to_str; None deletes', '%d cases' % n)
    # restricted keys are compared case-insensitively: every element that flows into the set of restricted names and every
    # key tested against it is lower-cased (elements: comprehension / generator elements, append/add arguments)
    ci = src.func('deb822:RestrictedWrapper._class_init')
    mod_ = src.mod('deb822')
    cls_funcs = [fn for q, fn in mod_.funcs.items() if q.startswith('RestrictedWrapper.')]
    elems, tests = [], []
    def flows(v, lists):
        """element expressions of a collection-valued expression; names of local collections it is built from"""
        if isinstance(v, (ast.GeneratorExp, ast.ListComp, ast.SetComp)):
            return [v.elt]
        if isinstance(v, ast.Call) and isinstance(v.func, ast.Name) and v.func.id in ('frozenset', 'set', 'list', 'tuple', 'sorted') and len(v.args) == 1:
            return flows(v.args[0], lists)
        if isinstance(v, ast.Name):
            lists.add(v.id)
            return []
        if isinstance(v, (ast.List, ast.Tuple, ast.Set)):
            return list(v.elts)
        return []
    for fn in cls_funcs:
        lists = set()
        for n_ in ast.walk(fn.node):
            if isinstance(n_, ast.Assign) and any('restricted_fields' in norm(t_) for t_ in n_.targets):
                elems.extend(flows(n_.value, lists))
        for n_ in ast.walk(fn.node):
            if isinstance(n_, ast.Assign) and isinstance(n_.targets[0], ast.Name) and n_.targets[0].id in lists:
                elems.extend(flows(n_.value, set()))
            if isinstance(n_, ast.Call) and isinstance(n_.func, ast.Attribute) and n_.func.attr in ('append', 'add') and isinstance(n_.func.value, ast.Name) \
                    and n_.func.value.id in lists and n_.args:
                elems.append(n_.args[0])
            if isinstance(n_, ast.Compare) and len(n_.ops) == 1 and isinstance(n_.ops[0], (ast.In, ast.NotIn)) and 'restricted_fields' in norm(n_.comparators[0]):
                tests.append(n_.left)

    def lowered(e):
        return isinstance(e, ast.Call) and isinstance(e.func, ast.Attribute) and e.func.attr in ('lower', 'casefold') and not e.args
    if elems and tests and all(lowered(e) for e in elems) and all(lowered(t_) for t_ in tests):
        rep.ok('C17.R3', ci.site, 'restricted keys compared case-insensitively', '%d registered element expression(s) and %d test(s), all lower-cased' % (len(elems), len(tests)), nontrivial=False)
    else:
        rep.fail('C17.R3', ci.site, 'restricted keys compared case-insensitively', 'restricted field names are not lower-cased on both sides (registered: %s, tested: %s)'
                 % ([norm(e) for e in elems], [norm(t_) for t_ in tests]), where=ci.where)


def r4_document(rep, src):
    """Copyright.__init__ / dump / add_files_paragraph interpreted on paragraph stubs"""
    from .. import heap as H
    mod = src.mod(M)
    f = src.func(M + ':Copyright.__init__')
    rep.saw_func(f)
    kinds = [('hdr', set()), ('FL', {'Files', 'License'}), ('L', {'License'}), ('F', {'Files'}), ('none', set()), ('L2', {'License'})]
    complaints = []

    def mk(kind):
        def ctor(it, args, kw):
            return it.h.alloc(kind, {'data': args[0] if args else None}, name=None)
        return ctor
    heap = H.Heap(mod, hooks={'Header': mk('Header'), 'FilesParagraph': mk('FilesParagraph'), 'LicenseParagraph': mk('LicenseParagraph'),
                              '_complain': lambda it, a, k: complaints.append(a[0]), 'deb822.Deb822.iter_paragraphs': lambda it, a, k: it.h.paras})
    heap.symbolic_strings = True
    plist = []
    for nm, keys in kinds:
        d = heap.new_dict('@p_' + nm)
        for k in sorted(keys):
            heap.dict_set(d, k, 'x')
        plist.append(d)
    heap.paras = list(plist)
    me = heap.alloc('Copyright', {}, name='@copyright')
    it = H.Interp(heap)
    what = 'paragraph classification'
    try:
        it.call(H.Closure(f.node, {}, me, f.cls), ['SEQ', 'utf-8', True])
        o = heap.objs[me.name]
        hdr = o.get('_Copyright__header')
        paras = heap.items(o['_Copyright__paragraphs'])
        got = [(heap.objs[p_.name]['__class__'], heap.objs[p_.name]['data'].name) for p_ in paras]
        want = [('FilesParagraph', '@p_FL'), ('LicenseParagraph', '@p_L'), ('FilesParagraph', '@p_F'), ('LicenseParagraph', '@p_L2')]
        ok = got == want and isinstance(hdr, H.Ref) and heap.objs[hdr.name]['__class__'] == 'Header' and heap.objs[hdr.name]['data'].name == '@p_hdr' and len(complaints) == 1
        if ok:
            rep.ok('C17.R4', f.site, what, 'header = first; Files (with or without License) → FilesParagraph; License only → LicenseParagraph; neither → complaint; document order kept')
        else:
            rep.fail('C17.R4', f.site, what, 'the paragraphs [header, Files+License, License, Files, neither, License] become header=%r, %r with %d complaint(s); specified: %r and one complaint'
                     % (hdr, got, len(complaints), want), where=f.where)
    except H.Raised as x:
        rep.fail('C17.R4', f.site, what, 'raises %s (line %d)' % (x.exc, x.lineno), where=f.where)
    # dump: header, then for every paragraph a blank line and the paragraph, in list order
    d = src.func(M + ':Copyright.dump')
    rep.saw_func(d)
    # the document is the header, then for every paragraph an empty line and the paragraph, each with exactly the text its own dump()
    # gives -- decided on the TEXT that reaches the file / is returned, whatever way it is assembled (writes into a buffer, a join).
    # The paragraph texts of the scenario end in blanks, a tab and U+3000 in front of the final newline: text of the last field.
    texts = {'@header': 'Format: x\n', '@para1': 'Files: *\nLicense: a  \n', '@para2': 'License: b\n text\t\n', '@para3': 'License: c\n end\u3000\n',
             '@para4': 'Files: debian/*\nLicense: b\n'}
    # (the paragraphs in the order of the list -- also when a stand-alone License paragraph stands in front of a Files paragraph, as a
    # document that was READ may have them)
    for to_file, order in ((True, ('@para1', '@para2', '@para3')), (False, ('@para1', '@para2', '@para3')), (True, ('@para2', '@para1', '@para3', '@para4')),
                           (False, ('@para2', '@para1', '@para3', '@para4'))):
        want = texts['@header'] + ''.join('\n' + texts[k_] for k_ in order)
        bufs = {}

        def pdump(it, args, kw):
            me_ = args[0]
            if not (isinstance(me_, H.Ref) and me_.name in texts):
                return NotImplemented
            sink_ = args[1] if len(args) > 1 else kw.get('fd')
            if isinstance(sink_, H.Ref):
                bufs[sink_.name] = bufs.get(sink_.name, '') + texts[me_.name]
                return None
            return texts[me_.name]

        def fwrite(it, args, kw):
            t_ = args[1].concrete() if hasattr(args[1], 'concrete') else args[1]
            if not isinstance(t_, str):
                raise AnalysisError('C17.R4: write() of %r' % (args[1],))
            bufs[args[0].name] = bufs.get(args[0].name, '') + t_
            return None
        heap = H.Heap(mod, hooks={'.dump': pdump, '.write': fwrite, '.getvalue': lambda it, a, k: bufs.get(a[0].name, ''),
                                  'io.StringIO': lambda it, a, k: it.h.alloc('StringIO', {})})
        hdr = heap.alloc('Header', {}, name='@header')
        ps = [heap.alloc('FilesParagraph' if texts[k_].startswith('Files') else 'LicenseParagraph', {}, name=k_) for k_ in order]
        me = heap.alloc('Copyright', {'_Copyright__header': hdr, 'header': hdr, '_Copyright__paragraphs': heap.new_list(ps)}, name='@copyright')
        fobj = heap.alloc('File', {}, name='@file') if to_file else None
        what = 'dump(%s) = header, then an empty line + paragraph for every paragraph, in list order%s' % (
            'f' if to_file else 'None', '' if order[0] == '@para1' else ' (a License paragraph in front of a Files paragraph)')
        try:
            r = H.Interp(heap).call(H.Closure(d.node, {}, me, d.cls), [fobj])
        except H.Raised as x:
            rep.fail('C17.R4', d.site, what, 'raises %s (line %d)' % (x.exc, x.lineno), where=d.where)
            continue
        got = bufs.get('@file', '') if to_file else (r.concrete() if hasattr(r, 'concrete') else r)
        if got == want and (r is None or not to_file):
            rep.ok('C17.R4', d.site, what, 'the text is the concatenation of the paragraph texts with one empty line between them')
        else:
            k_ = next((i_ for i_, (a_, b_) in enumerate(zip(got or '', want)) if a_ != b_), min(len(got or ''), len(want))) if isinstance(got, str) else 0
            rep.fail('C17.R4', d.site, what, 'the document text is %r; the paragraphs written one after the other with an empty line between them give %r (first difference at '
                     'offset %d: %r vs %r) -- text of the paragraphs is lost or changed when the document is put together' % (
                         got, want, k_, (got or '')[k_:k_ + 12] if isinstance(got, str) else got, want[k_:k_ + 12]), where=d.where)
    # add_files_paragraph: after the last Files paragraph
    a = src.func(M + ':Copyright.add_files_paragraph')
    rep.saw_func(a)
    bad = None
    for layout in (['F', 'L', 'F', 'L'], ['L', 'L'], [], ['F', 'F']):
        heap = H.Heap(mod)
        ps = [heap.alloc('FilesParagraph' if k == 'F' else 'LicenseParagraph', {}, name='@%s%d' % (k, i)) for i, k in enumerate(layout)]
        me = heap.alloc('Copyright', {'_Copyright__paragraphs': heap.new_list(ps)}, name='@copyright')
        new = heap.alloc('FilesParagraph', {}, name='@NEW')
        try:
            H.Interp(heap).call(H.Closure(a.node, {}, me, a.cls), [new])
            got = [p_.name for p_ in heap.items(heap.objs[me.name]['_Copyright__paragraphs'])]
        except H.Raised as x:
            got = 'raises ' + x.exc
        last = max([i for i, k in enumerate(layout) if k == 'F'], default=-1)
        names = [p_.name for p_ in ps]
        want = names[:last + 1] + ['@NEW'] + names[last + 1:]
        if got != want and bad is None:
            bad = 'adding a Files paragraph to %s gives %r instead of %r' % (layout, got, want)
    if bad:
        rep.fail('C17.R4', a.site, 'new Files paragraph goes after the last Files paragraph', bad, where=a.where)
    else:
        rep.ok('C17.R4', a.site, 'new Files paragraph goes after the last Files paragraph', '4 layouts')


def r8_paragraphs_own_their_values(rep, src):
    """a paragraph built from another mapping (Deb822(template), template.copy(): how documents are assembled from re-used parts)
    holds its own entries.  Deb822Dict keeps a second, lazily read backing store for what a parser hands it (`_parsed`); the
    constructor may adopt only that explicit argument as backing store -- never the initial mapping itself, or the new paragraph is a
    view of the old one and every paragraph built from one template is written with the template's last values."""
    m = src.mod('deb822')
    f = m.funcs.get('Deb822Dict.__init__')
    if f is None:
        raise AnalysisError('deb822:Deb822Dict.__init__ not found')
    rep.saw_func(f)
    params = f.params()
    if '_parsed' not in params:
        raise AnalysisError('%s: no _parsed parameter' % f.site)
    stores = [st for st in ast.walk(f.node) if isinstance(st, ast.Assign) and any(isinstance(t_, ast.Attribute) and norm(t_.value) == 'self' and 'parsed' in t_.attr for t_ in st.targets)]
    if not stores:
        raise AnalysisError('%s: the backing store for parsed input is not set in the constructor' % f.site)
    # (a re-binding of the parameter to something built from another argument of the constructor; `_parsed = _parsed or {}` is none)
    others = set(params) - {'_parsed', 'self'}
    rebinds = [st for st in ast.walk(f.node) if isinstance(st, ast.Assign) and any(isinstance(t_, ast.Name) and t_.id == '_parsed' for t_ in st.targets)
               and any(isinstance(n_, ast.Name) and n_.id in others for n_ in ast.walk(st.value))]
    foreign = [st for st in stores if norm(st.value) not in ('_parsed', 'None')]
    what = 'only the _parsed argument becomes the backing store'
    if rebinds:
        rep.fail('C17.R8', f.site, what, 'the parameter _parsed is re-bound in the constructor (line %d): a mapping given as initial content is adopted as backing store, so the new '
                 'paragraph reads its values from the old one as long as they are not assigned -- paragraphs built from one template are all written with the template\'s '
                 'current values' % rebinds[0].lineno, where='%s:%d' % (f.module.relpath, rebinds[0].lineno))
    elif foreign:
        rep.fail('C17.R8', f.site, what, '`%s` adopts something else than the _parsed argument as backing store' % norm(foreign[0])[:60], where='%s:%d' % (f.module.relpath, foreign[0].lineno))
    else:
        rep.ok('C17.R8', f.site, what, '%d store(s), all of the parameter itself' % len(stores))


def r7_reader_requirements(rep, src):
    """what the paragraph classes demand of a parsed paragraph is what their creators guarantee: FilesParagraph.create() and
    LicenseParagraph.create() refuse None only, so a field written from the empty text is there with an empty value.  The
    validating constructors interpreted (sa.heap) on such paragraphs: a field that is present -- empty or not -- is not reported
    missing; an absent one still is."""
    from .. import heap as H
    mod = src.mod(M)
    cases = [('FilesParagraph', 'all fields with text', {'Files': 'x', 'Copyright': 'c', 'License': 'l'}, 'ok'),
             ('FilesParagraph', 'Copyright and License present and empty', {'Files': 'x', 'Copyright': '', 'License': ''}, 'ok'),
             ('FilesParagraph', 'no Copyright field', {'Files': 'x', 'License': 'l'}, 'complaint'),
             ('FilesParagraph', 'no License field', {'Files': 'x', 'Copyright': 'c'}, 'complaint'),
             ('FilesParagraph', 'no Files field', {'Copyright': 'c', 'License': 'l'}, 'raise'),
             # (the creators accept any pattern without white space; that a pattern is not a legal glob is reported when a name is
             # matched against it -- C16 -- not when the document is read)
             ('FilesParagraph', 'a pattern with a backslash that escapes nothing', {'Files': 'contrib\\win32\\* src/*', 'Copyright': 'c', 'License': 'l'}, 'ok'),
             ('LicenseParagraph', 'License present and empty', {'License': ''}, 'ok'),
             ('LicenseParagraph', 'License with text', {'License': 'l'}, 'ok'),
             ('LicenseParagraph', 'no License field', {'Comment': 'c'}, 'raise')]
    for cname, label, content, want in cases:
        fn = mod.method(cname, '__init__')
        if fn is None:
            raise AnalysisError('%s:%s.__init__ not found' % (M, cname))
        rep.saw_func(fn)
        complaints = []
        from . import C16

        def translate(it_, a, k):
            gl = [g_.concrete() if hasattr(g_, 'concrete') else g_ for g_ in it_.seq(a[0])]
            if any(not isinstance(g_, str) or C16._ref_glob_regex(g_) is None for g_ in gl):
                raise H.Raised('MachineReadableFormatError', it_.h.version, 0)
            return it_.h.alloc('Pattern', {'globs': tuple(gl)})
        heap = H.Heap(mod, extra_modules=[src.mod('deb822')], hooks={'_complain': lambda it, a, k, c_=complaints: c_.append(a[0]), 'globs_to_re': translate})
        it = H.Interp(heap)
        d = heap.new_dict()
        for k_, v_ in content.items():
            heap.dict_set(d, k_, v_)
        me = heap.alloc(cname, {'files': tuple(content.get('Files', 'x').split())})
        params = fn.params()
        args = [d] + [True] * (len(params) - 2)
        what = '%s(parsed paragraph): %s' % (cname, label)
        try:
            it.call(H.Closure(fn.node, {}, me, fn.cls), args)
            got = 'complaint' if complaints else 'ok'
        except H.Raised as x:
            got = 'raise'
            complaints.append(x.exc)
        if got == want:
            rep.ok('C17.R7', fn.site, what, {'ok': 'accepted', 'complaint': 'reported', 'raise': 'refused'}[got])
        elif want == 'ok':
            rep.fail('C17.R7', fn.site, what, 'the strict reader %s (%s) a paragraph the creators write (%s): the document is rejected when it is read back' % (
                'refuses' if got == 'raise' else 'complains about', complaints[0],
                'create() accepts any pattern without white space' if 'pattern' in label else 'create() accepts the empty text -- only None is refused -- and the dump writes the field with '
                'an empty value'), where=fn.where)
        else:
            rep.fail('C17.R7', fn.site, what, 'expected %s, got %s %r' % (want, got, complaints[:1]), where=fn.where)


def check(src, rep, tier):
    rep.explanation = ('C17: (R1) the loop bodies of format_multiline_lines and parse_multiline_as_lines are interpreted as functions of one '
                       'line over abstract strings (literal prefix + input + literal suffix); conditions become regular constraints on the input '
                       '(predicate languages, quotients by the literal parts); every encoder path is composed with every decoder path and the '
                       'result must be the input on the property\'s domain (lines without boundaries; continuation lines empty or non-blank and '
                       'not a lone "."); the decoder must reject a missing prefix.  (R2) RestrictedField pairs; the language accepted by the '
                       'space-separated writer (complement of _has_space under its flags) contains no str.split() separator.  (R3) wrapper '
                       'getter/setter wiring.  (R4) classification, dump and insertion order.  (R5) line primitive.  (R6) the wrapped paragraphs '
                       'validate on every way in (raw store only in Deb822.__setitem__).  (R7) the validating constructors interpreted on '
                       'paragraphs with present-but-empty and with absent fields.')
    rep.not_decided = ['the single-empty-line and trailing-newline corner cases of the text codec', 'Deb822 dump/parse of the paragraphs themselves (C02)']
    rep.need('C17.R1', 3)
    rep.need('C17.R2', 9)
    rep.need('C17.R3', 4)
    rep.need('C17.R4', 3)
    rep.guard('C17.R1', r1_codec, src)
    from . import common
    n_v, n_e = len(rep.violations), len(rep.errors)
    rep.guard('C17.R2', r2c_lists_of_any_length, src, tier)
    lists_hold = len(rep.violations) == n_v and len(rep.errors) == n_e
    # (the symbolic reading of the converters -- exact for EVERY item text -- applies when they are written in its vocabulary)
    common.SoftErrors(rep, lambda: lists_hold, 'the interpreted lists and field texts (C17.R2), which read back item by item').guard('C17.R2', r2_converters, src)
    rep.guard('C17.R3', r3_wrapper, src)
    rep.guard('C17.R4', r4_document, src)
    from . import common, C08
    rep.guard('C17.R6', C08.only_validated_stores, src, 'C17.R6')      # the wrapped paragraphs refuse un-encoded empty lines on every way in
    rep.guard('C17.R8', r8_paragraphs_own_their_values, src)
    rep.need('C17.R7', 8)
    rep.guard('C17.R7', r7_reader_requirements, src)
    # the codec functions and converters are functions of their argument: no memo, no result object shared between two calls
    rep.need('C17.R9', 8)
    rep.guard('C17.R9', common.check_no_hidden_state, src, 'C17.R9',
              [M + ':format_multiline', M + ':format_multiline_lines', M + ':parse_multiline', M + ':parse_multiline_as_lines', M + ':License.from_str', M + ':License.to_str',
               M + ':_LineBased.from_str', M + ':_LineBased.to_str', M + ':_SpaceSeparated.from_str', M + ':_SpaceSeparated.to_str'],
              'decoding the same field text twice must give two independent results (a list of lines that one caller edits is otherwise what the next decoding of that text returns)')
    rep.need('C17.R5', 3)
    rep.guard('C17.R5', common.check_line_primitive, src, 'C17.R5', [M + ':format_multiline', M + ':parse_multiline_as_lines', M + ':License.to_str'],
              'a copyright or license text that contains such a character inside a line (the form feeds of the GPL texts, U+2028 from a web page) comes back with that line cut in two')
    from . import common as _common_flags
    rep.guard('C17.R2', _common_flags.check_re_positional_flags, src, 'C17.R2', 'copyright', 'a list field with more items than that is cut short')

"""C11 -- list views of a field read the exact values and write back only what changed."""
import ast

from .. import heap as H, rx, strlang, cfg, normalize
from ..core import AnalysisError, norm, walk_no_nested, calls_in, Func

META = {
    'design_ref': 'DESIGN.md §5 C11',
    'technique': 'effect analysis over the class call graph for the changed-flag discipline; shape-case abstract interpretation of remove / replace / append and of value references on symbolic token lists (eleven layouts, duplicates, after-edit state), compared at value level with a reference list model; regular-language checks for the two list tokenizers (coverage of every line by the whole function incl. special cases, group tiling, path-based emission of every group once in order, separator never inside a word); interpretation of the value-line wrapper on symbolic lines of every shape and position (no exception, conservation, comment classification, text handed to the list tokenizer) and of the view constructor on item-less token lists; CFG validate-before-commit rule for the write-back; frame rule (no persistent writes) on the read path of a list view; one-computation-per-memo-slot rule; line-primitive rule; write-back scenarios for a re-parse with two fields / two paragraphs and for a list without values; layouts that end on a comment line; the value factory interpreted with a model parser per list kind (one value exactly, else ValueError); removal through a value reference after the references were collected AND while the iterator stands at the reference (closures read the enclosing variables when they are called); deferred code (lambda, nested function) is not a call the accessor makes; whole documents parsed by the interpreted parser, a list field opened through the interpreted interpret_as (comma and whitespace lists in ten layouts), read, closed unchanged and edited (append, remove, replace, assignment and removal through references): values as a split model gives them, the text untouched on a plain close, the edited list when the field is opened again, everything around the field byte for byte',
    'level_text': 'Static decision: every editing entry point marks the view as changed and nothing else does, so an unedited view never '
                  'touches the document; removing, replacing or appending a value (directly or through a reference) leaves exactly the '
                  'reference list of values in a well-formed token list, for layouts with and without leading blanks, separators, comment '
                  'and continuation tokens; the list tokenizers assign every character of a value line to one token in order and agree '
                  'with the parser on what a comment line is; the re-parsed field is validated before it replaces the old value.',
    'level_note': 'trusted: heap interpreter and automata engine; the exact whitespace the removal heuristics leave behind is not decided, '
                  'only the resulting list of values and the well-formedness of the token list',
}

PM = '_deb822_repro.parsing'
TK = '_deb822_repro.tokens'
CLS = 'Deb822ParsedTokenList'


# ---- R1 changed-flag discipline ----------------------------------------------------------------

def r1_changed_flag(rep, src):
    m = src.mod(PM)
    meths = {q[len(CLS) + 1:]: f for q, f in m.funcs.items() if q.startswith(CLS + '.') and '.' not in q[len(CLS) + 1:]}
    if len(meths) < 15:
        raise AnalysisError('%s: only %d methods found' % (CLS, len(meths)))

    def direct_marks(f):
        return any(isinstance(s, ast.Assign) and norm(s.targets[0]) == 'self._changed' and norm(s.value) == 'True' for s in ast.walk(f.node))

    def direct_mutates(f):
        for n in ast.walk(f.node):
            if isinstance(n, ast.Call) and isinstance(n.func, ast.Attribute) and n.func.attr in ('append', 'extend', 'clear', 'pop', 'remove_node', 'insert_before', 'insert_after') \
                    and norm(n.func.value) in ('self._token_list', 'value_parts', 'token_list'):
                return True
            if isinstance(n, ast.Assign) and isinstance(n.targets[0], ast.Attribute) and n.targets[0].attr in ('value', 'head_node', 'tail_node') \
                    and ('node' in norm(n.targets[0].value) or '_token_list' in norm(n.targets[0].value)):
                return True
            if isinstance(n, ast.Call) and norm(n.func) == 'LinkedListNode.link_nodes':
                return True
        return False

    def callees(f):
        # the calls the method MAKES: what stands inside a lambda or a nested function is handed out (a removal handler bound to a
        # value reference), not run by the method -- it is interpreted with the references under C11.R5
        out = set()
        todo = list(ast.iter_child_nodes(f.node))
        while todo:
            c = todo.pop()
            if isinstance(c, (ast.Lambda, ast.FunctionDef, ast.AsyncFunctionDef)):
                continue
            todo.extend(ast.iter_child_nodes(c))
            if isinstance(c, ast.Call) and isinstance(c.func, ast.Attribute) and norm(c.func.value) == 'self' and c.func.attr in meths:
                out.add(c.func.attr)
        return out
    marks = {k for k, f in meths.items() if direct_marks(f)}
    mutates = {k for k, f in meths.items() if direct_mutates(f)}
    changed = True
    while changed:
        changed = False
        for k, f in meths.items():
            cs = callees(f)
            if k not in marks and cs & marks and k != '__exit__':
                # marks transitively only if the marking callee is called unconditionally enough: accept any call
                marks.add(k)
                changed = True
            if k not in mutates and cs & mutates:
                mutates.add(k)
                changed = True
    helpers = {'__init__', '_update_field', 'append_newline', 'append_comment', '_append_continuation_line_token_if_necessary', '__exit__'}
    edit_vocab = ['append', 'append_value', 'append_separator', 'remove', '_remove_node', 'replace', 'sort_elements']
    for k in edit_vocab:
        if k not in meths:
            rep.fail('C11.R1', '%s:%s' % (PM, CLS), 'edit method %s' % k, 'method vanished')
            continue
        f = meths[k]
        rep.saw_func(f)
        if k in marks:
            rep.ok('C11.R1', f.site, 'edit marks the view as changed', 'stores self._changed = True (directly or through %s)' % sorted(callees(f) & marks))
        else:
            rep.fail('C11.R1', f.site, 'edit marks the view as changed', 'the method modifies the private token list but never sets _changed: closing the view does '
                     'not write the edit back to the document', where=f.where)
    for k in sorted(mutates - set(edit_vocab) - helpers):
        f = meths[k]
        if k in marks:
            rep.ok('C11.R1', f.site, 'mutating method marks the view as changed', 'ok', nontrivial=False)
        else:
            rep.fail('C11.R1', f.site, 'mutating method marks the view as changed', '%s modifies the token list without setting _changed' % k, where=f.where)
    for k in ('__iter__', 'value_parts', 'iter_value_references', '__bool__', '_iter_content_as_tokens', '_generate_field_content'):
        if k not in meths:
            continue
        f = meths[k]
        if k in marks or k in mutates:
            rep.fail('C11.R1', f.site, 'read path leaves the view untouched', 'the read-only accessor %s %s: opening and closing a view without edits rewrites the field'
                     % (k, 'sets _changed' if k in marks else 'modifies the token list'), where=f.where)
        else:
            rep.ok('C11.R1', f.site, 'read path leaves the view untouched', 'no store to _changed, no mutation')
    ex = meths['__exit__']
    tests = [n for n in walk_no_nested(ex.node) if isinstance(n, ast.If)]
    ok = len(tests) == 1 and norm(tests[0].test) in ('exc_type is None and self._changed', 'self._changed and exc_type is None') \
        and [norm(s) for s in tests[0].body] == ['self._update_field()'] and not tests[0].orelse \
        and norm(ex.node).count('self._update_field()') == 1
    if ok:
        rep.ok('C11.R1', ex.site, 'write-back only when changed and no exception', 'if exc_type is None and self._changed: self._update_field()')
    else:
        rep.fail('C11.R1', ex.site, 'write-back only when changed and no exception', 'closing the view writes the field back under a different condition: an unedited view '
                 '(or one left by an exception) modifies the document', where=ex.where)
    callers = [k for k, f in meths.items() if any(norm(c.func) == 'self._update_field' for c in calls_in(f.node))]
    if callers == ['__exit__']:
        rep.ok('C11.R1', '%s:%s' % (PM, CLS), 'only __exit__ writes back', 'single caller of _update_field', nontrivial=False)
    else:
        rep.fail('C11.R1', '%s:%s' % (PM, CLS), 'only __exit__ writes back', '_update_field is also called from %s' % [c for c in callers if c != '__exit__'])
    # value references (assignment / removal mark the view as changed): interpreted in C11.R5


# ---- R5 edits at value level (heap interpretation) -------------------------------------------------

KINDS = {'V': 'Deb822ParsedValueElement', 'S': 'Deb822CommaToken', 'W': 'Deb822WhitespaceToken', 'N': 'Deb822NewlineAfterValueToken',
         'C': 'Deb822CommentToken', 'K': 'Deb822ValueContinuationToken', 'P': 'Deb822SpaceSeparatorToken'}


def build_view(src, layout, space_sep=False):
    counter = {'n': 0}

    def render(it, args, kw):
        return it.h.objs[args[0].name]['text']

    def factory(it, args, kw):
        counter['n'] += 1
        return it.h.alloc(KINDS['V'], {'text': args[0], 'parent_element': None}, name='@new%d' % counter['n'])

    def sepfactory(it, args, kw):
        counter['n'] += 1
        return it.h.alloc(KINDS['P' if space_sep else 'S'], {'text': ' ' if space_sep else ',', 'is_whitespace': space_sep, 'is_comment': False, 'parent_element': None},
                          name='@sep%d' % counter['n'])

    def conv(it, args, kw):
        o = it.h.objs[args[0].name]
        t = o.get('text')
        return t if isinstance(t, str) else 'v'
    heap = H.Heap(src.mod(PM), field_alias={'_previous_node': 'previous_node', '_parent_element': 'parent_element'}, extra_modules=[src.mod('_util'), src.mod(TK)],
                  opaque_ctors={'Deb822WhitespaceToken', 'Deb822NewlineAfterValueToken', 'Deb822ValueContinuationToken', 'Deb822CommentToken'},
                  hooks={'render': render, 'factory': factory, 'sepfactory': sepfactory, '.convert_to_text': conv, '_strI': lambda it, a, k: a[0]})
    objs, vals = [], []
    vi = 0
    for ch in layout:
        if ch == 'V':
            vi += 1
            k = H.Key('v%d' % vi, 'v%d' % vi)
            objs.append(heap.alloc(KINDS['V'], {'text': k, 'parent_element': None}, name='@v%d' % vi))
            vals.append('v%d' % vi)
        else:
            text = {'S': ',', 'W': ' ', 'N': '\n', 'C': '# c\n', 'K': ' ', 'P': ' '}[ch]
            objs.append(heap.alloc(KINDS[ch], {'text': text, 'is_comment': ch == 'C', 'is_whitespace': ch in 'WNKP', 'parent_element': None}))
    lst, nodes = H.build_list(heap, objs)
    view = heap.alloc(CLS, {'_token_list': lst, '_vtype': ('class', KINDS['V']), '_stype': ('class', KINDS['P' if space_sep else 'S']),
                            '_render': ('hook', 'render'), '_value_factory': ('hook', 'factory'), '_default_separator_factory': ('hook', 'sepfactory'),
                            '_changed': False, '_Deb822ParsedTokenList__continuation_line_char': None, '_kvpair_element': None}, name='@view')
    return heap, view, lst, nodes, vals


def read_values(heap, lst):
    o = heap.objs[lst.name]
    seq, problems = [], []
    seen = set()
    n = o['head_node']
    prev = None
    while n is not None:
        if n.name in seen:
            problems.append('cycle in the token list')
            break
        seen.add(n.name)
        seq.append(n)
        if heap.objs[n.name]['previous_node'] != prev:
            problems.append('back link of %s is inconsistent' % n.name)
        prev = n
        n = heap.objs[n.name]['next_node']
    if o['tail_node'] != (seq[-1] if seq else None):
        problems.append('tail of the token list is %r but the last token reached from the head is %r' % (o['tail_node'], seq[-1] if seq else None))
    toks = [heap.objs[x.name]['value'] for x in seq]
    vals = []
    for t in toks:
        ob = heap.objs[t.name]
        if ob['__class__'] == KINDS['V']:
            tx = ob['text']
            vals.append(tx.spelling if isinstance(tx, H.Key) else str(tx))
    kinds = ''.join(next(k for k, c in KINDS.items() if c == heap.objs[t.name]['__class__']) for t in toks)
    return vals, kinds, problems


def generated_layouts():
    """token layouts of list values built from a small grammar: optional leading blank, 1..3 values, every way of
    separating two values (comma; comma+blank; comma, line break, continuation; the same with a comment line in
    between; for blank-separated lists: blank; line break + continuation), optional trailing separator"""
    import itertools
    out = []
    for space_sep, seps, trail in ((False, ['S', 'S W', 'S N K', 'S N C K', 'W S W'], ['', ' S', ' S N']), (True, ['P', 'N K', 'N C K'], ['', ' N'])):
        for lead in ('', 'W ' if not space_sep else 'P N K '):
            for n in (1, 2, 3):
                for combo in itertools.product(seps, repeat=n - 1):
                    for tr in trail:
                        toks = lead + 'V'
                        for sp in combo:
                            toks += ' ' + sp + ' V'
                        out.append((toks + tr, space_sep))
    return out


def r5_edits(rep, src, tier='quick'):
    layouts = [('V S W V S W V', False), ('V S V', False), ('W V S W V', False), ('W V P V P V', True), ('V P V', True), ('W V', False),
               ('W V S N C K V S N K V', False), ('V S N C K V', False), ('W V S W V S', False), ('P N K V P V', True), ('P N C K V N K V', True),
               # a list that ends on a comment line (what append_comment() leaves behind): the next value still needs its separator
               ('W V S W V N C', False), ('W V P V N C', True), ('W V S W V S N C', False)]
    if tier == 'thorough':
        layouts = layouts + [l for l in generated_layouts() if l not in layouts]
    m_site = '%s:%s' % (PM, CLS)
    n = 0
    for lay, space_sep in layouts:
        layout = lay.replace(' ', '')
        nvals = layout.count('V')
        # remove(value) and removal through a reference
        for how in ('remove', 'reference.remove', 'reference.remove while iterating'):
            for i in range(nvals):
                heap, view, lst, nodes, vals = build_view(src, layout, space_sep)
                it = H.Interp(heap)
                target = 'v%d' % (i + 1)
                what = '%s(%s) on [%s]' % (how, target, lay)
                n += 1
                try:
                    if how == 'remove':
                        fn = heap.module.method(CLS, 'remove')
                        it.call(H.Closure(fn.node, {}, view, fn.cls), [H.Key(target, target)])
                    elif how == 'reference.remove':
                        fn = heap.module.method(CLS, 'iter_value_references')
                        refs = it.seq(it.call(H.Closure(fn.node, {}, view, fn.cls), []))
                        r = refs[i]
                        rf = heap.module.method('ValueReference', 'remove')
                        it.call(H.Closure(rf.node, {}, r, rf.cls), [])
                    else:
                        # the documented idiom: `for ref in view.iter_value_references(): ... ref.remove()` -- the reference is used
                        # while the iterator stands at it, and the walk goes on to the end
                        fn = heap.module.method(CLS, 'iter_value_references')
                        rf = heap.module.method('ValueReference', 'remove')
                        seen_ = 0
                        for j_, r in enumerate(it.walk(it.call(H.Closure(fn.node, {}, view, fn.cls), []))):
                            seen_ += 1
                            if j_ == i:
                                it.call(H.Closure(rf.node, {}, r, rf.cls), [])
                        if seen_ != nvals:
                            rep.fail('C11.R5', m_site + '.iter_value_references', what, 'the walk hands out %d references for %d values when the %s one is removed on the way' % (
                                seen_, nvals, ('first', 'second', 'third', 'fourth', 'fifth')[min(i, 4)]))
                            continue
                except H.Raised as x:
                    rep.fail('C11.R5', m_site + '.' + how.split(' ')[0].split('.')[-1], what, 'raises %s (line %d)' % (x.exc, x.lineno))
                    continue
                got, kinds, problems = read_values(heap, lst)
                want = [v for v in vals if v != target]
                if got != want:
                    problems.append('the list of values is %s, the reference model says %s (token kinds now: %s)' % (got, want, kinds))
                if not heap.objs[view.name]['_changed']:
                    problems.append('the view is not marked as changed')
                if problems:
                    rep.fail('C11.R5', m_site + '._remove_node', what, '; '.join(problems))
                else:
                    rep.ok('C11.R5', m_site + '._remove_node', what, '→ %s (tokens %s)' % (got, kinds))
        # replace
        for i in range(nvals):
            heap, view, lst, nodes, vals = build_view(src, layout, space_sep)
            it = H.Interp(heap)
            target = 'v%d' % (i + 1)
            what = 'replace(%s, new) on [%s]' % (target, lay)
            n += 1
            fn = heap.module.method(CLS, 'replace')
            _, kinds0, _ = read_values(heap, lst)
            try:
                it.call(H.Closure(fn.node, {}, view, fn.cls), [H.Key(target, target), H.Key('new', 'new')])
            except H.Raised as x:
                rep.fail('C11.R5', fn.site, what, 'raises %s (line %d)' % (x.exc, x.lineno), where=fn.where)
                continue
            got, kinds, problems = read_values(heap, lst)
            want = [v if v != target else 'new' for v in vals]
            if got != want:
                problems.append('the list of values is %s, the reference model says %s' % (got, want))
            if kinds != kinds0:
                problems.append('tokens other than the replaced value changed (%s → %s)' % (kinds0, kinds))
            if not heap.objs[view.name]['_changed']:
                problems.append('the view is not marked as changed')
            if problems:
                rep.fail('C11.R5', fn.site, what, '; '.join(problems), where=fn.where)
            else:
                rep.ok('C11.R5', fn.site, what, '→ %s' % got)
        # replace with a duplicated value in the list: only the first occurrence changes
        if nvals >= 3:
            heap, view, lst, nodes, vals = build_view(src, layout, space_sep)
            it = H.Interp(heap)
            fn = heap.module.method(CLS, 'replace')
            # make the last value a duplicate of the first
            toks = [heap.objs[x.name]['value'] for x in nodes]
            vtoks = [t for t in toks if heap.objs[t.name]['__class__'] == KINDS['V']]
            heap.objs[vtoks[-1].name]['text'] = H.Key('v1', 'v1')
            vals = vals[:-1] + ['v1']
            what = 'replace(v1, new) on [%s] with the last value equal to the first' % lay
            n += 1
            try:
                it.call(H.Closure(fn.node, {}, view, fn.cls), [H.Key('v1', 'v1'), H.Key('new', 'new')])
                got, kinds, problems = read_values(heap, lst)
                want = ['new'] + vals[1:]
                if got != want:
                    problems.append('the list of values is %s, the reference model says %s (one call replaces one listed value)' % (got, want))
                if problems:
                    rep.fail('C11.R5', fn.site, what, '; '.join(problems), where=fn.where)
                else:
                    rep.ok('C11.R5', fn.site, what, '→ %s' % got)
            except H.Raised as x:
                rep.fail('C11.R5', fn.site, what, 'raises %s (line %d)' % (x.exc, x.lineno), where=fn.where)
        # replace of a missing value -- on a fresh view and on one that has been edited before
        for edited in (False, True):
            heap, view, lst, nodes, vals = build_view(src, layout, space_sep)
            it = H.Interp(heap)
            fn = heap.module.method(CLS, 'replace')
            heap.objs[view.name]['_changed'] = edited
            heap.mark()
            before = heap.snapshot()
            label = 'replace(missing) on [%s]%s' % (lay, ' after an earlier edit' if edited else '')
            try:
                it.call(H.Closure(fn.node, {}, view, fn.cls), [H.Key('zz', 'zz'), H.Key('new', 'new')])
                rep.fail('C11.R5', fn.site, label, 'replacing a value that is not in the list succeeds', where=fn.where)
            except H.Raised as x:
                if x.exc == 'ValueError' and heap.snapshot() == before:
                    rep.ok('C11.R5', fn.site, label, 'ValueError, view unchanged', nontrivial=False)
                else:
                    rep.fail('C11.R5', fn.site, label, 'raises %s%s' % (x.exc, '' if heap.snapshot() == before else ' after modifying the view'), where=fn.where)
        heap, view, lst, nodes, vals = build_view(src, layout, space_sep)
        it = H.Interp(heap)
        fn = heap.module.method(CLS, 'replace')
        heap.mark()
        before = heap.snapshot()
        try:
            it.call(H.Closure(fn.node, {}, view, fn.cls), [H.Key('zz', 'zz'), H.Key('new', 'new')])
            rep.fail('C11.R5', fn.site, 'replace(missing) on [%s]' % lay, 'replacing a value that is not in the list succeeds', where=fn.where)
        except H.Raised as x:
            if x.exc == 'ValueError' and heap.snapshot() == before:
                rep.ok('C11.R5', fn.site, 'replace(missing) on [%s]' % lay, 'ValueError, view unchanged', nontrivial=False)
            else:
                rep.fail('C11.R5', fn.site, 'replace(missing) on [%s]' % lay, 'raises %s%s' % (x.exc, '' if heap.snapshot() == before else ' after modifying the view'), where=fn.where)
        # append of a text the value factory refuses (two items, a separator inside): ValueError, and the view is what it was -- no
        # separator left behind, not marked as changed -- on a fresh view and on one that has been edited before
        for edited in (False, True):
            heap, view, lst, nodes, vals = build_view(src, layout, space_sep)
            heap.hooks['factory'] = lambda it_, a_, k_: (_ for _ in ()).throw(H.Raised('ValueError', it_.h.version, 0))
            it = H.Interp(heap)
            fn = heap.module.method(CLS, 'append')
            heap.objs[view.name]['_changed'] = edited
            heap.mark()
            before = heap.snapshot()
            label = 'append(<a text that is not one value>) on [%s]%s' % (lay, ' after an earlier edit' if edited else '')
            n += 1
            try:
                it.call(H.Closure(fn.node, {}, view, fn.cls), [H.Key('bad', 'a, b')])
                rep.fail('C11.R5', fn.site, label, 'a text the value factory refuses is appended', where=fn.where)
            except H.Raised as x:
                if x.exc == 'ValueError' and heap.snapshot() == before:
                    rep.ok('C11.R5', fn.site, label, 'ValueError, view unchanged', nontrivial=False)
                else:
                    got_, kinds_, _p = read_values(heap, lst)
                    rep.fail('C11.R5', fn.site, label, 'raises %s%s' % (x.exc, '' if heap.snapshot() == before else ' after modifying the view (tokens now %s, changed flag %s): closing the view '
                                                                      'writes a field back that nobody edited' % (kinds_, heap.objs[view.name]['_changed'])), where=fn.where)
        # append
        heap, view, lst, nodes, vals = build_view(src, layout, space_sep)
        it = H.Interp(heap)
        fn = heap.module.method(CLS, 'append')
        what = 'append(new) on [%s]' % lay
        n += 1
        try:
            it.call(H.Closure(fn.node, {}, view, fn.cls), [H.Key('new', 'new')])
        except H.Raised as x:
            rep.fail('C11.R5', fn.site, what, 'raises %s (line %d)' % (x.exc, x.lineno), where=fn.where)
            continue
        got, kinds, problems = read_values(heap, lst)
        if got != vals + ['new']:
            problems.append('the list of values is %s, the reference model says %s' % (got, vals + ['new']))
        # a separator must stand between the previous last value and the new one
        sepk = 'PNK' if space_sep else 'S'          # (in a blank-separated list a line break with its continuation marker separates as well)
        vpos = [i for i, k in enumerate(kinds) if k == 'V']
        if len(vpos) >= 2 and not any(k_ in sepk for k_ in kinds[vpos[-2] + 1:vpos[-1]]):
            problems.append('no separator between the previous last value and the appended one (tokens %s): the two values read back as one' % kinds)
        if not heap.objs[view.name]['_changed']:
            problems.append('the view is not marked as changed')
        if problems:
            rep.fail('C11.R5', fn.site, what, '; '.join(problems), where=fn.where)
        else:
            rep.ok('C11.R5', fn.site, what, '→ %s (tokens %s)' % (got, kinds))
        # assignment through a reference
        heap, view, lst, nodes, vals = build_view(src, layout, space_sep)
        it = H.Interp(heap)
        fn = heap.module.method(CLS, 'iter_value_references')
        try:
            refs = it.seq(it.call(H.Closure(fn.node, {}, view, fn.cls), []))
            setters = [f for q, f in src.mod(PM).funcs.items() if q.startswith('ValueReference.value') and len(f.params()) == 2]
            it.call(H.Closure(setters[0].node, {}, refs[-1], 'ValueReference'), [H.Key('new', 'new')])
            got, kinds, problems = read_values(heap, lst)
            if got != vals[:-1] + ['new'] or not heap.objs[view.name]['_changed']:
                rep.fail('C11.R5', setters[0].site, 'reference.value = new on [%s]' % lay, 'values are %s (expected %s), changed flag %s'
                         % (got, vals[:-1] + ['new'], heap.objs[view.name]['_changed']), where=setters[0].where)
            else:
                rep.ok('C11.R5', setters[0].site, 'reference.value = new on [%s]' % lay, '→ %s' % got)
        except H.Raised as x:
            rep.fail('C11.R5', fn.site, 'reference.value = new on [%s]' % lay, 'raises %s (line %d)' % (x.exc, x.lineno), where=fn.where)
    rep.extra['view_cases'] = n


# ---- R2/R3 tokenizers ----------------------------------------------------------------------------

def _tokenizers_on_lines(rep, src):
    """the two line tokenizers interpreted (sa.heap, decided text, CPython's regex engine where they use one) on a family of value
    lines: the texts of the tokens, concatenated, are the line; the value tokens are exactly the values the statement defines -- the
    maximal runs of non-whitespace for the whitespace list, the trimmed non-empty pieces between commas for the comma list -- and
    every other token is a separator of its kind.  However the tokenizer is written (a pattern with finditer, groupby, split)."""
    mod = src.mod(TK)
    blanks = [' ', '\t', '  ', '\x0c', '\u2028', '\xa0', '\x1c', ' \t ']
    words = ['a', 'b-1', '#x', 'é', '(>=', '1.0)', 'a:b', '[!i386]']
    ws_lines = ['', ' ', '\t\t', 'a', ' a', 'a ', 'a b', ' a  b\tc ', 'a,b', 'a, b', '#x y']
    ws_lines += [w1 + b_ + w2 for b_ in blanks for w1, w2 in (('a', 'b'), ('(>=', '1.0)'))] + [b_ + 'x' + b_ for b_ in blanks] + words
    comma_lines = ['', ' ', ',', 'a', ' a', 'a ', 'a,b', 'a, b', 'a ,b', ' a , b ', 'a,,b', 'a, ,b', ',a', 'a,', ' ,a, ', 'a b, c', 'a (>= 1.0), b [!i386] | c', 'a\tb ,\tc',
                   'x\u2028y, z', 'x\xa0, y', '#x, y']
    for fname, lines, kind in (('whitespace_split_tokenizer', ws_lines, 'ws'), ('comma_split_tokenizer', comma_lines, 'comma')):
        f = src.func('%s:%s' % (TK, fname))
        rep.saw_func(f)
        bad = None
        for line in lines:
            def tok(kind_):
                return lambda it_, a, k: it_.h.alloc(kind_, {'text': a[0] if a else {'Deb822CommaToken': ','}.get(kind_)})
            hooks = {n_: tok(n_) for n_ in mod.classes if n_.startswith('Deb822') and n_.endswith('Token')}
            hooks['sys.intern'] = lambda it_, a, k: a[0]
            heap = H.Heap(mod, hooks=hooks)
            heap.native_regex = True
            it = H.Interp(heap)
            try:
                toks = [(heap.objs[t_.name]['__class__'], heap.objs[t_.name]['text']) for t_ in it.seq(it.call(H.Closure(f.node, {}, None, None), [line]))]
            except H.Raised as x:
                bad = bad or 'the line %r makes the tokenizer raise %s (line %d)' % (line, x.exc, x.lineno)
                continue
            if any(not isinstance(t_[1], str) for t_ in toks):
                raise AnalysisError('%s: a token without decided text for the line %r: %r' % (f.site, line, toks))
            values = [t_[1] for t_ in toks if t_[0] == 'Deb822ValueToken']
            others = [t_ for t_ in toks if t_[0] != 'Deb822ValueToken']
            want = line.split() if kind == 'ws' else [x_.strip() for x_ in line.split(',') if x_.strip()]
            if ''.join(t_[1] for t_ in toks) != line:
                bad = bad or 'the tokens of the line %r are %r: their texts do not concatenate to the line (text is lost, repeated or re-ordered)' % (line, [t_[1] for t_ in toks])
            elif values != want:
                bad = bad or 'the value tokens of the line %r are %r; the values of the line are %r' % (line, values, want)
            elif any(t_[1] == '' for t_ in toks):
                bad = bad or 'the line %r gives a token without text' % (line,)
            elif any(not (t_[1].isspace() or (kind == 'comma' and t_[1] == ',')) for t_ in others):
                bad = bad or 'the line %r gives the non-value token %r, which is neither whitespace nor the separator' % (line, [t_ for t_ in others if not t_[1].isspace()][:1])
        what = '%s on %d lines: the tokens tile the line and the value tokens are its values' % (fname, len(lines))
        if bad:
            rep.fail('C11.R3', f.site, what, bad, where=f.where)
        else:
            rep.ok('C11.R3', f.site, what, 'all lines')


def r2_r3_tokenizers(rep, src):
    alpha = rx.alphabet('str')
    nonl = rx.regex_lang(r'[^\n]*', 0, 'fullmatch', alpha=alpha)
    wsonly = rx.regex_lang(r'\s*', 0, 'fullmatch', alpha=alpha)
    _tokenizers_on_lines(rep, src)
    for rname, fname, must_cover in (('_RE_WHITESPACE_SEPARATED_WORD_LIST', 'whitespace_split_tokenizer', nonl),
                                     ('_RE_COMMA_SEPARATED_WORD_LIST', 'comma_split_tokenizer', nonl)):
        try:
            r = src.regex(TK, rname)
        except AnalysisError:
            # this tokenizer is not written with the pattern of the pinned code: what the pattern rules decide on languages (matches
            # tile the line, groups tile a match, a word holds no separator) is decided for it on the family of lines of
            # _tokenizers_on_lines only
            continue
        rep.saw_regex('tokens:' + rname)
        f = src.func('%s:%s' % (TK, fname))
        rep.saw_func(f)
        node_, inl_ = normalize.inline_yield_from(f)      # generators delegated to with `yield from`: their bodies in place
        if inl_:
            for q_ in inl_:
                rep.saw_func(src.func('%s:%s' % (TK, q_)))
            f = Func(f.module, node_, f.qual, f.cls)
        star = rx.regex_lang('(?:%s)*' % r['pattern'], r['flags'], 'fullmatch', alpha=alpha)
        # lines handled by the function: by the finditer loop (concatenations of matches) or by a special case in front
        # of it that emits the whole line as one token
        from .. import paths as P0
        vparam = f.params()[0]
        anyl = rx.regex_lang('(?s:.*)', 0, 'fullmatch', alpha=alpha)

        def lh(en, st_, path):
            if isinstance(st_, ast.For) and isinstance(st_.iter, ast.Call) and isinstance(st_.iter.func, ast.Attribute) and st_.iter.func.attr == 'finditer' \
                    and [norm(a_) for a_ in st_.iter.args] == [vparam]:
                path.events.append(('finditer', st_, st_))
                return [path]
            return None
        handled = anyl.complement()
        for p_ in P0.function_paths(f.node, P0.Folder(), lh):
            if p_.outcome[0] == 'raise':
                continue
            lang = anyl
            for t_, pol in p_.conds:
                pl = strlang.pred_lang(t_, vparam, alpha)
                lang = lang.intersect(pl if pol else pl.complement())
            if any(e_[0] == 'finditer' for e_ in p_.events):
                handled = handled.union(lang.intersect(star))
                continue
            ys_ = [e_[1].value for e_ in p_.events if e_[0] == 'effect' and isinstance(e_[1], ast.Expr) and isinstance(e_[1].value, ast.Yield)]
            whole = len(ys_) == 1 and isinstance(ys_[0].value, ast.Call) and len(ys_[0].value.args) == 1 \
                and norm(ys_[0].value.args[0]) in (vparam, 'sys.intern(%s)' % vparam)
            if whole:
                handled = handled.union(lang)
            elif not ys_:
                handled = handled.union(lang.intersect(rx.regex_lang('', 0, 'fullmatch', alpha=alpha)))
        w = must_cover.not_subset_witness(handled)
        if w is not None:
            rep.fail('C11.R3', f.site, 'consecutive matches cover the whole value line', 'finditer(%s) cannot tile the line %r: characters between matches are skipped '
                     '(the length check then rejects the field, or text is lost)' % (rname, w), detail={'witness': w}, where=f.where)
        else:
            rep.ok('C11.R3', f.site, 'consecutive matches cover the whole value line', 'every %s line is a concatenation of matches' % ('non-blank' if fname.startswith('white') else ''))
        # group tiling inside one match
        tree = rx.parse(r['pattern'], r['flags'])
        ng = tree.state.groups - 1
        groups = list(range(1, ng + 1))
        markers = [(k, g) for g in groups for k in ('open', 'close')]
        Rm = rx.regex_lang(r['pattern'], r['flags'], 'fullmatch', groups, markers, alpha)
        nA = alpha.n
        opens = {nA + markers.index(('open', g)): g for g in groups}
        closes = {nA + markers.index(('close', g)): g for g in groups}

        def step(s, sym):
            cur, last = s
            if cur == 'dead':
                return s
            if sym in opens:
                g = opens[sym]
                return (g, last) if (cur is None and g > last) else ('dead', 0)
            if sym in closes:
                return (None, closes[sym]) if cur == closes[sym] else ('dead', 0)
            return s if cur is not None else ('dead', 0)
        tile = rx.from_function(alpha, markers, (None, 0), step, lambda s: s[0] is None)
        w = Rm.not_subset_witness(tile)
        if w is not None:
            rep.fail('C11.R3', f.site, 'the groups tile each match', 'in the parse %r a character lies outside every group: the tokenizer, which emits the groups, loses it' % w,
                     detail={'witness': w}, where=f.where)
        else:
            rep.ok('C11.R3', f.site, 'the groups tile each match', '%d groups partition every match' % ng)
        # groups are emitted in order, each exactly when it is non-empty: the paths of the loop body over the matches,
        # locals substituted away, yield token constructors whose text argument is a group of the match
        from .. import paths as P
        loops = [s_ for s_ in f.node.body if isinstance(s_, ast.For) and isinstance(s_.iter, ast.Call) and isinstance(s_.iter.func, ast.Attribute)
                 and s_.iter.func.attr == 'finditer' and isinstance(s_.target, ast.Name)]
        if len(loops) != 1:
            raise AnalysisError('%s: loop over finditer() not found' % f.site)
        mv = loops[0].target.id
        gindex = dict(tree.state.groupdict)
        consts_ = const_token_texts(src)

        def group_of(e):
            """group number denoted by an expression, through text-preserving wrappers"""
            while isinstance(e, ast.Call) and norm(e.func) in ('sys.intern', 'str', 'intern') and len(e.args) == 1:
                e = e.args[0]
            if isinstance(e, ast.Subscript) and norm(e.value) == '%s.groups()' % mv and isinstance(e.slice, ast.Constant):
                return e.slice.value + 1
            if isinstance(e, ast.Call) and norm(e.func) == '%s.group' % mv and len(e.args) == 1 and isinstance(e.args[0], ast.Constant):
                k = e.args[0].value
                return gindex.get(k) if isinstance(k, str) else k
            if isinstance(e, ast.Subscript) and norm(e.value) == mv and isinstance(e.slice, ast.Constant):
                k = e.slice.value
                return gindex.get(k) if isinstance(k, str) else k
            if isinstance(e, ast.Subscript) and norm(e.value) == '%s.groupdict()' % mv and isinstance(e.slice, ast.Constant) and isinstance(e.slice.value, str):
                return gindex.get(e.slice.value)
            if isinstance(e, ast.Call) and norm(e.func) == '%s.groupdict().get' % mv and len(e.args) == 1 and isinstance(e.args[0], ast.Constant):
                return gindex.get(e.args[0].value)
            return None
        ps = P.Enumerator(P.Folder()).run(loops[0].body, [P.Path()])
        problems = []
        covered = set()
        for p_ in ps:
            falsy = {group_of(t) for t, pol in p_.conds if not pol and group_of(t) is not None}
            truthy = {group_of(t) for t, pol in p_.conds if pol and group_of(t) is not None}
            seq = []
            for ev in p_.events:
                if ev[0] == 'effect' and isinstance(ev[1], ast.Expr) and isinstance(ev[1].value, ast.Yield):
                    v = ev[1].value.value
                    if not isinstance(v, ast.Call):
                        problems.append('yields %s' % norm(v)[:40])
                        continue
                    if v.args:
                        g = group_of(v.args[0])
                        if g is None:
                            problems.append('a token is built from %s, which is not a group of the match' % norm(v.args[0])[:50])
                            continue
                        seq.append(g)
                    else:
                        # constant token: stands for the group whose truth guards it and whose language is that constant
                        text = consts_.get(norm(v.func))
                        cands = [g for g in truthy if g not in seq]
                        g = None
                        for c in sorted(cands):
                            only = rx.regex_lang(rx.literal(text), 0, 'fullmatch', alpha=alpha) if text is not None else None
                            part = rx.has_group(alpha, markers, c)
                            if only is not None and Rm.intersect(part).minus(rx.group_content(alpha, markers, c, only)).is_empty() \
                                    and Rm.intersect(part).minus(rx.group_content(alpha, markers, c, rx.regex_lang('.+', 16, 'fullmatch', alpha=alpha))).is_empty():
                                g = c
                                break
                        if g is None:
                            problems.append('the constant token %s does not stand for a group whose text is always %r' % (norm(v.func), text))
                            continue
                        seq.append(g)
            if seq != sorted(set(seq)):
                problems.append('groups are emitted in the order %s' % seq)
            missing = [g for g in groups if g not in seq and g not in falsy]
            if missing:
                problems.append('group(s) %s may be non-empty on a path that does not emit them' % missing)
            covered |= set(seq)
        if not problems and covered != set(groups):
            problems.append('groups %s are never emitted' % sorted(set(groups) - covered))
        if not problems:
            rep.ok('C11.R3', f.site, 'groups are emitted in order', '%d paths: every non-empty group is emitted once, in group order' % len(ps))
        else:
            rep.fail('C11.R3', f.site, 'groups are emitted in order', 'the tokenizer does not emit every group of a match once, in order: %s: text is dropped or re-ordered'
                     % '; '.join(sorted(set(problems))[:3]), where=f.where)
    # separator never inside a word
    def _rx_or_none(nm_):
        try:
            return src.regex(TK, nm_)
        except AnalysisError:
            return None
    rw = _rx_or_none('_RE_WHITESPACE_SEPARATED_WORD_LIST')
    rc = _rx_or_none('_RE_COMMA_SEPARATED_WORD_LIST')
    for r, g, sepname, seppat in ((rw, 'word', 'whitespace', r'(?s:.*)\s(?s:.*)'), (rc, 'word', 'comma', r'(?s:.*),(?s:.*)')):
        if r is None:
            continue
        markers = [('open', g), ('close', g)]
        Rm = rx.regex_lang(r['pattern'], r['flags'], 'fullmatch', [g], markers, alpha)
        bad = rx.group_content(alpha, markers, g, rx.regex_lang(seppat, 0, 'fullmatch', alpha=alpha))
        w = Rm.intersect(bad).witness()
        site = '%s:%s' % (TK, r['binding'])
        if w is not None:
            rep.fail('C11.R3', site, 'a word never contains the separator', 'the word group can contain a %s (%r): one listed value is reported as containing the separator' % (sepname, w))
        else:
            rep.ok('C11.R3', site, 'a word never contains the separator', 'word ∩ Σ*%sΣ* = ∅' % sepname)
    # comma words have no surrounding whitespace (values are reported trimmed)
    if rc is not None:
        markers = [('open', 'word'), ('close', 'word')]
        Rm = rx.regex_lang(rc['pattern'], rc['flags'], 'fullmatch', ['word'], markers, alpha)
        bad = rx.group_content(alpha, markers, 'word', rx.regex_lang(r'\s(?s:.*)|(?s:.*)\s', 0, 'fullmatch', alpha=alpha))
        w = Rm.intersect(bad).witness()
        if w is not None:
            rep.fail('C11.R3', '%s:%s' % (TK, rc['binding']), 'comma-list words are trimmed', 'a word can start or end with whitespace: %r' % w)
        else:
            rep.ok('C11.R3', '%s:%s' % (TK, rc['binding']), 'comma-list words are trimmed', 'no leading/trailing whitespace in a word')
    # the value-line wrapper: continuation marker, content, newline
    vt = src.func(TK + ':_value_line_tokenizer')
    inner = [n for n in vt.node.body if isinstance(n, ast.FunctionDef)]
    if len(inner) != 1:
        raise AnalysisError('%s: inner tokenizer not found' % vt.site)
    # (which lines are comment lines -- the later lines of the value that start with '#', never the rest of the field line -- is decided per
    # line shape by C11.R7)
    # the wrapper interpreted on a symbolic multi-line value: first line, continuation line, comment line, continuation
    # line without final newline; the wrapped tokenizer is a stub that returns one opaque token per call
    from .. import symstr
    from ..symstr import SStr
    word = r'[^\s#][^\n\r\x0b\x0c\x1c\x1d\x1e\x85\u2028\u2029]*'
    A1, A2, A3, CM = symstr.atom('first', word), symstr.atom('second', word), symstr.atom('third', word), symstr.atom('comment', r'[^\n\r\x0b\x0c\x1c\x1d\x1e\x85\u2028\u2029]*')
    value = A1 + '\n ' + A2 + '\n#' + CM + '\n\t' + A3
    got_tokens = []

    def tok(kind):
        def mk(it, args, kw):
            return (kind, args[0] if args else None)
        return mk
    hp = H.Heap(src.mod(TK), extra_modules=[src.mod('_deb822_repro._util')], hooks={'Deb822CommentToken': tok('comment'), 'Deb822ValueContinuationToken': tok('cont'), 'Deb822NewlineAfterValueToken': tok('newline'),
                                    'sys.intern': lambda it, a, k: a[0], 'FUNC': lambda it, a, k: [('content', a[0])]})
    hp.symbolic_strings = True
    itp = H.Interp(hp)
    try:
        res = itp.call(H.Closure(inner[0], {'func': ('hook', 'FUNC')}, None, None), [value])
        for x in itp.seq(res):
            got_tokens.append((x[0], x[1] if not isinstance(x[1], SStr) else (x[1].concrete() if x[1].concrete() is not None else repr(x[1]))))
        want_tokens = [('content', repr(A1)), ('newline', None), ('cont', ' '), ('content', repr(A2)), ('newline', None), ('comment', repr(SStr(['#']) + CM + '\n')),
                       ('cont', '\t'), ('content', repr(A3))]
        if got_tokens == want_tokens:
            rep.ok('C11.R3', vt.site, 'value line = continuation marker + content + newline', '8 tokens for "first / second / #comment / third": every character is emitted once, in order')
        else:
            rep.fail('C11.R3', vt.site, 'value line = continuation marker + content + newline',
                     'the value "first\\n second\\n#comment\\n\\tthird" is tokenised as %r; specified: %r (marker, content, newline without loss)' % (got_tokens, want_tokens), where=vt.where)
    except H.Raised as x:
        rep.fail('C11.R3', vt.site, 'value line = continuation marker + content + newline', 'raises %s (line %d) on a well-formed multi-line value' % (x.exc, x.lineno), where=vt.where)
    # R2: both pipelines pass the length check
    ps = src.func(PM + ':GenericContentBasedInterpretation._parse_str')
    rep.saw_func(ps)
    from .. import paths as P1
    pps = P1.function_paths(ps.node)
    okp = bool(pps)
    for p_ in pps:
        ys = [e[1].value.value for e in p_.events if e[0] == 'effect' and isinstance(e[1], ast.Expr) and isinstance(e[1].value, (ast.Yield, ast.YieldFrom))]
        rets = [p_.outcome[1]] if p_.outcome[0] == 'return' and p_.outcome[1] is not None else []
        exprs = ys + rets

        def checked(e, inner_call):
            """e is len_check_iterator(content, X ...) with the call `inner_call` somewhere inside X"""
            return isinstance(e, ast.Call) and norm(e.func).endswith('len_check_iterator') and len(e.args) >= 2 and norm(e.args[0]) == ps.params()[1] \
                and any(isinstance(c, ast.Call) and norm(c.func) == inner_call for c in ast.walk(e.args[1]))
        good = False
        for e in exprs:
            if checked(e, 'self._parse_stream'):
                inner_checks = [c for c in ast.walk(e.args[1]) if checked(c, 'self._tokenizer')]
                if inner_checks:
                    good = True
        okp = okp and good
    if okp:
        rep.ok('C11.R2', ps.site, 'tokenizer and parser output are length-checked', 'len_check_iterator(content, parse_stream(... len_check_iterator(content, tokenizer(content)) ...))')
    else:
        rep.fail('C11.R2', ps.site, 'tokenizer and parser output are length-checked', 'a stage of the list pipeline is no longer guarded by len_check_iterator', where=ps.where)
    # the check itself, interpreted on model streams of tokens and elements: a stream whose token texts add up to the length of the
    # content is handed through item by item; one that loses or repeats text ends in an exception
    lc = src.func('_deb822_repro._util:len_check_iterator')
    rep.saw_func(lc)
    umod = src.mod('_deb822_repro._util')
    bad = None
    for label, texts, content, explicit, fine in (
            ('three tokens that cover the content', ['ab', 'c', 'de'], 'abcde', None, True), ('an element of two tokens and a token', [['ab', 'c'], 'de'], 'abcde', None, True),
            ('no token for an empty content', [], '', None, True), ('the length given explicitly', ['ab', 'c'], 'abcXX', 3, True),
            ('a token is lost', ['ab', 'de'], 'abcde', None, False), ('a token is lost inside an element', [['ab'], 'de'], 'abcde', None, False),
            ('a token is repeated', ['ab', 'c', 'c', 'de'], 'abcde', None, False), ('nothing is emitted', [], 'abcde', None, False),
            ('more than the explicit length', ['ab', 'c', 'de'], 'abcde', 3, False)):
        def parts_of(it_, a, k):
            o_ = it_.h.objs[a[0].name]
            if '#tokens' not in o_:
                raise H.Raised('AttributeError', it_.h.version, 0)          # (a token has no parts)
            return H.PyIter(list(o_['#tokens']))
        hp_ = H.Heap(umod, extra_modules=[src.mod(PM), src.mod('_deb822_repro.tokens')], hooks={'.iter_tokens': parts_of, '.iter_parts': parts_of, 'cast': lambda it_, a, k: a[1],
                                                                                                     'textwrap.dedent': lambda it_, a, k: a[0], 'dedent': lambda it_, a, k: a[0]})
        it_ = H.Interp(hp_)
        items = []
        for k_, t_ in enumerate(texts):
            if isinstance(t_, list):
                toks_ = [hp_.alloc('Deb822Token', {'text': x_, '_text': x_, '_parent_element': 'set'}) for x_ in t_]
                items.append(hp_.alloc('Deb822Element', {'#tokens': toks_}, name='@element%d' % k_))
            else:
                items.append(hp_.alloc('Deb822Token', {'text': t_, '_text': t_}, name='@token%d' % k_))
        try:
            out = it_.seq(it_.call(H.Closure(lc.node, {}, None, None), [content, hp_.new_list(items)] + ([explicit] if explicit is not None else [])))
            got = 'the items' if out == items else 'other items: %r' % (out,)
        except H.Raised as x:
            got = 'raises %s' % x.exc
        if fine and got != 'the items':
            bad = bad or '%s: the checked stream %s' % (label, 'gives ' + got if not got.startswith('raises') else got)
        if not fine and not got.startswith('raises'):
            bad = bad or '%s (texts %r for the content %r): the checked stream ends without an error' % (label, texts, content)
    if bad:
        rep.fail('C11.R2', lc.site, 'length check raises on any mismatch', bad + ': the coverage check no longer rejects lost or duplicated text', where=lc.where)
    else:
        rep.ok('C11.R2', lc.site, 'length check raises on any mismatch', '4 covering and 5 non-covering model streams', nontrivial=False)


# ---- R4 write-back -------------------------------------------------------------------------------

def r4_writeback(rep, src):
    """_update_field interpreted on view stubs: the field text is re-parsed and only the value element of a syntactically
    valid result replaces the old one; a view without content, ending on a comment, or producing a syntax error raises
    ValueError with the old value element still in place; a missing final newline is supplied before the re-parse"""
    f = src.func('%s:%s._update_field' % (PM, CLS))
    rep.saw_func(f)
    mod = src.mod(PM)
    scen = [
        # name, tokens (kind, text), parser reports an error | shape of the re-parse (paragraphs, fields), expected: ('ok' | 'ValueError'), newline must be appended
        ('a value that ends with a newline', [('V', 'a'), ('N', '\n')], False, 'ok', False),
        ('a value without final newline', [('V', 'a')], False, 'ok', True),
        ('a comment as last token', [('V', 'a'), ('N', '\n'), ('C', '# c\n')], False, 'ValueError', None),
        ('blanks and a comment as last token', [('W', ' '), ('C', '# c\n')], False, 'ValueError', None),
        ('text the parser rejects', [('V', 'a'), ('N', '\n')], True, 'ValueError', False),
        ('text that re-parses as two fields', [('V', 'a\nX: y'), ('N', '\n')], (1, 2), 'ValueError', False),
        ('text that re-parses as two paragraphs', [('V', 'a\n\nX: y'), ('N', '\n')], (2, 1), 'ValueError', False),
        # a blank line ends the paragraph: the re-parse is the field and a separator after it, which would be dropped
        ('text that re-parses as the field followed by a blank line', [('V', 'a'), ('N', '\n'), ('W', ' '), ('N', '\n')], (1, 1, 'blank'), 'ValueError', False),
        # the list became empty (its last value was removed): an empty field is valid and is read back as the empty list
        ('a list without values (a blank and the line end)', [('W', ' '), ('N', '\n')], False, 'ok', False),
    ]
    for name, toks, perr, want, want_nl in scen:
        shape = perr if isinstance(perr, tuple) else (1, 1)
        perr = perr is True
        log = []

        def parse(it, args, kw, log=log, perr=perr):
            lines = it.seq(args[0])
            log.append(('parse', ''.join(str(x) for x in lines)))
            return it.h.alloc('Deb822FileElement', {'err': perr}, name='@reparsed')
        heap = H.Heap(mod, field_alias={'_previous_node': 'previous_node', '_parent_element': 'parent_element'}, extra_modules=[src.mod('_util'), src.mod(TK), src.mod('_deb822_repro._util')], hooks={
            'parse_deb822_file': parse,
            '.find_first_error_element': lambda it, a, k: it.h.alloc('Deb822ErrorElement', {}, name='@error') if it.h.objs[a[0].name]['err'] else None,
            '.get_kvpair_element': lambda it, a, k: it.h.newkv,
            '.append_newline': lambda it, a, k, log=log: log.append(('append_newline',)),
            '._generate_field_content': lambda it, a, k: ''.join(t for _k, t in it.h.toks) + ('\n' if any(e == ('append_newline',) for e in log) else ''),
            '._generate_reformatted_field_content': lambda it, a, k: 'F:' + ''.join(t for _k, t in it.h.toks),
            '._iter_content_as_tokens': lambda it, a, k: list(it.h.tokrefs),
            '.convert_to_text': lambda it, a, k: it.h.objs[a[0].name]['text'],
        })
        heap.symbolic_strings = True
        heap.toks = toks
        heap.tokrefs = [heap.alloc(KINDS[k_] if k_ != 'V' else 'Deb822ValueToken', {'text': t_, 'is_comment': k_ == 'C', 'is_whitespace': k_ in 'WN'}) for k_, t_ in toks]
        lst, nodes = H.build_list(heap, heap.tokrefs)
        old = heap.alloc('Deb822ValueElement', {}, name='@old_value')
        kv = heap.alloc('Deb822KeyValuePairElement', {'field_name': 'F', 'value_element': old}, name='@field')
        newv = heap.alloc('Deb822ValueElement', {}, name='@new_value')
        heap.newkv = heap.alloc('Deb822KeyValuePairElement', {'field_name': 'F', 'value_element': newv}, name='@new_field')
        para = heap.alloc('Deb822NoDuplicateFieldsParagraphElement', {'kvpair_count': shape[1]}, name='@reparsed_paragraph')
        more = [heap.alloc('Deb822NoDuplicateFieldsParagraphElement', {'kvpair_count': 1}, name='@reparsed_paragraph%d' % i_) for i_ in range(2, shape[0] + 1)]
        extra = [heap.alloc('Deb822WhitespaceToken', {'text': ' \n', 'is_whitespace': True, 'is_comment': False}, name='@separator')] if len(shape) > 2 else []
        # all parts of the re-parsed file (paragraphs and what stands between or after them), when the code asks for them
        heap.hooks['.iter_parts'] = lambda it, a, k, para=para, more=more, extra=extra: it.h.new_list([para] + more + extra)
        heap.hooks['.__iter__'] = None
        del heap.hooks['.__iter__']
        heap.hooks['next'] = lambda it, a, k: para
        heap.hooks['iter'] = lambda it, a, k: a[0]
        # the paragraphs of the re-parsed file, however they are asked for (list(file) / iteration)
        heap.hooks['list'] = lambda it, a, k, para=para, more=more: it.h.new_list([para] + more) if isinstance(a[0], H.Ref) and it.h.objs[a[0].name]['__class__'] == 'Deb822FileElement' else it.h.new_list(it.seq(a[0]))
        heap.hooks['.__len__'] = None
        del heap.hooks['.__len__']
        view = heap.alloc(CLS, {'_kvpair_element': kv, '_token_list': lst, '_changed': True, '_format_preserve_original_formatting': True}, name='@view')
        what = 'write-back of %s' % name
        try:
            H.Interp(heap).call(H.Closure(f.node, {}, view, f.cls), [])
            exc = None
        except H.Raised as x:
            exc = x.exc
        cur = heap.objs[kv.name]['value_element']
        parses = [e for e in log if e[0] == 'parse']
        if want == 'ValueError':
            if exc == 'ValueError' and cur == old:
                rep.ok('C11.R4', f.site, what, 'ValueError, the old value element stays')
            else:
                rep.fail('C11.R4', f.site, what, 'the edited field must be refused with ValueError and the old value element kept; got %s, value element %s'
                         % (exc or 'no error', cur), where=f.where)
            continue
        problems = []
        if exc is not None:
            problems.append('raises %s' % exc)
        if cur != newv:
            problems.append('the value element of the re-parsed field is not stored (it is %s)' % cur)
        if len(parses) != 1:
            problems.append('the text is re-parsed %d times' % len(parses))
        elif parses[0][1] != 'F:' + ''.join(t_ for _k, t_ in toks) + ('\n' if want_nl else ''):
            problems.append('the text handed to the parser is %r, not the field name, ":" and the token texts verbatim%s' % (parses[0][1], ' with the supplied final newline' if want_nl else ''))
        if want_nl and (('append_newline',) not in log or log.index(('append_newline',)) > log.index(parses[0]) if parses else True):
            problems.append('a value without final newline is not terminated before the re-parse')
        if heap.objs[view.name]['_changed'] is not False:
            problems.append('the changed flag is not reset')
        if problems:
            rep.fail('C11.R4', f.site, what, '; '.join(problems), where=f.where)
        else:
            rep.ok('C11.R4', f.site, what, 're-parsed %r, new value element stored, flag reset' % parses[0][1])


def const_token_texts(src):
    """token classes whose constructor passes a constant text to the base class"""
    m = src.mod(TK)
    out = {}
    for cname in m.classes:
        init = m.funcs.get(cname + '.__init__')
        if init is None or len(init.params()) != 1:
            continue
        for c in ast.walk(init.node):
            if isinstance(c, ast.Call) and isinstance(c.func, ast.Attribute) and c.func.attr == '__init__' and len(c.args) == 1 \
                    and isinstance(c.args[0], ast.Constant) and isinstance(c.args[0].value, str):
                out[cname] = c.args[0].value
    return out


def r6_views_are_fresh(rep, src):
    """frame rule for the read path of a list view: paragraph → wrapper.__getitem__ → _interpret_value → interpret → token list.
    Nothing on it may store into state that outlives the call: a remembered view would hand out an object carrying edits
    that were never committed (abandoned with-block, scratch list), which the next open/close writes into the document"""
    from . import common
    PMn = '_deb822_repro.parsing'
    sites = [PMn + ':AutoResolvingMixin.__getitem__', PMn + ':Deb822InterpretingParagraphWrapper._interpret_value',
             PMn + ':GenericContentBasedInterpretation.interpret', PMn + ':GenericContentBasedInterpretation._parse_kvpair',
             PMn + ':GenericContentBasedInterpretation._parse_str', PMn + ':ListInterpretation._high_level_interpretation',
             PMn + ':Deb822KeyValuePairElement.interpret_as']
    common.check_no_hidden_state(rep, src, 'C11.R6', sites,
                                 'the interpreted value of a field is remembered across look-ups: a later view of the same field is the same object, including '
                                 'edits that were abandoned, instead of a fresh list built from the current field text')


def r7_opening_a_view(rep, src):
    """the wrapper that cuts a field value into physical lines for the list tokenizers, interpreted line by line on symbolic
    lines (sa.heap + sa.symstr): for every line a field value can contain -- the rest of the field line (any text, also blank,
    empty or starting with '#'), then comment lines and non-blank continuation lines -- one iteration of its loop raises nothing,
    yields tokens whose texts concatenate to the line, takes exactly the later lines that start with '#' for comments, and hands
    the rest of the line (without continuation marker and line end) to the list tokenizer.  The constructor of the view accepts
    the token list of an empty value."""
    from .. import symstr
    from ..symstr import SStr
    fac = src.func(TK + ':_value_line_tokenizer')
    rep.saw_func(fac)
    impl = [n for n in fac.node.body if isinstance(n, ast.FunctionDef)]
    if len(impl) != 1 or len(fac.params()) != 1:
        raise AnalysisError('%s: expected one inner function over one wrapped tokenizer' % fac.site)
    impl = impl[0]
    inner_name = fac.params()[0]
    vparam = impl.args.args[0].arg
    loops = [s_ for s_ in impl.body if isinstance(s_, ast.For)]
    if len(loops) != 1:
        raise AnalysisError('%s: line loop not found' % fac.site)
    loop = loops[0]
    itx = loop.iter
    counter = None
    if isinstance(itx, ast.Call) and norm(itx.func) == 'enumerate' and len(itx.args) == 1 and isinstance(loop.target, ast.Tuple) and len(loop.target.elts) == 2:
        counter, linevar = loop.target.elts[0].id, loop.target.elts[1].id
        itx = itx.args[0]
    elif isinstance(loop.target, ast.Name):
        linevar = loop.target.id
    else:
        raise AnalysisError('%s: loop target not understood' % fac.site)
    # (what the loop iterates over is evaluated per scenario below: it must be the lines of the value, cut at newlines only, ends kept)
    pre = impl.body[:impl.body.index(loop)]
    mod = src.mod(TK)
    NONL = r'[^\n]'

    def run(lines_of, at):
        """lines_of(at) -> (whole value text, [line ...]); -> per line ('raise', exc, lineno) | ('tokens', [(class, text)])"""
        value, lines = lines_of(at)
        heap = H.Heap(mod, extra_modules=[src.mod('_deb822_repro._util')], hooks={'sys.intern': lambda it_, a, k: a[0], 'INNER': lambda it_, a, k: it_.h.new_list([it_.h.alloc('INNER', {'text': a[0]})])})
        heap.symbolic_strings = True
        it = H.Interp(heap)
        env = {vparam: value, inner_name: ('hook', 'INNER'), '#yields': []}
        out = []
        try:
            it.run(pre, env, None)
            cut0 = it.ev(itx, env, None)
            if isinstance(cut0, tuple) and cut0 and cut0[0] == 'linesof':
                return [('cut', 'the lines of str.splitlines(), which also ends a line at VT, FF, FS, GS, RS, U+0085, U+2028, U+2029 and a lone CR', [repr(x_) for x_ in lines])]
            cut = it.seq(cut0)
        except H.Raised as x:
            return [('raise', x.exc, x.lineno)]
        if len(cut) != len(lines) or not all(symstr.lift(a_).same(symstr.lift(b_)) for a_, b_ in zip(cut, lines)):
            return [('cut', [repr(x_) for x_ in cut], [repr(x_) for x_ in lines])]
        for no, line in enumerate(lines):
            env['#yields'] = []
            env[linevar] = line
            if counter:
                env[counter] = no
            try:
                r_ = it.run(loop.body, env, None)
            except H.Raised as x:
                out.append(('raise', x.exc, x.lineno))
                break
            toks = []
            for t in env['#yields']:
                for t1 in (it.seq(t) if heap.is_list(t) else [t]):
                    if not isinstance(t1, H.Ref):
                        raise AnalysisError('%s: the loop yields %r, not a token' % (fac.site, t1))
                    cls_ = heap.objs[t1.name]['__class__']
                    toks.append((cls_, heap.objs[t1.name]['text'] if cls_ == 'INNER' else it.ev(ast.parse('tok.text', mode='eval').body, {'tok': t1}, None)))
            out.append(('tokens', toks))
        return out
    # scenarios: (label, atoms, builder, index of the examined line, is it the first line)
    scen = [
        ('the rest of the field line, the whole value', {'A': NONL + '*'}, lambda at: (at['A'] + '\n', [at['A'] + '\n']), 0, True),
        ('the rest of the field line without line end, the whole value', {'A': NONL + '+'}, lambda at: (at['A'], [at['A']]), 0, True),
        ('the rest of the field line, continuation lines follow', {'A': NONL + '*'}, lambda at: (at['A'] + '\n v\n', [at['A'] + '\n', ' v\n']), 0, True),
        ('a comment line inside the value', {'A': NONL + '*'}, lambda at: (SStr(['x\n#']) + at['A'] + '\n v\n', ['x\n', SStr(['#']) + at['A'] + '\n', ' v\n']), 1, False),
        ('a comment line after a blank first line', {'A': NONL + '*'}, lambda at: (SStr(['\n#']) + at['A'] + '\n v\n', ['\n', SStr(['#']) + at['A'] + '\n', ' v\n']), 1, False),
    ]
    NB = NONL + r'*[^\s]' + NONL + '*'
    for mk, mname in ((' ', 'space'), ('\t', 'tab')):
        scen += [
            ('a continuation line (%s)' % mname, {'A': NB}, lambda at, mk=mk: (SStr(['x\n' + mk]) + at['A'] + '\n', ['x\n', SStr([mk]) + at['A'] + '\n']), 1, False),
            ('the last continuation line, without line end (%s)' % mname, {'A': NB}, lambda at, mk=mk: (SStr(['x\n' + mk]) + at['A'], ['x\n', SStr([mk]) + at['A']]), 1, False),
            ('a continuation line after a blank first line and a comment (%s)' % mname, {'A': NB},
             lambda at, mk=mk: (SStr([' \n# c\n' + mk]) + at['A'] + '\n', [' \n', '# c\n', SStr([mk]) + at['A'] + '\n']), 2, False),
        ]
    total = 0
    for label, atoms, build, idx, is_first in scen:
        bad = None
        n = 0

        def body(at, build=build):
            return run(build, at), build(at)[1]
        for langs, (res, lines) in symstr.explore(atoms, body, depth=10):
            n += 1
            wit = {k: l_.witness() for k, l_ in langs.items()}
            shown = ''.join(p_ if isinstance(p_, str) else wit.get(getattr(p_, 'name', ''), '?') for p_ in symstr.lift(lines[idx]).parts)
            if res and res[0][0] == 'cut':
                bad = bad or '%s, e.g. %r: the value is cut into the lines %s instead of %s (only a newline ends a line of a field value)' % (label, shown, res[0][1], res[0][2])
                continue
            if len(res) <= idx or res[idx][0] == 'raise':
                r_ = res[min(idx, len(res) - 1)]
                bad = bad or '%s, e.g. %r: raises %s at line %d' % (label, shown, r_[1], r_[2])
                continue
            toks = res[idx][1]
            line = symstr.lift(lines[idx])
            cat = SStr()
            for c_, t_ in toks:
                cat = cat + symstr.lift(t_)
            empty = {k for k, l_ in langs.items() if l_.not_subset_witness(symstr.lit_lang('')) is None}

            def nz(s_):
                return SStr([p_ for p_ in s_.parts if isinstance(p_, str) or getattr(p_, 'name', None) not in empty])
            if not nz(cat).same(nz(line)):
                bad = bad or '%s, e.g. %r: the token texts concatenate to %r, the line is %r' % (label, shown, nz(cat), nz(line))
                continue
            is_comment_line = (not is_first) and shown.startswith('#')
            comment_toks = [c_ for c_, t_ in toks if c_ == 'Deb822CommentToken']
            inner = [t_ for c_, t_ in toks if c_ == 'INNER']
            if is_comment_line != bool(comment_toks) or (comment_toks and len(toks) != 1):
                bad = bad or ('%s, e.g. %r: %s' % (label, shown, 'a line of the value that is not a comment line is taken for a comment: its '
                              'values are missing from the list' if comment_toks else 'the comment line is handed to the list tokenizer'))
                continue
            if not is_comment_line:
                # what the list tokenizer sees: the line without continuation marker and line end
                want = line
                if not is_first:
                    want = SStr(list(want.parts[1:])) if want.parts and not isinstance(want.parts[0], str) else SStr([want.parts[0][1:]] + list(want.parts[1:]))
                if want.parts and isinstance(want.parts[-1], str) and want.parts[-1].endswith('\n'):
                    want = SStr(list(want.parts[:-1]) + ([want.parts[-1][:-1]] if want.parts[-1][:-1] else []))
                if len(inner) != 1 or not nz(symstr.lift(inner[0])).same(nz(want)):
                    bad = bad or '%s, e.g. %r: the list tokenizer is given %r instead of %r' % (label, shown, inner, nz(want))
        total += n
        if bad:
            rep.fail('C11.R7', fac.site, 'every line of a field value is tokenized: ' + label, bad, where=fac.where)
        elif n == 0:
            raise AnalysisError('%s: no case interpreted for %s' % (fac.site, label))
        else:
            rep.ok('C11.R7', fac.site, 'every line of a field value is tokenized: ' + label, '%d symbolic cases' % n)
    rep.analysed['paths'] += total
    # the constructor of the view on the token lists of values without any item (empty value, only a line end, only blanks), then
    # a first append: interpreted on the heap model
    ctor = src.func(PM + ':%s.__init__' % CLS)
    rep.saw_func(ctor)
    for space_sep in (False, True):
        for lay, text in (('', 'an empty value without line end'), ('N', 'an empty value'), ('P N' if space_sep else 'W N', 'a blank value')):
            heap, _view, _lst, _nodes, _vals = build_view(src, 'V', space_sep)
            it = H.Interp(heap)
            toks = [heap.alloc(KINDS[ch], {'text': {'N': '\n', 'W': ' ', 'P': ' '}[ch], 'is_comment': False, 'is_whitespace': True, 'parent_element': None}) for ch in lay.split()]
            view = heap.alloc(CLS, {})
            what = 'a view of %s (%s-separated list, tokens [%s]) can be opened and extended' % (text, 'blank' if space_sep else 'comma', lay)
            try:
                it.call(H.Closure(ctor.node, {}, view, ctor.cls), [None, heap.new_list(toks), ('class', KINDS['V']), ('class', KINDS['P' if space_sep else 'S']),
                                                                    ('hook', 'factory'), ('hook', 'sepfactory'), ('hook', 'render')])
            except H.Raised as x:
                rep.fail('C11.R7', ctor.site, what, 'the constructor raises %s (line %d) for the token list of %s: the list view of a field without items cannot be opened'
                         % (x.exc, x.lineno, text), where=ctor.where)
                continue
            o = heap.objs[view.name]
            o['_value_factory'] = ('hook', 'factory')
            lst = o.get('_token_list')
            got, kinds, problems = read_values(heap, lst)
            if got or problems:
                rep.fail('C11.R7', ctor.site, what, 'the new view lists %s %s' % (got, '; '.join(problems)), where=ctor.where)
                continue
            fn = heap.module.method(CLS, 'append')
            try:
                it.call(H.Closure(fn.node, {}, view, fn.cls), [H.Key('new', 'new')])
                got, kinds, problems = read_values(heap, lst)
            except H.Raised as x:
                rep.fail('C11.R7', fn.site, what, 'append on the empty view raises %s (line %d)' % (x.exc, x.lineno), where=fn.where)
                continue
            if got != ['new'] or problems or not o.get('_changed'):
                rep.fail('C11.R7', fn.site, what, 'after append(new) the view lists %s (changed flag %s) %s' % (got, o.get('_changed'), '; '.join(problems)), where=fn.where)
            else:
                rep.ok('C11.R7', ctor.site, what, 'no values; after append: %s (tokens %s)' % (got, kinds))


def r8_memo_slots(rep, src):
    """a lazily filled attribute (`if self.x is None: self.x = <computation>`) remembers one computation: two methods that fill the
    same attribute with different computations hand each other's result out -- whichever runs first decides what both return from
    then on (the text of a value with and without its comment lines share a slot: after an append, which asks for the full text,
    the list view shows the comment as part of the value)"""
    n = 0
    for modname in (PM, TK):
        mod = src.mod(modname)
        for cname in mod.classes:
            fills = {}
            for q, fn in mod.funcs.items():
                if not q.startswith(cname + '.') or '.' in q[len(cname) + 1:]:
                    continue
                # locals that hold the current content of an attribute (`text = self._cached`)
                held = {a_.targets[0].id: a_.value.attr for a_ in ast.walk(fn.node) if isinstance(a_, ast.Assign) and len(a_.targets) == 1
                        and isinstance(a_.targets[0], ast.Name) and isinstance(a_.value, ast.Attribute) and norm(a_.value.value) == 'self'}
                for st in ast.walk(fn.node):
                    if not (isinstance(st, ast.If) and isinstance(st.test, ast.Compare) and len(st.test.ops) == 1 and isinstance(st.test.ops[0], ast.Is)
                            and isinstance(st.test.comparators[0], ast.Constant) and st.test.comparators[0].value is None):
                        continue
                    left = st.test.left
                    if isinstance(left, ast.Attribute) and norm(left.value) == 'self':
                        attr = left.attr
                    elif isinstance(left, ast.Name) and left.id in held:
                        attr = held[left.id]          # the test reads the attribute through the local
                    else:
                        continue
                    for a_ in st.body:
                        if isinstance(a_, ast.Assign) and any(norm(t_) == 'self.' + attr for t_ in a_.targets):
                            fills.setdefault(attr, []).append((fn, a_))
            for attr, lst in sorted(fills.items()):
                n += 1
                kinds = {}
                for fn, a_ in lst:
                    kinds.setdefault(norm(a_.value), []).append(fn)
                site = '%s:%s' % (modname, cname)
                if len(kinds) > 1:
                    (k1, f1), (k2, f2) = list(kinds.items())[:2]
                    rep.fail('C11.R8', site, 'memo slot %s holds one computation' % attr, '%s fills self.%s with `%s`, %s fills the same attribute with `%s`: after one of them has run '
                             'the other returns its result' % (f1[0].qual, attr, k1[:60], f2[0].qual, k2[:60]), where=f2[0].where)
                else:
                    rep.ok('C11.R8', site, 'memo slot %s holds one computation' % attr, '%d lazy fill(s), one computation' % len(lst), nontrivial=len(lst) > 1)
    if n < 2:
        raise AnalysisError('only %d lazily filled attributes found in the parser classes' % n)


def r8b_value_texts(rep, src):
    """the two texts a list value has -- with and without its comment lines -- interpreted (sa.heap) on value elements built from token
    lists, asked in both orders: the full text is the texts of all tokens, the text without comments the texts of the tokens that
    are not comment tokens.  Whether a piece of text is a comment is a property of its TOKEN: a value whose own text begins with
    '#', or has a line that does, keeps it."""
    mod = src.mod(PM)
    cname = 'Deb822ParsedValueElement'
    init = mod.method(cname, '__init__')
    if init is None:
        raise AnalysisError('%s:%s.__init__ not found' % (PM, cname))
    layouts = [('a value that begins with "#" and continues on the next line',
                [('Deb822ValueToken', '#beta'), ('Deb822NewlineAfterValueToken', '\n'), ('Deb822ValueContinuationToken', ' '), ('Deb822WhitespaceToken', ' '), ('Deb822ValueToken', '(experimental)')]),
               ('two values with a comment line between them',
                [('Deb822ValueToken', 'a'), ('Deb822CommaToken', ','), ('Deb822NewlineAfterValueToken', '\n'), ('Deb822CommentToken', '# c\n'), ('Deb822ValueContinuationToken', ' '),
                 ('Deb822ValueToken', 'b')]),
               ('a value whose second line begins with "#" after the continuation blank',
                [('Deb822ValueToken', 'x'), ('Deb822NewlineAfterValueToken', '\n'), ('Deb822ValueContinuationToken', ' '), ('Deb822ValueToken', '#y')]),
               ('a single token', [('Deb822ValueToken', '#only')])]
    for label, lay in layouts:
        full = ''.join(t_ for _c, t_ in lay)
        bare = ''.join(t_ for c_, t_ in lay if c_ != 'Deb822CommentToken')
        for order in (('convert_to_text', 'convert_to_text_without_comments'), ('convert_to_text_without_comments', 'convert_to_text'),
                      ('convert_to_text_without_comments', 'convert_to_text_without_comments')):
            heap = H.Heap(mod, extra_modules=[src.mod('_util'), src.mod(TK), src.mod('_deb822_repro._util')], hooks={'._init_parent_of_parts': lambda it_, a, k: None})
            it = H.Interp(heap)
            toks = [heap.alloc(c_, {'_text': t_, '_parent_element': 'PARENT'}) for c_, t_ in lay]
            me = heap.alloc(cname, {})
            what = '%s: %s, then %s' % (label, order[0], order[1])
            try:
                it.call(H.Closure(init.node, {}, me, init.cls), [heap.new_list(toks)])
                got = []
                for m_ in order:
                    fn = mod.method(cname, m_)
                    if fn is None:
                        raise AnalysisError('%s:%s.%s not found' % (PM, cname, m_))
                    rep.saw_func(fn)
                    r_ = it.call(H.Closure(fn.node, {}, me, fn.cls), [])
                    got.append(r_.concrete() if hasattr(r_, 'concrete') else r_)
            except H.Raised as x:
                rep.fail('C11.R8', '%s:%s' % (PM, cname), what, 'raises %s (line %d)' % (x.exc, x.lineno))
                continue
            want = [full if m_ == 'convert_to_text' else bare for m_ in order]
            if got == want:
                rep.ok('C11.R8', '%s:%s' % (PM, cname), what, '%r / %r' % tuple(got), nontrivial=False)
            else:
                k_ = 0 if got[0] != want[0] else 1
                rep.fail('C11.R8', '%s:%s' % (PM, cname), what, '%s gives %r for the tokens %r; it is %r (%s)' % (
                    order[k_], got[k_], [t_ for _c, t_ in lay], want[k_], 'the texts of all tokens' if order[k_] == 'convert_to_text' else 'the texts of the tokens that are not comment tokens'))


def r10_value_factory(rep, src):
    """what turns the text of an appended / replacing value into a value element (the factory the list view is given in its
    constructor) interpreted (sa.heap) with a model parser that cuts a text as the statement defines it -- maximal runs of
    non-whitespace for the whitespace list, trimmed pieces between commas for the comma list: a text is taken exactly when it is one
    value and nothing else, and the element it becomes has that text; every other text is refused with ValueError.  (That the real
    tokenizers cut this way is C11.R3.)"""
    import re as _re
    mod = src.mod(PM)
    init = mod.method(CLS, '__init__')
    if init is None:
        raise AnalysisError('%s:%s.__init__ not found' % (PM, CLS))
    rep.saw_func(init)
    call = None
    for st in ast.walk(init.node):
        if isinstance(st, ast.Assign) and len(st.targets) == 1 and norm(st.targets[0]) == 'self._value_factory':
            call = st.value
    if not isinstance(call, ast.Call):
        raise AnalysisError('%s: the value factory of the view is not built by a call in the constructor' % init.site)
    argnames = [norm(a_) for a_ in call.args] + [norm(k_.value) for k_ in call.keywords]
    params = init.params()
    pname = next((a_ for a_ in argnames if 'parser' in a_ and a_ in params), None)
    tname = next((a_ for a_ in argnames if a_ in params and a_ != pname), None)
    if pname is None or tname is None:
        raise AnalysisError('%s: the factory is built from %s: parser / value type not recognised' % (init.site, argnames))

    def model(kind, v):
        out = []
        if kind == 'ws':
            for m_ in _re.finditer(r'\s+|\S+', v):
                out.append((not m_.group().isspace(), m_.group()))
        else:
            for i, piece in enumerate(v.split(',')):
                if i:
                    out.append((False, ','))
                m_ = _re.fullmatch(r'(\s*)(.*?)(\s*)', piece, _re.S)
                for j, g_ in enumerate(m_.groups()):
                    if g_:
                        out.append((j == 1, g_))
        return out

    def run(kind, v):
        def parser(it, a, k):
            return it.h.new_list([it.h.alloc('Deb822ParsedValueElement' if isval else 'Deb822WhitespaceToken', {'#text': text}) for isval, text in model(kind, a[0])])

        def conv(it, a, k):
            o = it.h.objs[a[0].name]
            if '#text' in o:
                return o['#text']
            m_ = it.h.module.method(o['__class__'], 'convert_to_text')
            if m_ is None:
                raise AnalysisError('convert_to_text of a %s' % o['__class__'])
            return it.call(H.Closure(m_.node, {}, a[0], m_.cls), [])
        heap = H.Heap(mod, extra_modules=[src.mod('_util'), src.mod(TK), src.mod('_deb822_repro._util')],
                      hooks={'modelparser': parser, '.convert_to_text': conv, 'sys.intern': lambda it_, a, k: a[0], '._init_parent_of_parts': lambda it_, a, k: None,
                             'textwrap.dedent': lambda it_, a, k: a[0]})
        it = H.Interp(heap)
        fac = it.ev(call, {pname: ('hook', 'modelparser'), tname: ('class', 'Deb822ParsedValueElement')}, CLS)
        try:
            r = it.apply(fac, [v])
        except H.Raised as x:
            return 'raises ' + x.exc
        if not isinstance(r, H.Ref):
            return 'gives %r' % (r,)
        return ('element', heap.objs[r.name]['__class__'], conv(it, [r], {}))
    CANDS = ['a', 'b-1', 'a b', ' a', 'a ', 'a,b', 'a, b', ',a', 'a,', '', ' ', '\t', 'a\tb', 'linux any', 'a (>= 1.0)', 'x32 arm64', '[!i386]', 'é']
    n = 0
    for kind, label in (('ws', 'whitespace-separated list'), ('comma', 'comma-separated list')):
        bad = None
        for v in CANDS:
            got = run(kind, v)
            one = model(kind, v) == [(True, v)]
            n += 1
            if one and got != ('element', 'Deb822ParsedValueElement', v):
                bad = bad or 'the text %r is one value of a %s; the factory %s' % (v, label, got if isinstance(got, str) else 'gives %r' % (got,))
            elif not one and got != 'raises ValueError':
                bad = bad or ('the text %r is not one value of a %s (it reads as %r); the factory %s: append(%r) / replace(..., %r) / a value reference set to it puts ONE item into '
                              'the view while the written field re-parses to what the text reads as' % (
                                  v, label, [t_ for ok_, t_ in model(kind, v) if ok_], 'accepts it as %r' % (got,) if not isinstance(got, str) else got, v, v))
        what = 'the value factory takes exactly the texts that are one value (%s)' % label
        if bad:
            rep.fail('C11.R10', PM + ':' + norm(call.func), what, bad, where='%s:%d' % (mod.relpath, call.lineno))
        else:
            rep.ok('C11.R10', PM + ':' + norm(call.func), what, '%d texts' % len(CANDS))
    rep.analysed['paths'] += n


def r11_views_end_to_end(rep, src, tier):
    """the statement on whole documents: a document is parsed by the interpreted parser (sa.heap, the whole pipeline), a list field is
    opened through the interpreted interpret_as(...) of its element -- the comma list and the whitespace list, in layouts with line
    breaks, comment lines between the values, blanks around the separators, a trailing separator --, read, closed unchanged, and edited
    (append, remove, replace, assignment and removal through a value reference; one and two steps).  The values read are the values of
    a split model kept here; closing without an edit leaves the text byte for byte; after an edit the text before and behind the field
    is byte for byte what it was, the document parses strictly, and the field opened again reads exactly the edited list."""
    import itertools
    import re as _re
    from .. import heap as H
    mod = src.mod(PM)
    f = src.func(PM + ':parse_deb822_file')
    rep.saw_func(f)

    def world():
        heap = H.Heap(mod, extra_modules=[src.mod(TK), src.mod('_deb822_repro._util'), src.mod('_util'), src.mod('_deb822_repro.formatter')],
                      hooks={'sys.intern': lambda it, a, k: a[0], '_strI': lambda it, a, k: H.Key(a[0].lower(), a[0]) if isinstance(a[0], str) else a[0]})
        heap.native_regex = True
        return heap, H.Interp(heap)

    def text_of(it, heap, doc):
        m_ = mod.method(heap.objs[doc.name]['__class__'], 'convert_to_text')
        t_ = it.call(H.Closure(m_.node, {}, doc, m_.cls), [])
        return t_.concrete() if hasattr(t_, 'concrete') else t_

    def run(text, kind, ops):
        """-> (values read first, text afterwards) ; ops: list of source lines executed inside the with block"""
        heap, it = world()
        doc = it.call(H.Closure(f.node, {}, None, None), [heap.new_list(text.splitlines(True))], {})
        env = {'doc': doc}
        prog = ("p = next(iter(doc))\nkv = p.get_kvpair_element('List')\nwith kv.interpret_as(%s) as lst:\n    vals = list(lst)\n" % kind) + ''.join('    %s\n' % o_ for o_ in ops)
        for st in ast.parse(prog).body:
            it.exec(st, env, None)
        v_ = env['vals']
        vals = [x_.concrete() if hasattr(x_, 'concrete') else x_ for x_ in (heap.items(v_) if heap.is_list(v_) else it.seq(v_))]
        return vals, text_of(it, heap, doc)
    BEFORE, AFTER = '# head\nSource: x\n', 'Other: y z\n\nPackage: p\n'
    FIELDS = [('LIST_COMMA_SEPARATED_INTERPRETATION', ',', [' a, b,\n# note\n c\n', ' a,b\n', '\n a ,\n b,\n', ' a,\n b,\n c,\n', ' only\n', ' a (>= 1), b [x y]\n']),
              ('LIST_SPACE_SEPARATED_INTERPRETATION', None, [' amd64 i386\n', '\n amd64\n# c\n i386\n', '  one   two  \n three\n', ' single\n'])]

    def split_model(rest, sep):
        body = ''.join(l_ for l_ in rest.splitlines(True) if not l_.startswith('#'))
        parts = body.split(sep) if sep else body.split()
        return [_re.sub(r'\\s+', ' ', x_.strip()) if sep else x_ for x_ in parts if x_.strip()]
    # (`vals` is the list as it was read when the view was opened: remove / replace name a value of THAT list; the references are taken
    # from the list as it is at that step)
    def without(v, x):
        k = v.index(x)
        return v[:k] + v[k + 1:]

    def replaced(v, x, y):
        k = v.index(x)
        return v[:k] + [y] + v[k + 1:]
    EDITS = [("lst.append('new')", lambda v, v0: v + ['new']), ("lst.remove(vals[0])", lambda v, v0: without(v, v0[0])),
             ("lst.replace(vals[-1], 'last')", lambda v, v0: replaced(v, v0[-1], 'last')),
             ("refs = list(lst.iter_value_references()); refs[0].value = 'first'", lambda v, v0: ['first'] + v[1:]),
             ("refs = list(lst.iter_value_references()); refs[-1].remove()", lambda v, v0: v[:-1])]
    n, bad = 0, None
    for kind, sep, rests in FIELDS:
        for rest in rests:
            text = BEFORE + 'List:' + rest + AFTER
            want_vals = split_model(rest, sep)
            k_ = rests.index(rest)
            if tier == 'thorough':
                steps = [[e_] for e_ in EDITS] + [list(p_) for p_ in itertools.permutations(EDITS, 2)]
            else:
                # (every edit on at least one layout of each kind, a two-step history on the first layout; thorough: everything)
                steps = [[EDITS[(k_ + (0 if sep else 2)) % 5]]] + ([[EDITS[0], EDITS[1]]] if k_ == 0 else [[EDITS[(k_ + 3) % 5]]] if k_ == 1 else [])
            for hist in [[]] + steps:
                n += 1
                vals_model = list(want_vals)
                applicable = []
                for src_line, fn_ in hist:
                    if not vals_model and 'vals[' in src_line:
                        continue
                    if len(vals_model) == 1 and ('remove' in src_line):
                        continue          # (a field must keep a value)
                    try:
                        nxt_ = fn_(vals_model, want_vals)
                    except ValueError:
                        continue          # (the value named by `vals` is no longer in the list)
                    applicable.append(src_line)
                    vals_model = nxt_
                label = 'List:%r read as a %s list%s' % (rest, 'comma' if sep else 'whitespace', (', then ' + '; '.join(applicable)) if applicable else ', closed unchanged')
                try:
                    vals, after = run(text, kind, applicable)
                except H.Raised as x:
                    bad = bad or '%s: raises %s (line %d)' % (label, x.exc, x.lineno)
                    continue
                got_vals = [_re.sub(r'\\s+', ' ', x_) for x_ in vals] if sep else vals
                if got_vals != want_vals:
                    bad = bad or '%s: the values are %r; the text splits into %r' % (label, vals, want_vals)
                    continue
                if not applicable:
                    if after != text:
                        bad = bad or '%s: the document text changes to %r' % (label, after)
                    continue
                if not (after.startswith(BEFORE + 'List:') and after.endswith(AFTER)):
                    bad = bad or '%s: the text in front of or behind the field is not what it was: %r' % (label, after)
                    continue
                try:
                    again, _t = run(after, kind, [])
                except H.Raised as x:
                    bad = bad or '%s: the document %r cannot be read again (%s)' % (label, after, x.exc)
                    continue
                again = [_re.sub(r'\\s+', ' ', x_) for x_ in again] if sep else again
                if again != vals_model:
                    bad = bad or '%s: the field now reads %r (text %r); the edited list is %r' % (label, again, after[len(BEFORE):len(after) - len(AFTER)], vals_model)
    rep.analysed['paths'] += n
    what = 'list views of a parsed document: values as split, unchanged on a plain close, the edited list after edits, nothing else touched (interpreted documents)'
    if bad:
        rep.fail('C11.R11', f.site, what, bad, where=f.where)
    else:
        rep.ok('C11.R11', f.site, what, '%d histories on %d field layouts' % (n, sum(len(r_) for _k, _s, r_ in FIELDS)))


def check(src, rep, tier):
    rep.explanation = ('C11: (R1) call-graph effect analysis in Deb822ParsedTokenList: methods that (transitively) mutate the token list must '
                       '(transitively) store _changed = True, read accessors must do neither, _update_field is called only from __exit__ under '
                       '`exc_type is None and self._changed`, value references are wired to _remove_node/_mark_changed.  (R5) remove / '
                       'reference.remove / replace / append / reference assignment are interpreted on symbolic token lists (nine layouts: '
                       'comma and blank separated, with and without leading blank, trailing separator, comment and continuation tokens) and '
                       'the resulting values, read from the head of the list, must equal the reference model with a well-formed list.  '
                       '(R3) list regexes: star-closure covers every newline-free line, groups tile each match and are emitted in order, the '
                       'separator never occurs in a word, comment predicate language = #Σ*.  (R2) both pipeline stages are length-checked.  '
                       '(R4) checks dominate the store of the re-parsed value element.')
    rep.not_decided = ['the exact whitespace/comment layout the removal heuristics leave behind', 'sort_elements ordering', 'formatter output (reformat_when_finished)']
    rep.need('C11.R1', 15)
    rep.need('C11.R2', 2)
    rep.need('C11.R3', 8)
    rep.need('C11.R4', 5)
    rep.need('C11.R5', 60)
    rep.need('C11.R6', 7)
    rep.guard('C11.R1', r1_changed_flag, src)
    rep.guard('C11.R5', r5_edits, src, tier)
    rep.guard('C11.R3', r2_r3_tokenizers, src)
    rep.guard('C11.R4', r4_writeback, src)
    rep.guard('C11.R6', r6_views_are_fresh, src)
    rep.need('C11.R9', 1)
    from . import common
    rep.guard('C11.R9', common.check_line_primitive, src, 'C11.R9', [PM + ':%s._update_field' % CLS],
              'an edited field whose text contains such a character is re-parsed as more lines than it has')
    rep.need('C11.R8', 2)
    rep.guard('C11.R8', r8_memo_slots, src)
    rep.guard('C11.R8', r8b_value_texts, src)
    rep.need('C11.R7', 15)
    rep.guard('C11.R7', r7_opening_a_view, src)
    rep.need('C11.R11', 1)
    rep.guard('C11.R11', r11_views_end_to_end, src, tier)
    rep.need('C11.R10', 2)
    rep.guard('C11.R10', r10_value_factory, src)

"""C05 -- edits through the format-preserving parser are local and read back."""
import ast

from .. import heap as H, rx, strlang, cfg, paths, normalize
from ..core import AnalysisError, norm, walk_no_nested
from . import C10, common


def _VE_LIST(src):
    from .common import list_attr_of
    return list_attr_of(src, PM, 'Deb822ValueElement')


def _OS_FIELDS(src):
    from .common import ordered_set_fields
    return ordered_set_fields(src)


META = {
    'design_ref': 'DESIGN.md §5 C05',
    'technique': "shape-case abstract interpretation of set/remove on both paragraph implementations and of the final-newline helper; __setitem__ and set_field_to_simple_value interpreted on symbolic strings by cases (F / F\\n / F\\nR\\n / F\\nR') against the specified calls; set_field_from_raw_string unfolded into paths (helpers inlined): per-line acceptance as regular languages, validate-before-commit on every committing path; comment hand-over by object identity; line-primitive rule; capture agreement of the field-line regex with the Policy 5.1 field-name language; frame obligation on the final-newline helper chain (nothing but the missing line end changes), interpreted on lines with every part present; no store into the paragraph or its existing field is followed by a refusal (path rule); the string wrapper assignment interpreted on symbolic values with automatic case refinement (a decision of the code that depends on the value splits the case, every sub-case is judged); the commit of an assignment is atomic (what is taken from the existing element is put back when the commit refuses the key); whole documents parsed by the interpreted parser, edited through the interpreted dict interface and compared after every step with a text model kept by the rule (the lines of that field only), then read again",
    'level_text': 'Static decision of the structural conditions for locality: a new field is placed last only after the last field was '
                  'terminated, the terminating newline goes to the last line of the last field and nowhere else, a replacement never moves '
                  'or touches other fields, deletion unlinks exactly the addressed occurrences, a value is routed to the single-line path '
                  'exactly when it contains no newline, the re-parsed value is validated before it is stored, lookups use the '
                  'case-insensitive key and the original spelling of an existing field is kept.',
    'level_note': 'trusted: heap interpreter, automata engine, CFG builder; byte identity of untouched text follows from C01 (tokens are '
                  'never rewritten) and is not re-derived here',
}

PM = '_deb822_repro.parsing'


class Proxy:
    def __init__(self, rep, rule):
        self._rep, self._rule = rep, rule

    def ok(self, rule, site, what, detail=None, nontrivial=True):
        self._rep.ok(self._rule, site, what, detail, nontrivial)

    def fail(self, rule, site, construct, msg, detail=None, where=None):
        self._rep.fail(self._rule, site, construct, msg, detail, where)

    def __getattr__(self, name):
        return getattr(self._rep, name)


def r1_r2_set_remove(rep, src):
    """new key: helper first, appended last; existing key: in place, helper untouched; remove: exact occurrences"""
    px = Proxy(rep, 'C05.R1')
    C10.r5_dup_set_remove(px, src)
    C10.r_nodup(Proxy(rep, 'C05.R2'), src)
    C10.r_nodup_histories(Proxy(rep, 'C05.R2'), src)


def r1b_helper(rep, src):
    """_add_final_newline_if_missing terminates the last line of the LAST field and nothing else"""
    m = src.mod(PM)
    for cname, build in ((C10.DUP, 'dup'), (C10.NOD, 'nodup')):
        log = []
        heap = H.Heap(src.mod(PM), field_alias={'_previous_node': 'previous_node', '_parent_element': 'parent_element'}, extra_modules=[src.mod('_util'), src.mod('_deb822_repro.tokens')],
                      opaque_ctors={'Deb822NewlineAfterValueToken', 'Deb822WhitespaceToken'}, hooks={'_strI': lambda it, a, k: H.Key(a[0].lower(), a[0]) if isinstance(a[0], str) else a[0]})
        names = [H.Key('a', 'A'), H.Key('b', 'B'), H.Key('c', 'C')]
        kvs, lines_of = [], {}
        for i, k in enumerate(names):
            lines = []
            for j in range(2):
                terminated = not (i == len(names) - 1 and j == 1)
                nl = heap.alloc('Deb822NewlineAfterValueToken', {'text': '\n', 'parent_element': None}) if terminated else None
                # (every part of a line is there, so that a helper that touches more than the line end is seen: the line keeps its
                # comment, its continuation marker, the blanks around the value and the value)
                tw = heap.alloc('Deb822WhitespaceToken', {'text': '  ', 'parent_element': None}, name='@trail_%s%d' % (k.cls, j))
                lw = heap.alloc('Deb822WhitespaceToken', {'text': ' ', 'parent_element': None}, name='@lead_%s%d' % (k.cls, j))
                vt = heap.alloc('Deb822ValueToken', {'text': 'v', 'parent_element': None}, name='@value_%s%d' % (k.cls, j))
                ct = heap.alloc('Deb822ValueContinuationToken', {'text': ' ', 'parent_element': None}, name='@cont_%s%d' % (k.cls, j)) if j else None
                lines.append(heap.alloc('Deb822ValueLineElement', {'_newline_token': nl, '_parent_element': None, '_comment_element': None, '_continuation_line_token': ct,
                                                                   '_leading_whitespace_token': lw, '_value_tokens': heap.new_list([vt]), '_trailing_whitespace_token': tw},
                                        name='@line_%s%d' % (k.cls, j)))
            ve = heap.alloc('Deb822ValueElement', {_VE_LIST(src): heap.new_list(lines), '_parent_element': None}, name='@val_%s' % k.cls)
            kv = heap.alloc('Deb822KeyValuePairElement', {'field_name': k, 'value_element': ve, '_parent_element': None, 'parent_element': None},
                            name='@kv_%s' % k.cls)
            kvs.append(kv)
            lines_of[k.cls] = lines
        if build == 'dup':
            lst, nodes = H.build_list(heap, kvs)
            d = heap.new_dict()
            for k, n in zip(names, nodes):
                heap.objs[d.name]['entries'].append((k, heap.new_list([n])))
            para = heap.alloc(cname, {'_kvpair_order': lst, '_kvpair_elements': d}, name='@para')
        else:
            lst, nodes = H.build_list(heap, names)
            table = heap.new_dict()
            for k, n in zip(names, nodes):
                heap.objs[table.name]['entries'].append((k, n))
            oset = heap.alloc('OrderedSet', {_OS_FIELDS(src)[0]: table, _OS_FIELDS(src)[1]: lst})
            d = heap.new_dict()
            for k, kv in zip(names, kvs):
                heap.objs[d.name]['entries'].append((k, kv))
            para = heap.alloc(cname, {'_kvpair_order': oset, '_kvpair_elements': d}, name='@para')
        fn = heap.module.method(cname, '_add_final_newline_if_missing')
        if fn is None:
            raise AnalysisError('%s._add_final_newline_if_missing not found' % cname)
        rep.saw_func(fn)
        it = H.Interp(heap)
        what = 'final-newline helper on %s with fields [A B C], last line of C unterminated' % cname
        before = {ln.name: heap.objs[ln.name]['_newline_token'] for ls in lines_of.values() for ln in ls}
        everything = {nm: {k_: (list(v_) if isinstance(v_, list) else v_) for k_, v_ in o_.items()} for nm, o_ in heap.objs.items()}
        try:
            it.call(H.Closure(fn.node, {}, para, fn.cls), [])
        except H.Raised as x:
            rep.fail('C05.R1', fn.site, what, 'raises %s (line %d)' % (x.exc, x.lineno), where=fn.where)
            continue
        after = {ln.name: heap.objs[ln.name]['_newline_token'] for ls in lines_of.values() for ln in ls}
        changed = sorted(n for n in after if after[n] != before[n])
        other = sorted('%s.%s' % (nm, k_) for nm, o_ in everything.items() for k_ in set(o_) | set(heap.objs.get(nm, {}))
                       if not (nm == '@line_c1' and k_ == '_newline_token') and k_ not in ('_parent_element', 'parent_element')
                       and (heap.objs.get(nm, {}).get(k_) if not isinstance(heap.objs.get(nm, {}).get(k_), list) else list(heap.objs[nm][k_])) != o_.get(k_))
        if changed == ['@line_c1'] and after['@line_c1'] is not None and other:
            rep.fail('C05.R1', fn.site, what, 'supplying the missing line end also changes %s: the one permitted side effect is the newline itself -- bytes in front of the new field '
                     '(the blanks at the end of "Section: misc  ", a comment, the value) change' % ', '.join(other[:4]), where=fn.where)
        elif changed == ['@line_c1'] and after['@line_c1'] is not None:
            rep.ok('C05.R1', fn.site, what, 'only the last line of the last field receives a newline token')
        elif not changed:
            rep.fail('C05.R1', fn.site, what, 'the unterminated last field is left as it is (the helper looks at another field): a field placed after it is '
                     'glued to its last line', where=fn.where)
        else:
            rep.fail('C05.R1', fn.site, what, 'the helper changes %s instead of the last line of the last field' % changed, where=fn.where)
    _ = m


def lookup_helper_names(src):
    """names of private methods of the paragraph classes whose every return hands back a `self.get_kvpair_element(...)` lookup -- the
    plain one in the base class, one that resolves an ambiguous key in the class that allows duplicates: a call of such a method is a
    lookup of the field too"""
    mod_ = src.mod(PM)
    lookup_helpers = set()
    for q_, g_ in mod_.funcs.items():
        nm_ = q_.split('.')[-1]
        if '.' in q_ and nm_.startswith('_') and not nm_.startswith('__') and 'Paragraph' in q_.split('.')[0]:
            rets_ = [r_ for r_ in ast.walk(g_.node) if isinstance(r_, ast.Return)]
            if rets_ and all(r_.value is not None and isinstance(r_.value, ast.Call) and isinstance(r_.value.func, ast.Attribute)
                             and r_.value.func.attr == 'get_kvpair_element' and norm(r_.value.func.value) == 'self' for r_ in rets_):
                lookup_helpers.add(nm_)
    return lookup_helpers


def r3_keys(rep, src):
    m = src.mod(PM)
    n = 0
    for cname in (C10.DUP, C10.NOD):
        meths = {q: fn for q, fn in sorted(m.funcs.items()) if q.startswith(cname + '.') and '.' not in q[len(cname) + 1:]}

        def local_normalised(fn):
            out = set()
            for st in ast.walk(fn.node):
                if isinstance(st, ast.Assign) and isinstance(st.value, ast.Call) and norm(st.value.func) == '_unpack_key':
                    t = st.targets[0]
                    if isinstance(t, ast.Tuple) and isinstance(t.elts[0], ast.Name):
                        out.add(t.elts[0].id)
                if isinstance(st, ast.Assign) and isinstance(st.targets[0], ast.Name) and norm(st.value).endswith('.field_name'):
                    out.add(st.targets[0].id)
                if isinstance(st, (ast.For, ast.comprehension)) and isinstance(st.target, ast.Name) and '_kvpair_order' in norm(st.iter):
                    out.add(st.target.id)
            return out
        norm_of = {q: local_normalised(fn) for q, fn in meths.items()}
        # a parameter of a private helper of the class is a case-insensitive key when every call of the helper inside the class hands
        # it one (fixpoint over the helpers)
        changed = True
        while changed:
            changed = False
            for q, fn in meths.items():
                mname = q[len(cname) + 1:]
                if not mname.startswith('_') or mname.startswith('__'):
                    continue
                ps = [a.arg for a in fn.node.args.args][1:]
                calls = [(cq, c) for cq, cf in meths.items() for c in ast.walk(cf.node) if isinstance(c, ast.Call) and norm(c.func) == 'self.' + mname]
                if not calls:
                    continue
                for i, p_ in enumerate(ps):
                    if p_ in norm_of[q] or any(isinstance(n_, ast.Name) and n_.id == p_ and isinstance(n_.ctx, ast.Store) for n_ in ast.walk(fn.node)):
                        continue
                    def arg_ok(cq, c, i=i, p_=p_):
                        a_ = c.args[i] if i < len(c.args) else next((k_.value for k_ in c.keywords if k_.arg == p_), None)
                        return a_ is not None and ((isinstance(a_, ast.Name) and a_.id in norm_of[cq]) or norm(a_).endswith('.field_name'))
                    if all(arg_ok(cq, c) for cq, c in calls):
                        norm_of[q].add(p_)
                        changed = True
        for q, fn in meths.items():
            normalised = norm_of[q]
            for node in ast.walk(fn.node):
                key = None
                if isinstance(node, ast.Subscript) and norm(node.value) == 'self._kvpair_elements':
                    key = node.slice
                elif isinstance(node, ast.Compare) and len(node.ops) == 1 and isinstance(node.ops[0], (ast.In, ast.NotIn)) \
                        and norm(node.comparators[0]) == 'self._kvpair_elements':
                    key = node.left
                elif isinstance(node, ast.Call) and norm(node.func) == 'self._kvpair_elements.get' and node.args:
                    key = node.args[0]
                if key is None:
                    continue
                n += 1
                kt = norm(key)
                ok = (isinstance(key, ast.Name) and key.id in normalised) or kt.endswith('.field_name') or kt.startswith("cast('_strI'") \
                    or (isinstance(key, ast.Name) and key.id in ('x', 'field_name') and 'field_name' in norm(fn.node))
                if ok:
                    rep.ok('C05.R3', fn.site, 'lookup ' + norm(node)[:50], 'case-insensitive key', nontrivial=False)
                else:
                    rep.fail('C05.R3', fn.site, 'lookup ' + norm(node)[:50], 'the element table is accessed with `%s`, which is not the unpacked case-insensitive key' % kt,
                             where='%s:%d' % (fn.module.relpath, node.lineno))
    if n < 15:
        raise AnalysisError('only %d lookups in the element tables found' % n)
    # _unpack_key: on every returning path the key handed out is a case-insensitive string -- _strI(<given name>) or the text of a
    # field-name token (which is one already)
    u = src.func(PM + ':_unpack_key')
    rep.saw_func(u)
    up = u.params()[0]
    ups = [p_ for p_ in paths.function_paths(u.node) if p_.outcome[0] == 'return']
    badk = None
    for p_ in ups:
        v = p_.outcome[1]
        k = v.elts[0] if isinstance(v, ast.Tuple) and len(v.elts) == 3 else None
        is_token = any(pol and isinstance(t_, ast.Call) and norm(t_.func) == 'isinstance' and norm(t_.args[0]) == up and 'Deb822FieldNameToken' in norm(t_.args[1])
                       for t_, pol in p_.conds)
        if isinstance(k, ast.Call) and norm(k.func) == '_strI' and len(k.args) == 1:
            continue
        if isinstance(k, ast.Attribute) and k.attr == 'text' and norm(k.value) == up and is_token:
            continue
        badk = badk or 'on the path [%s] the key is %s' % (p_.describe()[:100], norm(k)[:50] if k is not None else norm(v)[:50] if v is not None else None)
    if ups and badk is None:
        rep.ok('C05.R3', u.site, 'keys are unpacked to the case-insensitive string', '%d returning paths: _strI(key) / token text' % len(ups), nontrivial=False)
    else:
        rep.fail('C05.R3', u.site, 'keys are unpacked to the case-insensitive string', '_unpack_key does not convert str keys with _strI: %s' % (badk or 'no returning path'), where=u.where)
    # the text of the new field starts with the spelling of the field it replaces (if any), else with the given name:
    # decided on the paths of the function with the locals substituted away
    f = src.func(PM + ':Deb822ParagraphElement.set_field_from_raw_string')
    rawp = f.params()[2]
    keyp = f.params()[1]
    ps = [p_ for p_ in paths.function_paths(f.node, max_paths=20000) if p_.outcome[0] != 'raise']
    rep.analysed['paths'] += len(ps)
    bad = None
    n_join = 0

    lookup_helpers = lookup_helper_names(src)

    def is_lookup(e):
        return isinstance(e, ast.Call) and isinstance(e.func, ast.Attribute) and (e.func.attr == 'get_kvpair_element' or e.func.attr in lookup_helpers) and norm(e.func.value) == 'self'
    for p_ in ps:
        heads = []
        trees = list(p_.env.values()) + [ev[1] for ev in p_.events if ev[0] in ('effect', 'loop')] + [ev[2] for ev in p_.events if ev[0] == 'store']
        for tr in trees:
            for c in ast.walk(tr):
                if isinstance(c, ast.Call) and isinstance(c.func, ast.Attribute) and c.func.attr == 'join' and isinstance(c.func.value, ast.Constant) \
                        and c.func.value.value == ':' and len(c.args) == 1 and isinstance(c.args[0], (ast.Tuple, ast.List)) and len(c.args[0].elts) == 2 \
                        and norm(c.args[0].elts[1]) == rawp:
                    heads.append(c.args[0].elts[0])
        if not heads:
            bad = bad or 'a path builds the new field without "<name>:<raw value>" (%s)' % p_.describe()[:100]
            continue
        n_join += 1
        found = {norm(e_): e_ for e_, pol in p_.conds if pol and is_lookup(e_)}
        missing = [e_ for e_, pol in p_.conds if not pol and is_lookup(e_)]
        for h in heads:
            if isinstance(h, ast.Attribute) and h.attr == 'field_name' and norm(h.value) in found:
                continue       # the field exists: its own spelling
            if missing and not found and ('_unpack_key(%s)' % keyp) in norm(h):
                continue       # no such field yet: the name as given
            bad = bad or 'on the path [%s] the new field text starts with %s' % (p_.describe()[:140], norm(h)[:60])
    if bad is None and n_join:
        rep.ok('C05.R3', f.site, 'original spelling of an existing field is kept', '%d paths: existing field → its field_name, otherwise the given name' % n_join)
    else:
        rep.fail('C05.R3', f.site, 'original spelling of an existing field is kept', 'the new field text is not built from the existing field\'s spelling: %s' % (bad or 'no path builds it'), where=f.where)


def _stores_into_self(target_text):
    """the store target is an attribute / item of self itself (not of an object obtained through a call)"""
    try:
        n = ast.parse(target_text, mode='eval').body
    except SyntaxError:
        return False
    while isinstance(n, (ast.Attribute, ast.Subscript)):
        n = n.value
    return isinstance(n, ast.Name) and n.id == 'self'


def r4_validate_before_commit(rep, src):
    """set_field_from_raw_string, helpers inlined, unfolded into paths: every path that reaches the commit
    (self.set_kvpair_element) has run the per-line checks (decided as languages of accepted lines), has passed the
    "last line is not a comment" test and the syntax-error test on the re-parsed text, and has stored nothing in
    self before."""
    from .. import paths, normalize
    f = src.func(PM + ':Deb822ParagraphElement.set_field_from_raw_string')
    rep.saw_func(f)
    fnode, _inl = normalize.inline_helpers(f)
    alpha = rx.alphabet('str')
    anyl = rx.regex_lang('(?s:.*)', 0, 'fullmatch', alpha=alpha)
    line_loops = []

    def loop_handler(en, st, path):
        # for i, line in enumerate(<lines>, start=1):  /  for line in <lines>:
        if not isinstance(st, ast.For) or st.orelse:
            return None
        it = paths.subst(st.iter, path.env)
        ivar, lvar, start = None, None, 0
        if isinstance(it, ast.Call) and norm(it.func) == 'enumerate' and isinstance(st.target, ast.Tuple) and len(st.target.elts) == 2:
            ivar, lvar = st.target.elts[0].id, st.target.elts[1].id
            start = 0
            for k in it.keywords:
                if k.arg == 'start' and isinstance(k.value, ast.Constant):
                    start = k.value.value
            if len(it.args) > 1 and isinstance(it.args[1], ast.Constant):
                start = it.args[1].value
            seq = it.args[0]
        elif isinstance(st.target, ast.Name):
            lvar, seq = st.target.id, it
        else:
            return None
        if not common.is_line_split(src, seq):
            return None
        accepted = {}
        for first in (True, False):
            def atom(e, first=first):
                # tests on the line number
                if ivar is not None and isinstance(e, ast.Compare) and len(e.ops) == 1 and norm(e.left) == ivar and isinstance(e.comparators[0], ast.Constant):
                    k = e.comparators[0].value
                    op = type(e.ops[0])
                    if first:
                        return {ast.Eq: start == k, ast.NotEq: start != k, ast.Gt: start > k, ast.GtE: start >= k, ast.Lt: start < k, ast.LtE: start <= k}.get(op)
                    if k == start:
                        return {ast.Eq: False, ast.NotEq: True, ast.Gt: True, ast.GtE: True, ast.Lt: False, ast.LtE: False}.get(op)
                    if k == start + 1:
                        return {ast.GtE: True, ast.Lt: False}.get(op)
                return None
            sub = paths.Enumerator(paths.Folder(paths.module_consts(f.module, f.cls or ''), atom))
            p0 = paths.Path()
            p0.env = {k: v for k, v in path.env.items() if k not in (ivar, lvar)}
            acc = anyl.complement()
            for bp in sub.run(st.body, [p0]):
                if bp.outcome is not None and bp.outcome[0] == 'raise':
                    continue
                if bp.outcome is not None and bp.outcome[0] not in ('continue',):
                    raise AnalysisError('%s: the line loop is left by %s' % (f.site, bp.outcome[0]))
                lang = anyl
                for t, pol in bp.conds:
                    if ivar is not None and any(isinstance(n, ast.Name) and n.id == ivar for n in ast.walk(t)):
                        raise AnalysisError('%s: line-number test outside the vocabulary: %s' % (f.site, norm(t)))
                    pl = strlang.pred_lang(t, lvar, alpha)
                    lang = lang.intersect(pl if pol else pl.complement())
                acc = acc.union(lang)
            accepted[first] = acc
        info = dict(seq=norm(seq), accepted=accepted, node=st)
        line_loops.append(info)
        path.events.append(('lines', info, st))
        return [path]
    ps = paths.function_paths(fnode, paths.Folder(paths.module_consts(f.module, f.cls or '')), loop_handler)
    rep.analysed['paths'] += len(ps)

    def is_commit(ev):
        return ev[0] == 'effect' and isinstance(ev[1], ast.Expr) and isinstance(ev[1].value, ast.Call) and norm(ev[1].value.func) == 'self.set_kvpair_element'
    committing = [p_ for p_ in ps if any(is_commit(e) for e in p_.events)]
    if not committing:
        raise AnalysisError('%s: no path reaches self.set_kvpair_element' % f.site)
    nl_end = rx.regex_lang(r'(?s:.*)\n', 0, 'fullmatch', alpha=alpha)
    cont = rx.regex_lang(r'[ \t#](?s:.*)', 0, 'fullmatch', alpha=alpha)
    res = {'every line ends with a newline': True, 'continuation lines start with blank or #': True, 'last line is not a comment': True,
           're-parse of the new field': True, 'syntax errors are rejected': True, 'nothing stored before validation': True,
           'the re-parse is the field and nothing else': True}
    # a line of blanks only ends the paragraph for the parser: when the new value has one as its last line(s), the re-parse is the
    # field followed by a separator (and whatever comes after it), and taking "the first paragraph" silently drops that rest.  Either
    # no such line is accepted by the per-line checks, or the committing path has tested that the re-parsed file has exactly one part.
    blank_line = rx.regex_lang(r'[ \t]*\n', 0, 'fullmatch', alpha=alpha)
    why = {}
    for p_ in committing:
        idx = [i for i, e in enumerate(p_.events) if is_commit(e)][0]
        before = p_.events[:idx]
        loops = [e for e in before if e[0] == 'lines']
        if not loops:
            res['every line ends with a newline'] = res['continuation lines start with blank or #'] = False
        for e in loops[:1]:
            acc = e[1]['accepted']
            w = acc[True].union(acc[False]).not_subset_witness(nl_end)
            if w is not None:
                res['every line ends with a newline'] = False
                why['every line ends with a newline'] = 'the line %r is accepted' % w
            w = acc[False].not_subset_witness(cont)
            if w is not None:
                res['continuation lines start with blank or #'] = False
                why['continuation lines start with blank or #'] = 'the later line %r is accepted' % w
        lits = [(norm(t), pol) for t, pol in p_.conds]
        seqs = {e[1]['seq'] for e in loops}
        last_ok = any(("[-1].startswith('#')" in t and not pol) for t, pol in lits) or any((t.startswith('len(') and '> 1' in t and not pol) for t, pol in lits)
        if not last_ok:
            res['last line is not a comment'] = False
        syn = [(t, pol) for t, pol in lits if 'find_first_error_element' in t or 'error' in t.lower() and 'parse_deb822_file' in t]
        if not any('parse_deb822_file(' in t for t, pol in syn):
            res['re-parse of the new field'] = False
        if not syn or any(pol for t, pol in syn if not t.startswith('not ')):
            res['syntax errors are rejected'] = False
        if any(e[0] == 'store' and _stores_into_self(e[1]) for e in before):
            res['nothing stored before validation'] = False
        blank_ok = bool(loops) and loops[0][1]['accepted'][False].intersect(blank_line).is_empty()
        parts_ok = any('iter_parts()' in t and 'parse_deb822_file(' in t and (('!= 1' in t and not pol) or ('== 1' in t and pol)) for t, pol in lits)
        if not (blank_ok or parts_ok):
            res['the re-parse is the field and nothing else'] = None       # not decided on the path literals: decided by interpretation (r4b)
        if False:
            wb_ = loops[0][1]['accepted'][False].intersect(blank_line).witness() if loops else None
            why['the re-parse is the field and nothing else'] = ('the later line %r is accepted, the parser reads it as the end of the paragraph, and the first paragraph of the re-parse '
                                                                 'is taken without a test that nothing follows it: a value that ends in such lines is stored cut off, without an error' % (wb_,))
        _ = seqs
    # a refusal leaves the paragraph as it was: on no path does a refusal (a raise, or the line loop, whose body raises) follow a store
    # into an object of the document -- self, or a name bound from an expression rooted at self (the existing field, its parts)
    doc_names = {'self'}
    changed_ = True
    while changed_:
        changed_ = False
        for st_ in ast.walk(fnode):
            if isinstance(st_, ast.Assign) and len(st_.targets) == 1 and isinstance(st_.targets[0], ast.Name) and st_.targets[0].id not in doc_names:
                r_ = st_.value
                while isinstance(r_, (ast.Attribute, ast.Subscript, ast.Call)):
                    r_ = r_.func if isinstance(r_, ast.Call) else r_.value
                if isinstance(r_, ast.Name) and r_.id in doc_names:
                    doc_names.add(st_.targets[0].id)
                    changed_ = True

    def doc_store(ev):
        if ev[0] != 'store':
            return False
        try:
            n_ = ast.parse(ev[1], mode='eval').body
        except SyntaxError:
            return False
        if not isinstance(n_, (ast.Attribute, ast.Subscript)):
            return False
        while isinstance(n_, (ast.Attribute, ast.Subscript, ast.Call)):          # (locals are substituted: self.get_kvpair_element(...).x)
            n_ = n_.func if isinstance(n_, ast.Call) else n_.value
        return isinstance(n_, ast.Name) and n_.id in doc_names
    late = None
    for p_ in ps:
        first_ = next((i for i, e in enumerate(p_.events) if doc_store(e)), None)
        if first_ is None:
            continue
        refusal_after = (p_.outcome is not None and p_.outcome[0] == 'raise') or any(
            e[0] == 'lines' and any(isinstance(n_, ast.Raise) for n_ in ast.walk(e[2])) for e in p_.events[first_ + 1:])
        # (a store that the same path undoes before it raises -- the handler of the commit puts back what was taken: the target is
        # assigned the value that was read from it before the first store, `T = <T as saved>` with the saving local substituted away --
        # leaves nothing behind)
        def known_none(target):
            # the path has established that the target holds None (`<target> is not None` false / `<target> is None` true)
            return any((norm(t_) == '%s is not None' % target and not pol_) or (norm(t_) == '%s is None' % target and pol_) for t_, pol_ in p_.conds)
        left_behind = [e for i, e in enumerate(p_.events) if doc_store(e) and not (e[2] is not None and norm(e[2]) == e[1])
                       and not (isinstance(e[2], ast.Constant) and e[2].value is None and known_none(e[1])) and not any(
            e2[0] == 'store' and e2[1] == e[1] and e2[2] is not None and norm(e2[2]) == e[1] for e2 in p_.events[i + 1:])]
        if refusal_after and left_behind and late is None:
            late = left_behind[0]
    if late is None:
        rep.ok('C05.R4', f.site, 'a refused value leaves the paragraph as it was', 'no store into the paragraph or its existing field is followed by a refusal (%d paths)' % len(ps))
    else:
        rep.fail('C05.R4', f.site, 'a refused value leaves the paragraph as it was', 'the store `%s = %s` into an object of the document happens before the value has passed every '
                 'check: an assignment that is then refused with ValueError has already changed the paragraph (for the comment of the existing field: the comment lines are gone '
                 'from every later dump)' % (late[1], norm(late[2])[:60]), where='%s:%d' % (f.module.relpath, getattr(late[2], 'lineno', 0) or f.node.lineno))
    # the rejecting sides raise ValueError
    for p_ in ps:
        if p_.outcome[0] == 'raise' and p_.conds:
            t, pol = p_.conds[-1]
            tt = norm(t)
            if ('find_first_error_element' in tt or "[-1].startswith('#')" in tt) and 'ValueError' not in norm(p_.outcome[1]):
                res['syntax errors are rejected'] = False
    for what, ok in res.items():
        if ok is None:
            continue
        if ok:
            rep.ok('C05.R4', f.site, what, 'holds on all %d committing paths' % len(committing))
        else:
            rep.fail('C05.R4', f.site, what, 'the new field can be stored in the paragraph without this check (an invalid value corrupts the document instead of raising ValueError)%s'
                     % ((': ' + why[what]) if what in why else ''), where=f.where)
    # comment of a replaced field: handed over before the commit on the paths that keep the original comment
    ok = False
    for p_ in committing:
        idx = [i for i, e in enumerate(p_.events) if is_commit(e)][0]
        stores = [(e[1], norm(e[2])) for e in p_.events[:idx] if e[0] == 'store']
        if any(tgt.endswith('.comment_element') and val.endswith('.comment_element') and 'get_kvpair_element(item' in val.replace(' ', '') for tgt, val in stores):
            ok = True
    if ok:
        rep.ok('C05.R4', f.site, 'comment of a replaced field is handed over', 'value.comment_element = original.comment_element before the commit')
    else:
        rep.fail('C05.R4', f.site, 'comment of a replaced field is handed over', 'the comment lines of a replaced field are not moved to the new field', where=f.where)


def r4b_reparse_shapes(rep, src):
    """set_field_from_raw_string interpreted (sa.heap) with the parser replaced by a stub that answers with a file of a given shape: the
    field is committed only when the re-parsed file is one paragraph with one field and nothing else; a paragraph followed by a
    separator line (a value that ends in a blank line), two paragraphs, or two fields end in ValueError with nothing committed.  The
    stub file has the real layout (a LinkedList of parts), so the code may ask for its paragraphs or for all its parts."""
    from .. import heap as H
    from . import C10
    f = src.func(PM + ':Deb822ParagraphElement.set_field_from_raw_string')
    rep.saw_func(f)
    shapes = [('the field alone', 'P1', 'commit'), ('the field and a blank line after it', 'P1 W', 'ValueError'), ('two paragraphs', 'P1 W P1', 'ValueError'),
              ('one paragraph with two fields', 'P2', 'ValueError'), ('nothing but a blank line', 'W', 'ValueError')]
    for label, shape, want in shapes:
        log = []
        heap = C10.mk_heap(src, log)
        commits = []
        newkv = heap.alloc('KV', {'field_name': 'A', 'comment_element': None, 'parent_element': None}, name='@new_field')
        parts = []
        for i_, tok in enumerate(shape.split()):
            if tok == 'W':
                parts.append(heap.alloc('Deb822WhitespaceToken', {'text': ' \n', 'parent_element': None, 'is_whitespace': True, 'is_comment': False}))
            else:
                d = heap.new_dict()
                for k_ in range(int(tok[1:])):
                    heap.objs[d.name]['entries'].append((H.Key('f%d' % k_, 'F%d' % k_), newkv))
                parts.append(heap.alloc(C10.NOD, {'parent_element': None, '_kvpair_elements': d}, name='@reparsed_paragraph%d' % i_))
        lst, _nodes = H.build_list(heap, parts)
        reparsed = heap.alloc('Deb822FileElement', {'_token_and_elements': lst, 'parent_element': None}, name='@reparsed')
        target = heap.alloc(C10.NOD, {'parent_element': None, '_kvpair_elements': heap.new_dict()}, name='@target')
        heap.hooks.update({
            'parse_deb822_file': lambda it, a, k: reparsed,
            '.find_first_error_element': lambda it, a, k: None,
            '.get_kvpair_element': lambda it, a, k: None if a[0].name == '@target' else newkv,
            '.set_kvpair_element': lambda it, a, k, commits=commits: commits.append(a[2] if len(a) > 2 else None),
            '_unpack_key': lambda it, a, k: (a[0], None, None),
            'split_lines_keepends': lambda it, a, k: it.h.new_list([x + '\n' for x in str(a[0]).split('\n')[:-1]]),
        })
        what = 'the re-parse gives %s' % label
        try:
            H.Interp(heap).call(H.Closure(f.node, {}, target, f.cls), ['A', ' a\n'], {'preserve_original_field_comment': None, 'field_comment': None})
            out = 'commit' if commits else 'nothing committed, no error'
        except H.Raised as x:
            out = '%s' % x.exc
            out_line = x.lineno
        if out == want and (want != 'commit' or commits == [newkv]):
            rep.ok('C05.R4', f.site, what, 'the field is stored' if want == 'commit' else 'ValueError, nothing stored')
        elif want == 'commit':
            rep.fail('C05.R4', f.site, what, 'a well-formed new value is not stored (%s, line %s)' % (out, locals().get('out_line')), where=f.where)
        else:
            rep.fail('C05.R4', f.site, what, 'the first field of the re-parse is stored although the text is more than that field (%s): a value that ends in blank lines, or that reads '
                     'as further fields or paragraphs, is stored cut off without an error' % out, where=f.where)


def r4b_commit_is_atomic(rep, src):
    """the setters that replace a field take things from the EXISTING element (its comment) for the new one.  The commit --
    self.set_kvpair_element(key, new) -- still looks at the key and refuses some (a name token of another document in a paragraph with
    a repeated field): what was taken from the existing element before the commit is put back when the commit raises, or is taken
    after it.  Otherwise a refused assignment changes the document (the comment lines of the field disappear)."""
    from .. import normalize
    n = 0
    for q in ('Deb822ParagraphElement.set_field_from_raw_string', 'Deb822ParagraphElement.set_field_to_simple_value'):
        f = src.try_func(PM + ':' + q)
        if f is None:
            continue
        rep.saw_func(f)
        fnode, _inl = normalize.inline_helpers(f)
        existing = set()
        for st in ast.walk(fnode):
            if isinstance(st, ast.Assign) and len(st.targets) == 1 and isinstance(st.targets[0], ast.Name) and any(
                    isinstance(c, ast.Call) and isinstance(c.func, ast.Attribute) and norm(c.func.value) == 'self' and c.func.attr in ('get_kvpair_element', '__getitem__', 'get')
                    for c in ast.walk(st.value)):
                existing.add(st.targets[0].id)
        commits = [c for c in ast.walk(fnode) if isinstance(c, ast.Call) and isinstance(c.func, ast.Attribute) and norm(c.func.value) == 'self' and c.func.attr == 'set_kvpair_element']
        if not commits:
            continue          # (delegates to the other setter)
        n += 1
        takes = [t for st in ast.walk(fnode) if isinstance(st, (ast.Assign, ast.AugAssign, ast.Delete))
                 for t in (st.targets if isinstance(st, (ast.Assign, ast.Delete)) else [st.target])
                 if isinstance(t, ast.Attribute) and isinstance(t.value, ast.Name) and t.value.id in existing and t.lineno < min(c.lineno for c in commits)]
        what = 'what is taken from the existing field before the commit is put back when the commit refuses the key'
        if not takes:
            rep.ok('C05.R4', f.site, what, 'nothing is taken from the existing element before the commit')
            continue
        bad = None
        for t in takes:
            restored = False
            for tr in ast.walk(fnode):
                if isinstance(tr, ast.Try) and any(c in list(ast.walk(ast.Module(body=tr.body, type_ignores=[]))) for c in commits):
                    for h in tr.handlers:
                        puts = [x for x in ast.walk(ast.Module(body=h.body, type_ignores=[])) if isinstance(x, ast.Attribute) and isinstance(x.ctx, ast.Store) and norm(x) == norm(t)]
                        raises = any(isinstance(x, ast.Raise) for x in ast.walk(ast.Module(body=h.body, type_ignores=[])))
                        if puts and raises and (h.type is None or any(nm in norm(h.type) for nm in ('ValueError', 'Exception', 'BaseException'))):
                            restored = True
                    if tr.finalbody and any(isinstance(x, ast.Attribute) and isinstance(x.ctx, ast.Store) and norm(x) == norm(t) for x in ast.walk(ast.Module(body=tr.finalbody, type_ignores=[]))):
                        restored = True
            if not restored:
                bad = bad or (t, '`%s` is changed (line %d) before self.set_kvpair_element() has accepted the key, and is not put back when it raises: in a paragraph with a repeated '
                              'field, p.set_field_to_simple_value(<the name token of another parse>, value) raises ValueError and the comment lines in front of the field are gone '
                              'from the document' % (norm(t), t.lineno))
        if bad:
            rep.fail('C05.R4', f.site, what, bad[1], where='%s:%d' % (f.module.relpath, bad[0].lineno))
        else:
            rep.ok('C05.R4', f.site, what, '%s restored in the handler of the commit' % ', '.join(sorted({norm(t) for t in takes})))
    if n < 1:
        raise AnalysisError('%s: no setter that commits through self.set_kvpair_element' % PM)


def r5_setitem_routing(rep, src):
    """__setitem__ of the string wrapper, interpreted on the cases of the value
         A: F            B1: F \\n          B2: F \\n R \\n          B3: F \\n R'   (F newline-free, R' non-empty without final newline)
    for every combination of the two whitespace-mapping switches; the calls made on the paragraph are compared with
    the specification (single-line setter with the trimmed value iff there is no newline; otherwise the raw setter with
    ' ' + F.strip() + '\\n' + rest, completed by a final newline when allowed, ValueError when not)."""
    from .. import heap as H, symstr
    from ..symstr import SStr
    f = src.func(PM + ':Deb822ParagraphToStrWrapperMixin.__setitem__')
    rep.saw_func(f)
    F = symstr.atom('F', r'[^\n]*')
    R = symstr.atom('R', r'(?s:.*)')
    Rx = symstr.atom("R'", r'(?s:.*)[^\n]')
    CASES = ('F', 'F\\n', 'F\\nR\\n', "F\\nR'")
    item = H.Key('k', 'Key')

    def one(map_ws, map_nl, cname, F, R, Rx):
        """-> ('ok' | 'fail', message) for one case of the value"""
        value = {'F': F, 'F\\n': F + '\n', 'F\\nR\\n': F + '\n' + R + '\n', "F\\nR'": F + '\n' + Rx}[cname]
        calls = []

        def simple(it, args, kw, calls=calls):
            calls.append(('simple', args[1:], kw))

        def raw(it, args, kw, calls=calls):
            calls.append(('raw', args[1:], kw))
        heap = H.Heap(src.mod(PM), hooks={'.set_field_to_simple_value': simple, '.set_field_from_raw_string': raw})
        heap.symbolic_strings = True
        para = heap.alloc('Paragraph', {'has_duplicate_fields': False}, name='@paragraph')
        me = heap.alloc('Deb822ParagraphToStrWrapperMixin', {
            '_preserve_field_comments_on_field_updates': False, '_auto_resolve_ambiguous_fields': False,
            '_auto_map_initial_line_whitespace': map_ws, '_auto_map_final_newline_in_multiline_values': map_nl,
            '_paragraph': para}, name='@wrapper')
        it = H.Interp(heap)
        exc = None
        try:
            it.call(H.Closure(f.node, {}, me, f.cls), [item, value])
        except H.Raised as x:
            exc = x.exc
        # specification
        multiline = cname != 'F'
        ends = cname in ('F\\n', 'F\\nR\\n')
        if map_ws and not multiline:
            want = ('simple', F.strip())
        else:
            if map_ws:
                body = {'F\\n': SStr([' ', F.strip(), '\n']), 'F\\nR\\n': SStr([' ', F.strip(), '\n', R, '\n']), "F\\nR'": SStr([' ', F.strip(), '\n', Rx])}[cname]
            else:
                body = value
            if ends:
                want = ('raw', body)
            elif map_nl:
                want = ('raw', body + '\n')
            else:
                want = ('ValueError', None)
        if want[0] == 'ValueError':
            if exc == 'ValueError' and not calls:
                return ('ok', 'ValueError, nothing stored')
            else:
                return ('fail', 'a multi-line value without final newline must be refused with ValueError before anything is stored (got %s)'
                         % (exc or ['%s(%r)' % (c[0], c[1]) for c in calls]))
        if exc is not None:
            return ('fail', 'raises %s' % exc)
        if len(calls) != 1:
            return ('fail', 'the paragraph is updated %d times: %r' % (len(calls), [c[0] for c in calls]))
        kind, args, _kw = calls[0]
        got = args[1] if len(args) > 1 else None
        if kind != want[0] and kind == 'raw' and want[0] == 'simple' and isinstance(got, (SStr, str)) and symstr.lift(got).same(SStr([' ', want[1], '\n'])):
            # what the single-line setter would have built, handed to the raw setter directly
            return ('ok', 'raw(%r): the text the single-line setter builds' % (got,))
        elif kind != want[0]:
            return ('fail', ('the value is sent to the single-line setter although it contains a newline: its line structure is flattened'
                                             if kind == 'simple' else 'a value without newline is not sent to the single-line setter'))
        elif not (isinstance(args[0], H.Key) and args[0].cls == 'k'):
            return ('fail', 'the field name is not passed on')
        elif not isinstance(got, (SStr, str)) or not symstr.lift(got).same(want[1]):
            return ('fail', 'the paragraph receives %r; specified: %r (first line trimmed, continuation lines verbatim)' % (got, want[1]))
        else:
            return ('ok', '%s(%r)' % (kind, got))

    for map_ws in (True, False):
        for map_nl in (True, False):
            for cname in CASES:
                # the cases are refined where a decision of the code depends on the value (a first line that is blank, ...)
                subs = symstr.explore({'F': F.parts[0].lang, 'R': R.parts[0].lang, "R'": Rx.parts[0].lang},
                                      lambda cur, a_=map_ws, b_=map_nl, c_=cname: one(a_, b_, c_, cur['F'], cur['R'], cur["R'"]))
                for langs, (verdict, msg) in subs:
                    sub = '' if len(subs) == 1 else ' [%s]' % ', '.join('%s e.g. %r' % (n_, l_.witness()) for n_, l_ in sorted(langs.items()) if n_ in cname)
                    what = 'value %s%s, whitespace mapping %s, final-newline mapping %s' % (cname, sub, 'on' if map_ws else 'off', 'on' if map_nl else 'off')
                    if verdict == 'ok':
                        rep.ok('C05.R5', f.site, what, msg)
                    else:
                        rep.fail('C05.R5', f.site, what, msg, where=f.where)
    # an assignment is carried out whatever the field holds already: a field whose value has several lines and is assigned the text of
    # its FIRST line (with or without blanks around it), an empty first line assigned '', the value it has assigned again -- one call
    # on the paragraph each time, with the new value (decided texts; comment preservation on and off)
    for preserve in (False, True):
        for old_lines, new_value, label in (([' first\n', ' second\n'], 'first', 'a two-line value is assigned its first line'),
                                            (['\n', ' libc6,\n', ' libfoo\n'], '', 'a value that starts on the next line is assigned the empty text'),
                                            ([' first\n', ' second\n'], '  first ', 'a two-line value is assigned its first line with blanks around it'),
                                            ([' same\n'], 'same', 'a one-line value is assigned again')):
            calls = []

            def set_simple(it, args, kw, calls=calls):
                calls.append(('simple', args[1:], kw))

            def set_raw(it, args, kw, calls=calls):
                calls.append(('raw', args[1:], kw))

            def line_text(it, args, kw, old_lines=old_lines):
                if args and isinstance(args[0], H.Ref) and args[0].name.startswith('@old_line'):
                    return old_lines[int(args[0].name[len('@old_line'):])]
                if args and isinstance(args[0], H.Ref) and args[0].name == '@old_value':
                    return ''.join(old_lines)
                return NotImplemented

            def line_content(it, args, kw, old_lines=old_lines):
                if args and isinstance(args[0], H.Ref) and args[0].name.startswith('@old_line'):
                    return old_lines[int(args[0].name[len('@old_line'):])].rstrip('\n')
                return NotImplemented
            heap = H.Heap(src.mod(PM), hooks={'.set_field_to_simple_value': set_simple, '.set_field_from_raw_string': set_raw, '.get_kvpair_element': lambda it, args, kw: it.h.kv,
                                              '.convert_to_text': line_text, '.convert_content_to_text': line_content, '.dump': line_text})
            lines_ = [heap.alloc('Deb822ValueLineElement', {}, name='@old_line%d' % k_) for k_ in range(len(old_lines))]
            ve_ = heap.alloc('Deb822ValueElement', {'value_lines': heap.new_list(lines_), _VE_LIST(src): heap.new_list(lines_)}, name='@old_value')
            heap.kv = heap.alloc('Deb822KeyValuePairElement', {'comment_element': None, '_comment_element': None, 'value_element': ve_, '_value_element': ve_}, name='@old_field')
            para = heap.alloc('Paragraph', {'has_duplicate_fields': False}, name='@paragraph')
            me = heap.alloc('Deb822ParagraphToStrWrapperMixin', {
                '_preserve_field_comments_on_field_updates': preserve, '_auto_resolve_ambiguous_fields': True,
                '_auto_map_initial_line_whitespace': True, '_auto_map_final_newline_in_multiline_values': True, '_paragraph': para}, name='@wrapper')
            what = '%s (comment preservation %s): the paragraph is updated' % (label, 'on' if preserve else 'off')
            try:
                H.Interp(heap).call(H.Closure(f.node, {}, me, f.cls), [item, new_value])
            except H.Raised as x:
                rep.fail('C05.R5', f.site, what, 'raises %s (line %d)' % (x.exc, x.lineno), where=f.where)
                continue
            vals_ = [(c_[0], c_[1][1].concrete() if len(c_[1]) > 1 and hasattr(c_[1][1], 'concrete') else (c_[1][1] if len(c_[1]) > 1 else None)) for c_ in calls]
            wanted = [('simple', new_value.strip()), ('raw', ' ' + new_value.strip() + '\n')]
            if len(old_lines) > 1 and not calls:
                rep.fail('C05.R5', f.site, what, 'the field holds %r and is assigned %r: nothing is handed to the paragraph -- the assignment is dropped and the field keeps its old lines' % (
                    ''.join(old_lines), new_value), where=f.where)
            elif calls and (len(calls) != 1 or vals_[0] not in wanted):
                rep.fail('C05.R5', f.site, what, 'the field holds %r and is assigned %r: the paragraph receives %r' % (''.join(old_lines), new_value, vals_), where=f.where)
            else:
                rep.ok('C05.R5', f.site, what, 'one update with the new value' if calls else 'the field already reads like this: left as it is')
    # a replaced field keeps its comment: with comment preservation on (and ambiguous fields auto-resolved) the comment
    # element of the old field is handed to the setter as the object itself, not re-rendered from text
    def kept(cname, old_line, F, R):
        value = F if cname == 'F' else F + '\n' + R + '\n'
        calls = []

        def simple3(it, args, kw, calls=calls):
            calls.append(('simple', args[1:], kw))

        def raw3(it, args, kw, calls=calls):
            calls.append(('raw', args[1:], kw))
        touched = []

        def read_comment(it, args, kw, touched=touched, old_line=old_line):
            if args and args[0] == it.h.comment:
                touched.append(True)
                raise H.Raised('comment-content-read', it.h.version, 0)
            if args and isinstance(args[0], H.Ref) and args[0].name == '@old_line0':
                return old_line             # the text of the old field's first line after the colon
            return NotImplemented
        heap = H.Heap(src.mod(PM), hooks={'.set_field_to_simple_value': simple3, '.set_field_from_raw_string': raw3,
                                          '.get_kvpair_element': lambda it, args, kw: it.h.kv,
                                          '.convert_to_text': read_comment, '.iter_tokens': read_comment, '.iter_parts': read_comment, '.dump': read_comment,
                                          '.convert_content_to_text': lambda it, args, kw, old_line=old_line: old_line.rstrip('\n') if args and isinstance(args[0], H.Ref)
                                          and args[0].name == '@old_line0' else NotImplemented})
        heap.symbolic_strings = True
        comment = heap.alloc('Deb822CommentElement', {}, name='@comment')
        heap.comment = comment
        # (the old field is complete: its value element with the line after the colon -- a value, nothing, or blanks only)
        line0 = heap.alloc('Deb822ValueLineElement', {}, name='@old_line0')
        ve_ = heap.alloc('Deb822ValueElement', {'value_lines': heap.new_list([line0]), _VE_LIST(src): heap.new_list([line0])}, name='@old_value')
        heap.kv = heap.alloc('Deb822KeyValuePairElement', {'comment_element': comment, '_comment_element': comment, 'value_element': ve_, '_value_element': ve_}, name='@old_field')
        para = heap.alloc('Paragraph', {'has_duplicate_fields': False}, name='@paragraph')
        me = heap.alloc('Deb822ParagraphToStrWrapperMixin', {
            '_preserve_field_comments_on_field_updates': True, '_auto_resolve_ambiguous_fields': True,
            '_auto_map_initial_line_whitespace': True, '_auto_map_final_newline_in_multiline_values': True, '_paragraph': para}, name='@wrapper')
        it = H.Interp(heap)
        try:
            it.call(H.Closure(f.node, {}, me, f.cls), [item, value])
        except H.Raised as x:
            if touched:
                return ('fail', 'the comment of the replaced field is converted to text and re-rendered instead of being handed over as the '
                         'element itself: its exact bytes (e.g. trailing blanks of a comment line) are not preserved')
            else:
                return ('fail', 'raises %s' % x.exc)
        # the value that is handed over is the one the caller assigned, routed as without comments -- whatever the old field looked like
        want3 = ('simple', F.strip()) if cname == 'F' else ('raw', SStr([' ', F.strip(), '\n', R, '\n']))
        got3 = calls[0][1][1] if len(calls) == 1 and len(calls[0][1]) > 1 else None
        def as_raw(kind_, v_):
            # the single-line setter stores ' ' + value + '\n' through the raw setter (decided below): one canonical form
            return SStr([' ', v_, '\n']) if kind_ == 'simple' and isinstance(v_, (SStr, str)) else v_
        if len(calls) == 1 and (not isinstance(got3, (SStr, str)) or not symstr.lift(as_raw(calls[0][0], got3)).same(as_raw(*want3))):
            return ('fail', 'replacing a field whose line after the colon reads %r hands %s(%r) to the paragraph; specified: %s(%r) -- the new value depends on the '
                     'layout of the old field (a field line without value makes the new value start with a line break)' % (old_line, calls[0][0], got3, want3[0], want3[1]))
        elif len(calls) == 1 and calls[0][2].get('field_comment') == comment and calls[0][2].get('preserve_original_field_comment') in (None, False):
            return ('ok', 'field_comment is the old field\'s comment element itself')
        elif len(calls) == 1 and calls[0][2].get('preserve_original_field_comment') is True and calls[0][2].get('field_comment') is None:
            return ('ok', 'the setter is asked to preserve the original comment')
        else:
            return ('fail', 'the comment lines of the replaced field are not handed over unchanged (the setter receives field_comment=%r): '
                     'a comment that is re-rendered from text loses its exact bytes' % (calls[0][2].get('field_comment') if calls else None,))

    for cname, old_line in (('F', ' old\n'), ('F\\nR\\n', ' old\n'), ('F', '\n'), ('F', '   \n')):
        subs = symstr.explore({'F': F.parts[0].lang, 'R': R.parts[0].lang}, lambda cur, c_=cname, o_=old_line: kept(c_, o_, cur['F'], cur['R']))
        for langs, (verdict, msg) in subs:
            sub = '' if len(subs) == 1 else ' [%s]' % ', '.join('%s e.g. %r' % (n_, l_.witness()) for n_, l_ in sorted(langs.items()) if n_ in cname)
            what = 'value %s%s: the comment of the replaced field is kept (old field line %r)' % (cname, sub, old_line)
            if verdict == 'ok':
                rep.ok('C05.R5', f.site, what, msg)
            else:
                rep.fail('C05.R5', f.site, what, msg, where=f.where)
    # the single-line setter: newline refused, ' ' + value + '\n' handed to the raw setter
    s = src.func(PM + ':Deb822ParagraphElement.set_field_to_simple_value')
    rep.saw_func(s)
    # (a test of the value that the case does not decide splits the case: every sub-case is judged)
    for cname, aname, lang in (('V (no newline)', 'V', r'[^\n]*'), ('W (contains a newline)', 'W', r'(?s:.*)\n(?s:.*)')):
        def body(cur, aname=aname):
            calls = []

            def raw2(it, args, kw, calls=calls):
                calls.append(args[1:])
            heap = H.Heap(src.mod(PM), hooks={'.set_field_from_raw_string': raw2})
            heap.symbolic_strings = True
            para = heap.alloc('Deb822ParagraphElement', {}, name='@paragraph')
            it = H.Interp(heap)
            exc = None
            try:
                it.call(H.Closure(s.node, {}, para, s.cls), [item, cur[aname]], {'preserve_original_field_comment': None, 'field_comment': None})
            except H.Raised as x:
                exc = x.exc
            return exc, calls, cur[aname]
        what = 'simple value %s' % cname
        bad = None
        ncases = 0
        for langs, (exc, calls, value) in symstr.explore({aname: lang}, body):
            ncases += 1
            wit = langs[aname].witness()
            if cname.startswith('W'):
                if not (exc == 'ValueError' and not calls):
                    bad = bad or 'a value with a newline (e.g. %r) is not refused by the single-line setter' % (wit,)
            elif not (exc is None and len(calls) == 1 and len(calls[0]) > 1 and isinstance(calls[0][1], (SStr, str))
                      and symstr.lift(calls[0][1]).same(SStr([' ', value.strip(), '\n']))):
                bad = bad or 'for a value without a newline (e.g. %r) set_field_to_simple_value does not build " " + value + "\\n" (got %s)' % (wit, exc or calls)
        if bad:
            rep.fail('C05.R5', s.site, what, bad, where=s.where)
        elif cname.startswith('W'):
            rep.ok('C05.R5', s.site, what, 'ValueError (%d case(s))' % ncases)
        else:
            rep.ok('C05.R5', s.site, what, "raw value ' ' + V.strip() + '\\n' (%d case(s))" % ncases)


def r6_delitem_routing(rep, src):
    """deleting through the dict interface removes the field the caller named -- every occurrence of a plain name (the listed
    side effect is the only one): on every path __delitem__ hands its key to remove_kvpair_element unchanged"""
    m = src.mod(PM)
    n = 0
    for q, fn in sorted(m.funcs.items()):
        if not q.endswith('.__delitem__') or fn.cls is None:
            continue
        rep.saw_func(fn)
        keyp = fn.params()[1]
        node, _ = normalize.inline_helpers(fn, depth=2)
        ps = [p_ for p_ in paths.function_paths(node) if p_.outcome[0] != 'raise']
        calls = []
        for p_ in ps:
            for ev in p_.events:
                if ev[0] == 'effect':
                    for c in ast.walk(ev[1]):
                        if isinstance(c, ast.Call) and isinstance(c.func, ast.Attribute) and c.func.attr == 'remove_kvpair_element' and c.args:
                            calls.append((p_, c))
        if not calls:
            continue
        n += 1
        bad = [(p_, c) for p_, c in calls if norm(c.args[0]) != keyp]
        what = 'the key is handed to remove_kvpair_element unchanged'
        if bad:
            rep.fail('C05.R6', fn.site, what, 'on the path [%s] the field removed is %s, not the given key `%s`: `del paragraph[name]` on a repeated field leaves '
                     'occurrences behind (the field is still in the mapping, the dump and a re-parse)' % (bad[0][0].describe()[:100], norm(bad[0][1].args[0])[:50], keyp),
                     where=fn.where)
        else:
            rep.ok('C05.R6', fn.site, what, '%d path(s)' % len(calls))
    if n == 0:
        raise AnalysisError('no __delitem__ that removes through remove_kvpair_element found')


def r8_field_names(rep, src):
    """every field name Policy 5.1 allows -- US-ASCII U+0021..U+007E without the colon, not starting with '#' or '-' -- is a field
    name for the parser: "<name>: v" is matched by the field-line regex with exactly that name (else the field can be neither parsed
    nor set through the dictionary interface)"""
    r = src.regex('_deb822_repro.tokens', '_RE_FIELD_LINE')
    rep.saw_regex('_deb822_repro.tokens:_RE_FIELD_LINE')
    alpha = rx.alphabet('str')
    POLICY = r'[\x21\x22\x24-\x2C\x2E-\x39\x3B-\x7E][\x21-\x39\x3B-\x7E]*'
    markers = [('open', 'field_name'), ('close', 'field_name')]
    tm = rx.regex_lang('(?P<field_name>%s): v' % POLICY, 0, 'fullmatch', ['field_name'], markers, alpha)
    te = rx.erase_markers(tm)
    w1, w2 = rx.agreement(r['pattern'], r['flags'], 'match', tm, te, ['field_name'], alpha=alpha)
    site = '_deb822_repro.tokens:_RE_FIELD_LINE'
    if w1 is None and w2 is None:
        rep.ok('C05.R8', site, 'every Policy field name is a field name', 'all names over U+0021..U+007E without ":" that do not start with "#" or "-" are captured as written')
    else:
        w = w1 if w1 is not None else w2
        rep.fail('C05.R8', site, 'every Policy field name is a field name', 'the line %r with a field name that Policy 5.1 allows is %s: such a field is a syntax error for the '
                 'parser and cannot be added through the dictionary interface' % (w, 'not matched as a field' if w1 is not None else 'matched with another name'), detail={'witness': w})


def r9_edits_end_to_end(rep, src, tier):
    """the statement on whole documents: a document is parsed by the interpreted parser (sa.heap, the whole pipeline), fields are set,
    added and deleted through the interpreted dict interface of its paragraphs, and the text of the document is compared after EVERY step
    with a model of the text kept here -- the document as a list of comment lines, field lines and separators, on which an assignment
    rewrites the lines of that field only (its comment lines stay, the name keeps its spelling), a new field goes to the end of its
    paragraph on lines of its own (a missing line end of the document supplied first) and a deletion removes the lines of the field with
    its comment.  At the end the text is parsed again (interpreted) and every field shows the value of the model."""
    import itertools
    from .. import heap as H
    mod = src.mod(PM)
    f = src.func(PM + ':parse_deb822_file')
    rep.saw_func(f)

    def world():
        heap = H.Heap(mod, extra_modules=[src.mod('_deb822_repro.tokens'), src.mod('_deb822_repro._util'), src.mod('_util'), src.mod('_deb822_repro.formatter')],
                      hooks={'sys.intern': lambda it, a, k: a[0], '_strI': lambda it, a, k: H.Key(a[0].lower(), a[0]) if isinstance(a[0], str) else a[0]})
        heap.native_regex = True
        return heap, H.Interp(heap)

    def text_of(it, heap, doc):
        m_ = mod.method(heap.objs[doc.name]['__class__'], 'convert_to_text')
        t_ = it.call(H.Closure(m_.node, {}, doc, m_.cls), [])
        return t_.concrete() if hasattr(t_, 'concrete') else t_
    # a document of the model: paragraphs of [comment text, name, text after the colon], separated by the given texts
    DOCS = {
        'comments, a value over several lines, two paragraphs': ([[['# about the source\n', 'Source', ' hello\n'], ['', 'Section', '   misc  \n'], ['# the list\n# continues\n', 'Depends', ' a,\n# inside\n b\n'],
                                                                   ['', 'Empty', '\n']], [['', 'Package', ' p\n'], ['', 'Description', ' short\n long\n .\n end\n']]], ['\n']),
        'no line end at the end of the document': ([[['', 'A', ' b\n'], ['', 'C', ' d']]], []),
        'a free comment between the paragraphs, tabs': ([[['', 'Key', '\tv\n'], ['', 'other-key', ' w\n']], [['', 'Z', ' z\n']]], ['\n# free\n\n']),
    }

    def render(paras, seps):
        out = ''
        for i, p_ in enumerate(paras):
            out += ''.join(c_ + n_ + ':' + r_ for c_, n_, r_ in p_)
            if i < len(seps):
                out += seps[i]
        return out

    def fmt(value):
        # the text after the colon for an assigned value: a blank, the value, and the line end it lacks
        return ' ' + value + ('' if value.endswith('\n') else '\n')
    OPS = [('set', 'Section', 'devel'), ('set', 'section', 'x y'), ('set', 'Depends', 'one,\n two'), ('set', 'New', 'val'), ('set', 'New-Multi', 'first\n second\n third'),
           ('del', 'Depends', None), ('del', 'Source', None), ('set', 'A', 'x'), ('set', 'C', 'e'), ('del', 'C', None), ('set', 'Key', 'k'), ('del', 'other-key', None),
           ('set', 'Source', 'one\n two'), ('del', 'Empty', None), ('set', 'Empty', 'now')]
    n, bad = 0, None
    for dname, (paras0, seps) in DOCS.items():
        names0 = {x_[1].lower() for x_ in paras0[0]}
        ops = [o_ for o_ in OPS if o_[1].lower() in names0 or o_[1].startswith('New')]
        pairs = [list(h_) for h_ in itertools.permutations(ops, 2)]
        hists = [[o_] for o_ in ops] + (pairs if tier == 'thorough' else pairs[3::47])
        for hist in hists:
            paras = [[list(x_) for x_ in p_] for p_ in paras0]
            heap, it = world()
            text0 = render(paras, seps)
            n += 1
            try:
                doc = it.call(H.Closure(f.node, {}, None, None), [heap.new_list(text0.splitlines(True))], {})
                env = {'doc': doc}
                it.exec(ast.parse('p = next(iter(doc))').body[0], env, None)
            except H.Raised as x:
                raise AnalysisError('%s: the model document %r is refused by the interpreted parser (%s)' % (f.site, text0, x.exc))
            done = []
            for kind, name, value in hist:
                p0 = paras[0]
                idx = next((i_ for i_, x_ in enumerate(p0) if x_[1].lower() == name.lower()), None)
                if kind == 'del' and idx is None:
                    continue          # (a field that an earlier step deleted)
                if kind == 'set' and idx is not None:
                    p0[idx][2] = fmt(value)
                elif kind == 'set':
                    if p0 and not p0[-1][2].endswith('\n'):
                        p0[-1][2] += '\n'
                    p0.append(['', name, fmt(value)])
                else:
                    del p0[idx]
                done.append('p[%r] = %r' % (name, value) if kind == 'set' else 'del p[%r]' % name)
                env['#k'], env['#v'] = name, value
                code = "p[k] = v" if kind == 'set' else "del p[k]"
                try:
                    it.exec(ast.parse(code.replace('k', '_k_').replace('v', '_v_')).body[0], dict(env, _k_=name, _v_=value, p=env['p']), None)
                    got = text_of(it, heap, doc)
                except H.Raised as x:
                    got = 'raises %s (line %d)' % (x.exc, x.lineno)
                want = render(paras, seps)
                if got != want:
                    bad = bad or 'the document %r (%s), after %s: %s; only the lines of that field may differ from before: %r' % (
                        text0, dname, '; '.join(done), got if got.startswith('raises') else 'the text is %r' % got, want)
                    break
            else:
                # the text read again: every field of the first paragraph shows the value of the model
                heap2, it2 = world()
                try:
                    doc2 = it2.call(H.Closure(f.node, {}, None, None), [heap2.new_list(render(paras, seps).splitlines(True))], {})
                    env2 = {'doc': doc2}
                    it2.exec(ast.parse('p = next(iter(doc))').body[0], env2, None)
                    for c_, n_, r_ in paras[0]:
                        v_ = it2.ev(ast.parse('p[k]', mode='eval').body, dict(env2, k=n_.swapcase()), None)
                        v_ = v_.concrete() if hasattr(v_, 'concrete') else v_
                        plain = ''.join(l_ for l_ in r_.splitlines(True) if not l_.startswith('#')).strip()
                        if not isinstance(v_, str) or v_.strip() != plain and bad is None:
                            bad = bad or 'the document %r after %s, read again: p[%r] is %r; the text of the field is %r' % (text0, '; '.join(done), n_.swapcase(), v_, plain)
                except H.Raised as x:
                    if paras[0]:
                        bad = bad or 'the document %r after %s cannot be read again: %s' % (text0, '; '.join(done), x.exc)
    rep.analysed['paths'] += n
    what = 'set / add / delete on a parsed document change the lines of that field only, and the result reads back (interpreted documents and histories)'
    if bad:
        rep.fail('C05.R9', f.site, what, bad, where=f.where)
    else:
        rep.ok('C05.R9', f.site, what, '%d histories on %d documents' % (n, len(DOCS)))


def check(src, rep, tier):
    rep.explanation = ('C05: set/remove of both paragraph classes are interpreted on symbolic heaps (shared with C10): a new key calls the '
                       'final-newline helper before the first mutation and is appended last, an existing key is replaced in place without the '
                       'helper, removal unlinks exactly the addressed occurrences.  The helper itself is interpreted on a paragraph whose last '
                       'field is unterminated: only the last line of the last field may change.  The routing predicate of __setitem__ is turned '
                       'into a regular language and must equal "no newline".  CFG: the line checks, the re-parse and the error test dominate the '
                       'commit in set_field_from_raw_string; AST: lookups use unpacked keys, original spelling kept.')
    rep.not_decided = ['byte identity of the untouched parts as such (C01 conservation + no rewriting of tokens)', 'value read-back equality for arbitrary layouts']
    rep.need('C05.R1', 12)
    rep.need('C05.R2', 8)
    rep.need('C05.R3', 15)
    rep.need('C05.R4', 6)
    rep.need('C05.R5', 5)
    rep.guard('C05.R1', r1_r2_set_remove, src)
    rep.guard('C05.R1', r1b_helper, src)
    rep.guard('C05.R3', r3_keys, src)
    rep.guard('C05.R4', r4_validate_before_commit, src)
    rep.guard('C05.R4', r4b_commit_is_atomic, src)
    rep.guard('C05.R4', r4b_reparse_shapes, src)
    rep.guard('C05.R5', r5_setitem_routing, src)
    rep.guard('C05.R6', r6_delitem_routing, src)
    rep.need('C05.R9', 1)
    rep.guard('C05.R9', r9_edits_end_to_end, src, tier)
    rep.need('C05.R8', 1)
    rep.guard('C05.R8', r8_field_names, src)
    rep.need('C05.R7', 1)
    rep.guard('C05.R7', common.check_line_primitive, src, 'C05.R7', ['_deb822_repro.parsing:Deb822ParagraphElement.set_field_from_raw_string'],
              'a new value that contains such a character inside a line is refused (its "line" has no trailing newline) although the parser reads it')

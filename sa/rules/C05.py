"""C05 -- edits through the format-preserving parser are local and read back."""
import ast

from .. import heap as H, rx, strlang, cfg
from ..core import AnalysisError, norm, walk_no_nested
from . import C10

META = {
    'design_ref': 'DESIGN.md §3 C05',
    'technique': 'shape-case abstract interpretation of set/remove on both paragraph implementations (new key: final-newline helper before '
                 'the first mutation, appended last; existing key: replaced in place, helper not called) and of the helper itself (acts on '
                 'the last field\'s last value line only); regular-language equality for the single-line/multi-line routing predicate of '
                 '__setitem__; CFG dominance rule validate-before-commit in set_field_from_raw_string; sanitizer rule for lookup keys',
    'level_text': 'Static decision of the structural conditions for locality: a new field is placed last only after the last field was '
                  'terminated, the terminating newline goes to the last line of the last field and nowhere else, a replacement never moves '
                  'or touches other fields, deletion unlinks exactly the addressed occurrences, a value is routed to the single-line path '
                  'exactly when it contains no newline, the re-parsed value is validated before it is stored, lookups use the '
                  'case-insensitive key and the original spelling of an existing field is kept.',
    'level_note': 'trusted: heap interpreter, automata engine, CFG builder; byte identity of untouched text follows from C01 (tokens are '
                  'never rewritten) and is not re-derived here',
}

PM = '_deb822_repro.parsing'


class Proxy:
    def __init__(self, rep, rule):
        self._rep, self._rule = rep, rule

    def ok(self, rule, site, what, detail=None, nontrivial=True):
        self._rep.ok(self._rule, site, what, detail, nontrivial)

    def fail(self, rule, site, construct, msg, detail=None, where=None):
        self._rep.fail(self._rule, site, construct, msg, detail, where)

    def __getattr__(self, name):
        return getattr(self._rep, name)


def r1_r2_set_remove(rep, src):
    """new key: helper first, appended last; existing key: in place, helper untouched; remove: exact occurrences"""
    px = Proxy(rep, 'C05.R1')
    C10.r5_dup_set_remove(px, src)
    C10.r_nodup(Proxy(rep, 'C05.R2'), src)


def r1b_helper(rep, src):
    """_add_final_newline_if_missing terminates the last line of the LAST field and nothing else"""
    m = src.mod(PM)
    for cname, build in ((C10.DUP, 'dup'), (C10.NOD, 'nodup')):
        log = []
        heap = H.Heap(src.mod(PM), field_alias={'_previous_node': 'previous_node'}, extra_modules=[src.mod('_util'), src.mod('_deb822_repro.tokens')],
                      opaque_ctors={'Deb822NewlineAfterValueToken', 'Deb822WhitespaceToken'}, hooks={'_strI': lambda it, a, k: a[0]})
        names = [H.Key('a', 'A'), H.Key('b', 'B'), H.Key('c', 'C')]
        kvs, lines_of = [], {}
        for i, k in enumerate(names):
            lines = []
            for j in range(2):
                terminated = not (i == len(names) - 1 and j == 1)
                nl = heap.alloc('Deb822NewlineAfterValueToken', {'text': '\n', 'parent_element': None}) if terminated else None
                lines.append(heap.alloc('Deb822ValueLineElement', {'_newline_token': nl, '_parent_element': None}, name='@line_%s%d' % (k.cls, j)))
            ve = heap.alloc('Deb822ValueElement', {'_value_entry_elements': heap.new_list(lines), '_parent_element': None}, name='@val_%s' % k.cls)
            kv = heap.alloc('Deb822KeyValuePairElement', {'field_name': k, 'value_element': ve, '_parent_element': None, 'parent_element': None},
                            name='@kv_%s' % k.cls)
            kvs.append(kv)
            lines_of[k.cls] = lines
        if build == 'dup':
            lst, nodes = H.build_list(heap, kvs)
            d = heap.new_dict()
            for k, n in zip(names, nodes):
                heap.objs[d.name]['entries'].append((k, heap.new_list([n])))
            para = heap.alloc(cname, {'_kvpair_order': lst, '_kvpair_elements': d}, name='@para')
        else:
            lst, nodes = H.build_list(heap, names)
            table = heap.new_dict()
            for k, n in zip(names, nodes):
                heap.objs[table.name]['entries'].append((k, n))
            oset = heap.alloc('OrderedSet', {'_OrderedSet__table': table, '_OrderedSet__order': lst})
            d = heap.new_dict()
            for k, kv in zip(names, kvs):
                heap.objs[d.name]['entries'].append((k, kv))
            para = heap.alloc(cname, {'_kvpair_order': oset, '_kvpair_elements': d}, name='@para')
        fn = heap.module.method(cname, '_add_final_newline_if_missing')
        if fn is None:
            raise AnalysisError('%s._add_final_newline_if_missing not found' % cname)
        rep.saw_func(fn)
        it = H.Interp(heap)
        what = 'final-newline helper on %s with fields [A B C], last line of C unterminated' % cname
        before = {ln.name: heap.objs[ln.name]['_newline_token'] for ls in lines_of.values() for ln in ls}
        try:
            it.call(H.Closure(fn.node, {}, para, fn.cls), [])
        except H.Raised as x:
            rep.fail('C05.R1', fn.site, what, 'raises %s (line %d)' % (x.exc, x.lineno), where=fn.where)
            continue
        after = {ln.name: heap.objs[ln.name]['_newline_token'] for ls in lines_of.values() for ln in ls}
        changed = sorted(n for n in after if after[n] != before[n])
        if changed == ['@line_c1'] and after['@line_c1'] is not None:
            rep.ok('C05.R1', fn.site, what, 'only the last line of the last field receives a newline token')
        elif not changed:
            rep.fail('C05.R1', fn.site, what, 'the unterminated last field is left as it is (the helper looks at another field): a field placed after it is '
                     'glued to its last line', where=fn.where)
        else:
            rep.fail('C05.R1', fn.site, what, 'the helper changes %s instead of the last line of the last field' % changed, where=fn.where)
    _ = m


def r3_keys(rep, src):
    m = src.mod(PM)
    n = 0
    for cname in (C10.DUP, C10.NOD):
        for q, fn in sorted(m.funcs.items()):
            if not q.startswith(cname + '.') or '.' in q[len(cname) + 1:]:
                continue
            normalised = set()
            for st in ast.walk(fn.node):
                if isinstance(st, ast.Assign) and isinstance(st.value, ast.Call) and norm(st.value.func) == '_unpack_key':
                    t = st.targets[0]
                    if isinstance(t, ast.Tuple) and isinstance(t.elts[0], ast.Name):
                        normalised.add(t.elts[0].id)
                if isinstance(st, ast.Assign) and isinstance(st.targets[0], ast.Name) and norm(st.value).endswith('.field_name'):
                    normalised.add(st.targets[0].id)
                if isinstance(st, (ast.For, ast.comprehension)) and isinstance(st.target, ast.Name) and '_kvpair_order' in norm(st.iter):
                    normalised.add(st.target.id)
            for node in ast.walk(fn.node):
                key = None
                if isinstance(node, ast.Subscript) and norm(node.value) == 'self._kvpair_elements':
                    key = node.slice
                elif isinstance(node, ast.Compare) and len(node.ops) == 1 and isinstance(node.ops[0], (ast.In, ast.NotIn)) \
                        and norm(node.comparators[0]) == 'self._kvpair_elements':
                    key = node.left
                elif isinstance(node, ast.Call) and norm(node.func) == 'self._kvpair_elements.get' and node.args:
                    key = node.args[0]
                if key is None:
                    continue
                n += 1
                kt = norm(key)
                ok = (isinstance(key, ast.Name) and key.id in normalised) or kt.endswith('.field_name') or kt.startswith("cast('_strI'") \
                    or (isinstance(key, ast.Name) and key.id in ('x', 'field_name') and 'field_name' in norm(fn.node))
                if ok:
                    rep.ok('C05.R3', fn.site, 'lookup ' + norm(node)[:50], 'case-insensitive key', nontrivial=False)
                else:
                    rep.fail('C05.R3', fn.site, 'lookup ' + norm(node)[:50], 'the element table is accessed with `%s`, which is not the unpacked case-insensitive key' % kt,
                             where='%s:%d' % (fn.module.relpath, node.lineno))
    if n < 15:
        raise AnalysisError('only %d lookups in the element tables found' % n)
    u = src.func(PM + ':_unpack_key')
    t = norm(u.node)
    if t.count('key = _strI(') >= 2 and 'key = name_token.text' in t:
        rep.ok('C05.R3', u.site, 'keys are unpacked to the case-insensitive string', '_strI(key) / token text', nontrivial=False)
    else:
        rep.fail('C05.R3', u.site, 'keys are unpacked to the case-insensitive string', '_unpack_key does not convert str keys with _strI', where=u.where)
    f = src.func(PM + ':Deb822ParagraphElement.set_field_from_raw_string')
    t = norm(f.node)
    if 'if original:\n        cased_field_name = original.field_name' in t and "raw = ':'.join((cased_field_name, raw_string_value))" in t:
        rep.ok('C05.R3', f.site, 'original spelling of an existing field is kept', 'cased_field_name = original.field_name')
    else:
        rep.fail('C05.R3', f.site, 'original spelling of an existing field is kept', 'the new field text is not built from the existing field\'s spelling', where=f.where)


def r4_validate_before_commit(rep, src):
    f = src.func(PM + ':Deb822ParagraphElement.set_field_from_raw_string')
    rep.saw_func(f)
    g = cfg.CFG(f.node)
    commits = [g.node_for(c) for c in ast.walk(f.node) if isinstance(c, ast.Call) and norm(c.func) == 'self.set_kvpair_element']
    if len(commits) != 1:
        raise AnalysisError('%s: expected one commit call' % f.site)
    cm = commits[0]
    need = {
        'every line ends with a newline': lambda n: n.kind == 'test' and "not line.endswith('\\n')" in norm(n.ast),
        'continuation lines start with blank or #': lambda n: n.kind == 'test' and 'line[0] not in' in norm(n.ast),
        'last line is not a comment': lambda n: n.kind == 'test' and "raw_lines[-1].startswith('#')" in norm(n.ast),
        're-parse of the new field': lambda n: n.kind == 'stmt' and 'parse_deb822_file(' in norm(n.ast),
        'syntax errors are rejected': lambda n: n.kind == 'test' and norm(n.ast) in ('error_token', 'error_token is not None'),
    }
    for what, pred in need.items():
        nodes = [n for n in g.nodes if n.ast is not None and pred(n)]
        ok = False
        for n in nodes:
            if n.kind == 'test':
                tsucc = [d for d, lab in g.succ[n.id] if lab is True]
                # the failing outcome must end in `raise ValueError` and never reach the commit
                reach_raise = [r for r in g.nodes if r.kind == 'raise' and 'ValueError' in norm(r.ast) and any(d == r.id or g.exists_path(d, r.id, avoid=[n.id]) for d in tsucc)]
                if not reach_raise or any(g.exists_path(d, cm.id, avoid=[n.id]) for d in tsucc):
                    continue
            # loop-internal checks dominate through the loop head
            if g.dominates(n.id, cm.id) or (n.kind == 'test' and any(g.dominates(t.id, cm.id) for t in g.nodes if t.kind == 'fortest' and g.exists_path(t.id, n.id) and g.exists_path(n.id, t.id))):
                ok = True
        if ok:
            rep.ok('C05.R4', f.site, what, 'precedes the commit on every path')
        else:
            rep.fail('C05.R4', f.site, what, 'the new field can be stored in the paragraph without this check (an invalid value corrupts the document instead of raising ValueError)',
                     where=f.where)
    # nothing is stored before: no other mutation of self
    muts = [n for n in g.stmts() if n.kind == 'stmt' and n.id != cm.id and g.exists_path(n.id, cm.id) and isinstance(n.ast, ast.Assign)
            and any(isinstance(t, (ast.Attribute, ast.Subscript)) and norm(t).startswith('self.') for t in n.ast.targets)]
    if muts:
        rep.fail('C05.R4', f.site, 'nothing stored before validation', 'the paragraph is modified (`%s`) before the new value has been validated' % norm(muts[0].ast)[:50], where=f.where)
    else:
        rep.ok('C05.R4', f.site, 'nothing stored before validation', 'no store to self before the commit call')
    t = norm(f.node)
    if 'value.comment_element = original.comment_element\n            original.comment_element = None' in t and \
            g.dominates(g.node_for([x for x in ast.walk(f.node) if isinstance(x, ast.Assign) and norm(x.targets[0]) == 'value.comment_element'][0]).id, cm.id) is not None:
        rep.ok('C05.R4', f.site, 'comment of a replaced field is handed over', 'value.comment_element = original.comment_element before the commit')
    else:
        rep.fail('C05.R4', f.site, 'comment of a replaced field is handed over', 'the comment lines of a replaced field are not moved to the new field', where=f.where)


def r5_setitem_routing(rep, src):
    f = src.func(PM + ':Deb822ParagraphToStrWrapperMixin.__setitem__')
    rep.saw_func(f)
    alpha = rx.alphabet('str')
    value = f.params()[2]
    blocks = [n for n in f.node.body if isinstance(n, ast.If) and norm(n.test) == 'self._auto_map_initial_line_whitespace']
    if len(blocks) != 1:
        raise AnalysisError('%s: whitespace-mapping block not found' % f.site)
    blk = blocks[0]
    routing = [s for s in blk.body if isinstance(s, ast.If) and any(isinstance(c, ast.Call) and norm(c.func).endswith('set_field_to_simple_value') for c in ast.walk(s))]
    if len(routing) != 1:
        raise AnalysisError('%s: routing test not found' % f.site)
    test = routing[0].test
    # idiom: idx = value.index("\n") / -1 ; idx == -1 or idx == len(value)
    has_idx = any(isinstance(s, ast.Try) and "idx = %s.index('\\n')" % value in norm(s) and 'idx = -1' in norm(s) for s in blk.body)
    nonl = rx.regex_lang(r'[^\n]*', 0, 'fullmatch', alpha=alpha)
    if has_idx and norm(test) in ('idx == -1 or idx == len(%s)' % value, 'idx == -1', 'idx < 0'):
        single = nonl
    else:
        single = strlang.pred_lang(test, value, alpha)
    w = single.equiv_witness(nonl)
    if w is None:
        rep.ok('C05.R5', f.site, 'single-line path ⟺ no newline in the value', 'routing predicate language = [^\\n]*')
    else:
        rep.fail('C05.R5', f.site, 'single-line path ⟺ no newline in the value',
                 'the value %r is %s: %s' % (w[1], 'sent to the single-line setter although it contains a newline' if w[0] == 'left-only' else 'not sent to the single-line setter',
                                              'its line structure is flattened (the field reads back with a different value)' if w[0] == 'left-only'
                                              else 'value.split("\\n", 1) fails on it'), detail={'witness': w[1]}, where=f.where)
    t = norm(f.node)
    call = [c for c in ast.walk(routing[0]) if isinstance(c, ast.Call) and norm(c.func).endswith('set_field_to_simple_value')][0]
    if len(call.args) >= 2 and norm(call.args[1]) == '%s.strip()' % value and norm(call.args[0]) == f.params()[1]:
        rep.ok('C05.R5', f.site, 'single-line value is passed trimmed', 'set_field_to_simple_value(item, value.strip())', nontrivial=False)
    else:
        rep.fail('C05.R5', f.site, 'single-line value is passed trimmed', 'the single-line setter does not receive (item, value.strip())', where=f.where)
    if "first_line, rest = %s.split('\\n', 1)" % value in t and "%s = ''.join((' ', first_line.strip(), '\\n', rest))" % value in t:
        rep.ok('C05.R5', f.site, 'multi-line value: first line normalised, rest verbatim', "' ' + first.strip() + '\\n' + rest")
    else:
        rep.fail('C05.R5', f.site, 'multi-line value: first line normalised, rest verbatim', 'the continuation lines are not passed on verbatim after the first line', where=f.where)
    if "if not %s.endswith('\\n'):" % value in t and "%s += '\\n'" % value in t and 'self._paragraph.set_field_from_raw_string(' in t:
        rep.ok('C05.R5', f.site, 'final newline supplied, then raw setter', 'ok', nontrivial=False)
    else:
        rep.fail('C05.R5', f.site, 'final newline supplied, then raw setter', 'a multi-line value without final newline is not completed before it is stored', where=f.where)
    s = src.func(PM + ':Deb822ParagraphElement.set_field_to_simple_value')
    st = norm(s.node)
    if "if '\\n' in simple_value:" in st and "raw_value = ' ' + simple_value.strip() + '\\n'" in st and 'self.set_field_from_raw_string(' in st:
        rep.ok('C05.R5', s.site, 'simple value → " value\\n"', 'newline rejected, one blank + value + newline')
    else:
        rep.fail('C05.R5', s.site, 'simple value → " value\\n"', 'set_field_to_simple_value does not reject newlines / build " " + value + "\\n"', where=s.where)


def check(src, rep, tier):
    rep.explanation = ('C05: set/remove of both paragraph classes are interpreted on symbolic heaps (shared with C10): a new key calls the '
                       'final-newline helper before the first mutation and is appended last, an existing key is replaced in place without the '
                       'helper, removal unlinks exactly the addressed occurrences.  The helper itself is interpreted on a paragraph whose last '
                       'field is unterminated: only the last line of the last field may change.  The routing predicate of __setitem__ is turned '
                       'into a regular language and must equal "no newline".  CFG: the line checks, the re-parse and the error test dominate the '
                       'commit in set_field_from_raw_string; AST: lookups use unpacked keys, original spelling kept.')
    rep.not_decided = ['byte identity of the untouched parts as such (C01 conservation + no rewriting of tokens)', 'value read-back equality for arbitrary layouts']
    rep.need('C05.R1', 12)
    rep.need('C05.R2', 8)
    rep.need('C05.R3', 15)
    rep.need('C05.R4', 6)
    rep.need('C05.R5', 5)
    rep.guard('C05.R1', r1_r2_set_remove, src)
    rep.guard('C05.R1', r1b_helper, src)
    rep.guard('C05.R3', r3_keys, src)
    rep.guard('C05.R4', r4_validate_before_commit, src)
    rep.guard('C05.R5', r5_setitem_routing, src)

"""C01 -- the format-preserving parser is lossless: parse then dump reproduces the input."""
import ast
import itertools

from .. import rx, pieces, paths, normalize, strlang
from ..core import AnalysisError, norm, walk_no_nested


def _OS_FIELDS(src):
    from .common import ordered_set_fields
    return ordered_set_fields(src)


META = {
    'design_ref': 'DESIGN.md §5 C01',
    'technique': 'conservation analyses: one iteration of the tokenizer loop interpreted on symbolic strings (sa.heap + sa.symstr with automatic case refinement; the groups of the field regex, their feasible participation patterns and their tiling of the match taken from the marked automaton of _RE_FIELD_LINE) -- the yielded token texts concatenate to the line; "piece flow" over stream positions through the re-grouping generators (BufferingIterator API and itertools.groupby modelled) and through iter_tokens; regular-language decisions for the whitespace look-ahead (predicate languages per input mode, token invariant extracted from the paths of _verify_token_text) and for the input-mode selection; paragraph iter_parts interpreted on symbolic heaps; token constructors and their validators interpreted on symbolic texts with automatic case refinement (every text a tokenizer can hand them); from_kvpairs interpreted on case-insensitive names; iter_tokens, convert_to_text and dump interpreted on a model tree (the loop-shape analysis as a second opinion); closure-factory rule (no container of a factory is used by the nested function it returns); the tokenizer interpreted end to end with the real buffering iterator on three input modes; constructor and iter_parts of the multi-part elements interpreted on stand-in parts (every part present, each optional part absent in turn); the whole parser interpreted end to end (tokenizer, every re-grouping stage with the real buffering iterators, the element constructors) on line lists over the line classes in three input modes: the text of the document is the input',
    'level_text': 'Static decision on every path: each character of a line is emitted in exactly one token and in order (error and comment '
                  'lines whole), each token/element of the stream is yielded exactly once and in order by the grouping stages (including '
                  'end-of-stream flushes), each element enumerates the parts it stores in constructor order and dump concatenates token '
                  'texts without filter; whitespace lines are only merged when newline terminated (or get their newline in the no-newline '
                  'input mode) so that the token invariant cannot reject the input.',
    'level_note': 'trusted: the two position interpreters (constructs outside their vocabulary are ANALYSIS-ERROR), CPython re parser, '
                  'automata engine; one dead branch (field name not followed by separator+value) is exempted with its reason checked',
}

TK = '_deb822_repro.tokens'
PM = '_deb822_repro.parsing'
UT = '_deb822_repro._util'


def r1_r2_field_regex(rep, src):
    r = src.regex(TK, '_RE_FIELD_LINE')
    rep.saw_regex('tokens:_RE_FIELD_LINE')
    alpha = rx.alphabet('str')
    line = rx.regex_lang(r'[^\n]*\n?', 0, 'fullmatch', alpha=alpha)
    Lm = rx.regex_lang(r['pattern'], r['flags'], 'match', alpha=alpha)
    Lf = rx.regex_lang(r['pattern'], r['flags'], 'fullmatch', alpha=alpha)
    w = Lm.intersect(line).not_subset_witness(Lf)
    site = TK + ':_RE_FIELD_LINE'
    if w is not None:
        rep.fail('C01.R1', site, 'a field-line match covers the whole line', 'the line %r is matched only up to a prefix: the tokenizer emits the groups, so the rest of '
                 'the line (e.g. its line end) is silently dropped' % w, detail={'witness': w})
    else:
        rep.ok('C01.R1', site, 'a field-line match covers the whole line', 'L_match ∩ LINE ⊆ L_fullmatch')
    # group tiling: every character of the match lies in exactly one of the capturing groups, in index order
    tree = rx.parse(r['pattern'], r['flags'])
    ng = tree.state.groups - 1
    names = {v: k for k, v in tree.state.groupdict.items()}
    groups = list(range(1, ng + 1))
    markers = [(k, g) for g in groups for k in ('open', 'close')]
    Rm = rx.regex_lang(r['pattern'], r['flags'], 'fullmatch', groups, markers, alpha)
    nA = alpha.n
    opens = {nA + markers.index(('open', g)): g for g in groups}
    closes = {nA + markers.index(('close', g)): g for g in groups}

    def step(s, sym):
        cur, last = s
        if cur == 'dead':
            return s
        if sym in opens:
            g = opens[sym]
            return (g, last) if (cur is None and g > last) else ('dead', 0)
        if sym in closes:
            g = closes[sym]
            return (None, g) if cur == g else ('dead', 0)
        return s if cur is not None else ('dead', 0)
    tile = rx.from_function(alpha, markers, (None, 0), step, lambda s: s[0] is None)
    w = Rm.intersect(rx.lift(line, markers)).not_subset_witness(tile)
    if w is not None:
        rep.fail('C01.R2', site, 'the capturing groups tile the match', 'in the parse %r some character of the line lies outside every capturing group (or groups nest/overlap): '
                 'the tokenizer, which emits only the groups, loses it' % w, detail={'witness': w})
    else:
        rep.ok('C01.R2', site, 'the capturing groups tile the match', '%d groups (%s) partition every matched line, in order' % (ng, ', '.join(names.get(g, str(g)) for g in groups)))
    # group facts for the character analysis
    info = {}
    for g in groups:
        part = rx.has_group(alpha, markers, g)
        optional = not Rm.minus(part).is_empty()
        const = None
        for cand in (':', '\n', ' '):
            only = rx.regex_lang(rx.literal(cand), 0, 'fullmatch', alpha=alpha)
            if Rm.intersect(part).minus(rx.group_content(alpha, markers, g, only)).is_empty():
                const = cand
        eps = rx.regex_lang('', 0, 'fullmatch', alpha=alpha)
        nonempty = Rm.intersect(part).intersect(rx.group_content(alpha, markers, g, eps)).is_empty()
        ends_nl = rx.regex_lang(r'(?s:.*)\n', 0, 'fullmatch', alpha=alpha)
        may_nl = not Rm.intersect(part).intersect(rx.group_content(alpha, markers, g, ends_nl)).is_empty()
        info[g] = dict(name=names.get(g, str(g)), optional=optional, const=const, nonempty=nonempty, may_nl=may_nl)
    # which sets of groups can take part in one match
    opt = [g for g in groups if info[g]['optional']]
    patterns = []
    for k in range(len(opt) + 1):
        for pres in itertools.combinations(opt, k):
            lang = Rm
            for g in opt:
                part = rx.has_group(alpha, markers, g)
                lang = lang.intersect(part) if g in pres else lang.minus(part)
            if not lang.is_empty():
                patterns.append(frozenset(pres))
    for g in groups:
        info[g]['patterns'] = patterns
    return info


def const_tokens(src):
    """token classes whose constructor passes a constant text to the base class"""
    m = src.mod(TK)
    out = {}
    for cname, cdef in m.classes.items():
        init = m.funcs.get(cname + '.__init__')
        if init is None or len(init.params()) != 1:
            continue
        for c in ast.walk(init.node):
            if isinstance(c, ast.Call) and isinstance(c.func, ast.Attribute) and c.func.attr == '__init__' and len(c.args) == 1 \
                    and isinstance(c.args[0], ast.Constant) and isinstance(c.args[0].value, str):
                out[cname] = c.args[0].value
    return out


def r3_tokenizer(rep, src, ginfo):
    """one iteration of the line loop interpreted on a symbolic line (sa.heap + sa.symstr, helpers followed): the texts of the
    tokens it yields, concatenated, must be the line -- with "\\n" appended in the input mode without line ends.  Two shapes of
    line cover everything: a line the field regex does not match (any text: comment, blank, continuation, invalid) and a line
    it matches, given by its groups (every combination of participating optional groups; the groups tile the match: C01.R2).
    Decisions that depend on the text split the case on its language."""
    from .. import heap as H, symstr
    from ..symstr import SStr
    f = src.func(TK + ':tokenize_deb822_file')
    rep.saw_func(f)
    loops = [s_ for s_ in f.node.body if isinstance(s_, ast.For)]
    if len(loops) != 1:
        raise AnalysisError('%s: line loop not found' % f.site)
    loop = loops[0]
    ct = const_tokens(src)
    if ct.get('Deb822NewlineAfterValueToken') != '\n' or ct.get('Deb822FieldSeparatorToken') != ':':
        rep.fail('C01.R2', TK, 'constant tokens', 'Deb822NewlineAfterValueToken / Deb822FieldSeparatorToken no longer carry "\\n" / ":" (found %r)'
                 % {k: ct.get(k) for k in ('Deb822NewlineAfterValueToken', 'Deb822FieldSeparatorToken')})
        return
    roles = _roles(f, loop)
    if len(roles['carried']) != 1:
        raise AnalysisError('%s: expected one piece of state carried from line to line, found %r' % (f.site, roles['carried']))
    mod = src.mod(TK)
    pre = f.node.body[:f.node.body.index(loop)]
    dicts = [st.targets[0].id for st in pre if isinstance(st, (ast.Assign,)) and len(st.targets) == 1 and isinstance(st.targets[0], ast.Name)
             and isinstance(st.value, ast.Dict) and not st.value.keys]
    dicts += [st.target.id for st in pre if isinstance(st, ast.AnnAssign) and isinstance(st.target, ast.Name) and isinstance(st.value, ast.Dict) and not st.value.keys]
    streams = [st.targets[0].id for st in pre if isinstance(st, ast.Assign) and len(st.targets) == 1 and isinstance(st.targets[0], ast.Name)
               and isinstance(st.value, ast.Call) and norm(st.value.func) == 'BufferingIterator']
    streams += [st.target.id for st in pre if isinstance(st, ast.AnnAssign) and isinstance(st.target, ast.Name) and isinstance(st.value, ast.Call)
                and norm(st.value.func) == 'BufferingIterator']
    order = sorted(ginfo)
    gnames = [ginfo[g]['name'] for g in order]
    NONL = r'[^\n]'

    def interpret(line, groups, mode, carried, cache=None, heap=None, strI=None, upcoming=None):
        """-> ('raise', exc, line) | ('tokens', [token text ...], heap, env).  upcoming: the (decided) lines that follow in the stream;
        takewhile / peek answer from them, and what takewhile took is left in `upcoming['taken']`"""
        def field_match(it, args, kw):
            if groups is None:
                return None
            return it.h.alloc('Match', {'groups': tuple(groups)})

        def group(it, args, kw):
            g = it.h.objs[args[0].name]['groups']

            def one(k):
                if isinstance(k, int):
                    return g[k - 1] if k else line
                if k in gnames:
                    return g[gnames.index(k)]
                raise H.Raised('IndexError', it.h.version, 0)
            ks = args[1:]
            return one(ks[0]) if len(ks) == 1 else tuple(one(k) for k in ks)

        def groupdict(it, args, kw):
            g = it.h.objs[args[0].name]['groups']
            d = it.h.new_dict()
            for n_, v_ in zip(gnames, g):
                if isinstance(n_, str):
                    it.h.dict_set(d, n_, v_)
            return d
        hooks = {'_strI': lambda it, a, k: a[0], 'sys.intern': lambda it, a, k: a[0], 'regex:_RE_FIELD_LINE.match': field_match,
                 '.groups': lambda it, a, k: tuple(it.h.objs[a[0].name]['groups']), '.group': group, '.groupdict': groupdict,
                 '.peek': lambda it, a, k: None, '.peek_at': lambda it, a, k: None, '.takewhile': lambda it, a, k: it.h.new_list([]),
                 '.peek_many': lambda it, a, k: it.h.new_list([])}
        if upcoming is not None:
            def takewhile(it, a, k):
                out_ = []
                while upcoming['lines'] and it.truth(it.apply(a[1], [upcoming['lines'][0]])):
                    out_.append(upcoming['lines'].pop(0))
                upcoming['taken'] += out_
                return it.h.new_list(out_)
            hooks['.takewhile'] = takewhile
            hooks['.peek'] = lambda it, a, k: upcoming['lines'][0] if upcoming['lines'] else None
            hooks['.peek_at'] = lambda it, a, k: upcoming['lines'][a[1] - 1] if isinstance(a[1], int) and 0 < a[1] <= len(upcoming['lines']) else None
            hooks['.peek_many'] = lambda it, a, k: it.h.new_list(list(upcoming['lines'][:a[1]]) if isinstance(a[1], int) else [])
        if strI is not None:
            hooks['_strI'] = strI
        if heap is None:
            heap = H.Heap(mod, hooks=hooks)
            heap.symbolic_strings = True
            if upcoming is not None:
                heap.native_regex = True
        else:
            heap.hooks.update(hooks)
        it = H.Interp(heap)
        env = {roles['flag']: mode, roles['carried'][0]: carried, '#yields': []}
        for st_ in pre:
            # local helpers of the tokenizer (closures read the variables of this environment when they are called)
            if isinstance(st_, ast.FunctionDef) or (isinstance(st_, ast.Assign) and isinstance(st_.value, ast.Lambda)):
                it.exec(st_, env, None)
        for d_ in dicts:
            env[d_] = cache if cache is not None else heap.new_dict()
        for s_ in streams:
            env[s_] = heap.alloc('Stream', {})
        # what else the function sets up before the loop (a helper chosen by the input mode, a cache object of a class of the module):
        # executed as written, in the environment of this case.  Statements that set the mode flag or the carried state -- the case
        # fixes them -- and those that cannot be interpreted are left out (a use of an unbound name is then undecided, not wrong).
        fixed_ = {roles['flag'], roles['carried'][0]} | set(dicts if cache is not None else ()) | set(streams)
        for st_ in pre:
            tg_ = {n_.id for n_ in ast.walk(st_) if isinstance(n_, ast.Name) and isinstance(n_.ctx, ast.Store)}
            if isinstance(st_, (ast.FunctionDef, ast.Expr)) or not tg_ or (tg_ & fixed_) or tg_ <= set(env):
                continue
            try:
                it.exec(st_, env, None)
            except (AnalysisError, H.Raised, symstr.Undecided):
                for n_ in tg_:
                    env.pop(n_, None) if n_ not in fixed_ else None
        for n_ in ast.walk(loop.target):
            if isinstance(n_, ast.Name):
                env[n_.id] = line if n_.id == roles['line'] else 1
        try:
            it.run(loop.body, env, None)
        except H.Raised as x:
            return ('raise', x.exc, x.lineno)
        texts = []
        for t in env['#yields']:
            if not isinstance(t, H.Ref):
                raise AnalysisError('%s: the loop yields %r, not a token' % (f.site, t))
            texts.append(it.ev(ast.parse('tok.text', mode='eval').body, {'tok': t}, None))
        return ('tokens', texts, heap, env)

    def shapes(mode):
        """(label, atoms, builder -> (line, groups))"""
        out = []
        for nl in (('\n', '') if not mode else ('',)):
            eff = '\n' if mode else nl          # the line end the loop body sees after the no-line-end mode has supplied it
            out.append(('a line the field regex does not match, %s' % ('with its line end' if nl else 'without line end'),
                        {'A': NONL + ('*' if nl else '+')}, lambda at, nl=nl: (at['A'] + nl, None)))
            for pattern in ginfo[order[0]]['patterns']:
                if True:
                    present = {i for i, g in enumerate(order) if g in pattern}
                    parts = []
                    atoms = {}
                    for i, g in enumerate(order):
                        if ginfo[g]['const'] is not None:
                            parts.append(('lit', ginfo[g]['const']))
                        elif ginfo[g]['optional'] and i not in present:
                            parts.append(('none', None))
                        else:
                            atoms['G%d' % i] = NONL + ('+' if ginfo[g]['nonempty'] else '*')
                            parts.append(('atom', 'G%d' % i))
                    last = max(i for i, p_ in enumerate(parts) if p_[0] != 'none')
                    if nl and (parts[last][0] == 'lit' or not ginfo[order[last]]['may_nl']):
                        continue         # the line end cannot be part of this group: no such match
                    if mode and (parts[last][0] == 'lit' or not ginfo[order[last]]['may_nl']):
                        continue

                    def build(at, parts=parts, last=last, nl=nl, eff=eff):
                        groups, line = [], SStr()
                        for i, (kind, v) in enumerate(parts):
                            if kind == 'none':
                                groups.append(None)
                                continue
                            txt = SStr([v]) if kind == 'lit' else at[v]
                            line = line + txt + (nl if i == last else '')
                            groups.append(txt + eff if i == last else txt)
                        return line, groups
                    label = 'a field line with the groups %s, %s' % ([str(gnames[i]) for i, p_ in enumerate(parts) if p_[0] != 'none'], 'with its line end' if nl else 'without line end')
                    out.append((label, atoms, build))
        return out
    total = 0
    for mode in (False, True):
        for carried in (None, H.Key('earlier-field', 'Earlier-Field')):
            what = 'every character of a line is emitted once, in order (%s input, %s)' % ('no-newline' if mode else 'newline-terminated',
                                                                                           'inside a field' if carried is not None else 'outside a field')
            bad = None
            n = 0
            for label, atoms, build in shapes(mode):
                def body(at, build=build):
                    line, groups = build(at)
                    r = interpret(line, groups, mode, carried)
                    if r[0] == 'raise':
                        return r
                    out_ = SStr()
                    for t in r[1]:
                        out_ = out_ + symstr.lift(t.spelling if isinstance(t, H.Key) else t)
                    return ('texts', out_, line + '\n' if mode else line)
                for langs, r in symstr.explore(atoms, body, depth=10):
                    n += 1
                    empty = {k for k, l_ in langs.items() if l_.not_subset_witness(symstr.lit_lang('')) is None}
                    wit = {k: l_.witness() for k, l_ in langs.items()}
                    if r[0] == 'raise':
                        # the only line the tokenizer may refuse is the empty one
                        sample = build(symstr_atoms(langs))[0]
                        if not sample_is_empty(sample, empty):
                            bad = bad or '%s (e.g. %r): raises %s at line %d' % (label, wit, r[1], r[2])
                        continue

                    def nz(s_):
                        return SStr([p_ for p_ in s_.parts if isinstance(p_, str) or getattr(p_, 'name', None) not in empty])
                    o, w = nz(r[1]), nz(r[2])
                    if not o.same(w):
                        bad = bad or '%s (e.g. %r): the token texts concatenate to %r, the line is %r' % (label, wit, o, w)
            total += n
            if bad:
                rep.fail('C01.R3', f.site, what, bad, where=f.where)
            elif n == 0:
                rep.fail('C01.R3', f.site, what, 'no case interpreted', where=f.where)
            else:
                rep.ok('C01.R3', f.site, what, '%d symbolic cases conserve the line' % n)
    rep.analysed['paths'] += total
    # runs of whitespace-only lines: the loop body may take following lines out of the stream and put them into the token of the
    # current one.  Interpreted on decided streams (the current line whitespace-only, then terminated / unterminated whitespace-only
    # lines and a field line): whatever is taken, the token texts are the current line plus the taken lines -- each with the line
    # end this input mode supplies -- and no token constructor refuses its text (a whitespace token that contains a newline ends on
    # one).  How MANY lines are taken is not prescribed.
    la_cases = [(False, ' \n', [' \n', '\t\n', 'A: b\n']), (False, '\n', ['\n', '  ']), (False, ' \n', ['  ']), (False, '\n', ['\n', '\n', '']),
                (False, ' \n', ['A: b\n', ' \n']), (False, '\t\n', []),
                (True, ' ', [' ', '\t', 'A: b']), (True, '', ['', '  ']), (True, ' ', [' \n', ' ']), (True, '\t', ['A: b', ' ']), (True, ' ', [])]
    for mode, cur, following in la_cases:
        for carried in (None, H.Key('earlier-field', 'Earlier-Field')):
            up = {'lines': list(following), 'taken': []}
            what = 'a run of whitespace-only lines (%s input, current line %r, then %r%s)' % ('no-newline' if mode else 'newline-terminated', cur, following,
                                                                                             ', inside a field' if carried is not None else '')
            r = interpret(cur, None, mode, carried, upcoming=up)
            if r[0] == 'raise':
                rep.fail('C01.R6', f.site, what, 'raises %s (line %d) after taking %r out of the stream: the look-ahead merges a line that makes the token invalid (a final line '
                         'without newline in the newline-terminated mode, a line that already has one in the no-newline mode)' % (r[1], r[2], up['taken']), where=f.where)
                continue
            got = ''
            for t in r[1]:
                t = t.spelling if isinstance(t, H.Key) else t
                t = t.concrete() if isinstance(t, SStr) else t
                if not isinstance(t, str):
                    raise AnalysisError('%s: undecided token text %r on a decided line' % (f.site, t))
                got += t
            eol = '\n' if mode else ''
            want = cur + eol + ''.join(x + eol for x in up['taken'])
            if got == want:
                rep.ok('C01.R6', f.site, what, 'tokens %r; %d line(s) taken from the stream' % (got, len(up['taken'])), nontrivial=bool(following))
            else:
                rep.fail('C01.R6', f.site, what, 'the token texts are %r; the current line and the %d line(s) taken from the stream (%r) are %r: the tokens no longer tile the input'
                         % (got, len(up['taken']), up['taken'], want), where=f.where)
    # the field-name memo: after a field has been seen, the same field in another spelling is still emitted in its own spelling
    # (two iterations on decided lines, case-insensitive keys modelled by the interpreter)
    if dicts:
        first, second = 'Depends', 'depends'

        def strI(it, a, k):
            v = a[0]
            if isinstance(v, H.Key):
                return v
            v = v.concrete() if isinstance(v, SStr) else v
            return H.Key(v.lower(), v)
        heap = H.Heap(mod)
        heap.symbolic_strings = True
        cache = heap.new_dict()
        outs = []
        for name in (first, second):
            nonlit = [i for i, g in enumerate(order) if ginfo[g]['const'] is None]
            vals = [name, ' ', 'v', '\n']
            groups = [ginfo[g]['const'] if ginfo[g]['const'] is not None else (vals[nonlit.index(i)] if nonlit.index(i) < len(vals) else None) for i, g in enumerate(order)]
            r = interpret(name + ': v\n', groups, False, None, cache=cache, heap=heap, strI=strI)
            if r[0] == 'raise':
                outs.append('raises ' + r[1])
            else:
                t0 = r[1][0] if r[1] else None
                outs.append(t0.spelling if isinstance(t0, H.Key) else (t0.concrete() if isinstance(t0, SStr) else t0))
        if outs == [first, second]:
            rep.ok('C01.R3', f.site, 'field-name memo returns the looked-up text', 'after %r the field %r is emitted as %r' % (first, second, outs[1]))
        else:
            rep.fail('C01.R3', f.site, 'field-name memo returns the looked-up text', 'after a line with the field %r the field name of a line %r is emitted as %r: a later '
                     'spelling of the same field hits the memo entry of an earlier spelling and the token is emitted with the wrong case' % (first, second + ': v', outs[1:]),
                     where=f.where)
    return loop


def symstr_atoms(langs):
    from .. import symstr
    return {k: symstr.atom(k, l_) for k, l_ in langs.items()}


def sample_is_empty(line, empty):
    """the line (a symbolic string) is the empty string in this case: no literal part, every atom confined to ''"""
    return all((not isinstance(p_, str) or p_ == '') and (isinstance(p_, str) or getattr(p_, 'name', None) in empty) for p_ in line.parts)


def _roles(f, loop):
    """roles of the locals of the tokenizer, inferred from how they are used: the line variable (loop target), the state carried
    from line to line (bound before the loop and re-bound inside it), the input-mode flag (a boolean bound before the loop,
    read but never re-bound inside it)"""
    t = loop.target
    if isinstance(t, ast.Tuple) and isinstance(loop.iter, ast.Call) and norm(loop.iter.func) == 'enumerate' and len(t.elts) == 2:
        t = t.elts[1]
    if not isinstance(t, ast.Name):
        raise AnalysisError('%s: the line variable of the loop is not a plain name' % f.site)
    pre = f.node.body[:f.node.body.index(loop)]

    def bound(stmts):
        out = {}
        for st in stmts:
            for n in ([st] if isinstance(st, (ast.FunctionDef, ast.ClassDef)) else [st] + list(walk_no_nested(st))):
                if isinstance(n, ast.Assign):
                    for x in n.targets:
                        if isinstance(x, ast.Name):
                            out.setdefault(x.id, []).append(n.value)
                elif isinstance(n, (ast.AugAssign, ast.AnnAssign)) and isinstance(n.target, ast.Name) and n.value is not None:
                    out.setdefault(n.target.id, []).append(n.value)
        return out
    before, inside = bound(pre), bound(loop.body)
    read_inside = {n.id for st in loop.body for n in ast.walk(st) if isinstance(n, ast.Name) and isinstance(n.ctx, ast.Load)}
    carried = sorted(n for n in before if n in inside and n != t.id)

    def boolish(e):
        return (isinstance(e, ast.Constant) and isinstance(e.value, bool)) or isinstance(e, (ast.Compare, ast.BoolOp)) \
            or (isinstance(e, ast.UnaryOp) and isinstance(e.op, ast.Not))
    flags = sorted(n for n, vs in before.items() if n not in inside and n in read_inside and all(boolish(v) for v in vs))
    if len(flags) != 1:
        raise AnalysisError('%s: expected one input-mode flag bound before the line loop, found %r' % (f.site, flags))
    return dict(line=t.id, carried=carried, flag=flags[0])


def _line_loop(f):
    loops = [s for s in f.node.body if isinstance(s, ast.For)]
    if len(loops) != 1:
        raise AnalysisError('%s: line loop not found' % f.site)
    return loops[0]


def _mode_variants(f, loop):
    """[(mode, env, folder)]: the locals of the preamble expressed over the inputs, once per input mode
    (auto_correct_newlines False / True)"""
    consts = paths.module_consts(f.module, '')
    pre = f.node.body[:f.node.body.index(loop)]
    out = []
    for p_ in paths.Enumerator(paths.Folder(consts)).run(pre, [paths.Path()]):
        if p_.outcome is not None:
            continue
        v = p_.env.get(_roles(f, loop)['flag'])
        if v is None:
            raise AnalysisError('%s: the input-mode flag is not set before the line loop' % f.site)
        t = paths.Folder(consts).truth(v)
        if t is not None:
            out.append((t, p_.env, paths.Folder(consts)))
            continue
        key = norm(v)
        decided = [pol for t0, pol in p_.conds if norm(t0) == key]
        for mode in ([decided[0]] if decided else [False, True]):
            def atom(e, key=key, mode=mode):
                return mode if norm(e) == key else None
            out.append((mode, p_.env, paths.Folder(consts, atom)))
    return out


def r7_mode_selection(rep, src, loop):
    """the no-newline input mode must be considered exactly when the first line does not end with a newline
    (the empty string included); decided on the language of the preamble's path conditions"""
    f = src.func(TK + ':tokenize_deb822_file')
    consts = paths.module_consts(f.module, '')
    pre = f.node.body[:f.node.body.index(loop)]
    alpha = rx.alphabet('str')
    anyl = rx.regex_lang('(?s:.*)', 0, 'fullmatch', alpha=alpha)
    ends_nl = rx.regex_lang(r'(?s:.*)\n', 0, 'fullmatch', alpha=alpha)
    considered = anyl.complement()
    var = None
    ps = [p_ for p_ in paths.Enumerator(paths.Folder(consts)).run(pre, [paths.Path()]) if p_.outcome is None]
    for p_ in ps:
        for t, _pol in p_.conds:
            for c in ast.walk(t):
                if isinstance(c, ast.Call) and isinstance(c.func, ast.Attribute) and c.func.attr == 'endswith':
                    var = norm(c.func.value)
    if var is None:
        raise AnalysisError('%s: no test of the first line\'s line end before the loop' % f.site)

    def atom(t):
        if isinstance(t, ast.Compare) and len(t.ops) == 1 and norm(t.left) == var and isinstance(t.comparators[0], ast.Constant) \
                and t.comparators[0].value is None and isinstance(t.ops[0], (ast.Is, ast.IsNot)):
            return anyl if isinstance(t.ops[0], ast.IsNot) else anyl.complement()
        return None
    for p_ in ps:
        v = p_.env.get(_roles(f, loop)['flag'])
        if v is None or paths.Folder(consts).truth(v) is False:
            continue
        lang = anyl
        for t, pol in p_.conds:
            if var not in norm(t):
                continue
            pl = strlang.pred_lang(t, var, alpha, atom=atom)
            lang = lang.intersect(pl if pol else pl.complement())
        considered = considered.union(lang)
    want = ends_nl.complement()
    what = 'the no-newline mode is considered exactly for a first line without a line end'
    w = want.not_subset_witness(considered)
    if w is not None:
        rep.fail('C01.R7', f.site, what, 'a first line %r (no newline) does not enter the no-newline input mode: the following lines are then '
                 'rejected or mis-tokenised although the same input is accepted in the other spelling' % w, where=f.where)
        return
    w = considered.not_subset_witness(want)
    if w is not None:
        rep.fail('C01.R7', f.site, what, 'a first line %r that ends with a newline can enter the no-newline input mode' % w, where=f.where)
        return
    rep.ok('C01.R7', f.site, what, 'L(mode considered) = Σ* \\ Σ*\\n over the first line')


def _closure_expr(f, name):
    """(param, body expression) of a lambda / expression-bodied closure bound to `name` in the function"""
    for st in walk_no_nested(f.node):
        if isinstance(st, ast.FunctionDef) and st.name == name:
            body = [s for s in st.body if not (isinstance(s, ast.Expr) and isinstance(s.value, ast.Constant))]
            if len(body) == 1 and isinstance(body[0], ast.Return) and body[0].value is not None and len(st.args.args) == 1:
                return st.args.args[0].arg, body[0].value
        if isinstance(st, ast.Assign) and len(st.targets) == 1 and isinstance(st.targets[0], ast.Name) and st.targets[0].id == name \
                and isinstance(st.value, ast.Lambda) and len(st.value.args.args) == 1:
            return st.value.args.args[0].arg, st.value.body
    return None


def _merge_sites(f, loop, env, folder):
    """look-ahead merges of one mode: [(predicate param, predicate body, element var, element expr or None, path description)]"""
    found = []
    linevar = _roles(f, loop)['line']

    def loop_handler(en, st, path):
        it = paths.subst(st.iter, path.env) if isinstance(st, ast.For) else None
        if it is not None and isinstance(it, ast.Call) and isinstance(it.func, ast.Attribute) and it.func.attr == 'takewhile' \
                and isinstance(st.target, ast.Name) and not st.orelse:
            var = st.target.id
            body = [s for s in st.body if not (isinstance(s, ast.Expr) and isinstance(s.value, ast.Constant))]
            elt = None
            if len(body) == 1 and isinstance(body[0], ast.AugAssign) and isinstance(body[0].op, ast.Add) and norm(body[0].target) == linevar:
                elt = paths.subst(body[0].value, {k: v for k, v in path.env.items() if k != var})
            path.events.append(('merge', it, var, elt, st))
            return [path]
        return None
    en = paths.Enumerator(folder, loop_handler)
    p0 = paths.Path()
    p0.env = {k: v for k, v in env.items() if k != linevar}
    ps = en.run(loop.body, [p0])
    seen = set()
    seen_trees = set()
    for p_ in ps:
        trees = [e[1] for e in p_.events if e[0] == 'effect'] + [e[2] for e in p_.events if e[0] == 'store'] + list(p_.env.values()) + [t for t, _ in p_.conds]
        for e in p_.events:
            if e[0] == 'merge':
                k = ('loop', norm(e[1]), norm(e[3]) if e[3] is not None else None)
                if k not in seen:
                    seen.add(k)
                    found.append((e[1], e[2], e[3], 'loop', e[4]))
        for tree in trees:
            if not isinstance(tree, ast.AST) or id(tree) in seen_trees:
                continue
            seen_trees.add(id(tree))
            if not any(isinstance(c, ast.Attribute) and c.attr == 'takewhile' for c in ast.walk(tree)):
                continue
            par = paths.parents(tree)
            for c in ast.walk(tree):
                if isinstance(c, ast.Call) and isinstance(c.func, ast.Attribute) and c.func.attr == 'takewhile':
                    # context: comprehension over the call / list(call) / the call itself, joined with ''
                    up = par.get(id(c))
                    var, elt = None, None
                    ctx = c
                    if isinstance(up, ast.comprehension) and up.iter is c and isinstance(up.target, ast.Name) and not up.ifs:
                        comp = par.get(id(up))
                        if isinstance(comp, (ast.ListComp, ast.GeneratorExp)) and len(comp.generators) == 1:
                            var, elt, ctx = up.target.id, comp.elt, comp
                        else:
                            ctx = None
                    elif isinstance(up, ast.comprehension):
                        ctx = None
                    elif isinstance(up, ast.Call) and norm(up.func) in ('list', 'tuple') and len(up.args) == 1:
                        ctx = up
                    k = ('expr', norm(c), norm(elt) if elt is not None else None, ctx is None)
                    if k in seen:
                        continue
                    seen.add(k)
                    join_ok = False
                    if ctx is not None:
                        j = par.get(id(ctx))
                        while isinstance(j, ast.Call) and norm(j.func) in ('list', 'tuple'):
                            ctx, j = j, par.get(id(j))
                        if isinstance(j, ast.Call) and isinstance(j.func, ast.Attribute) and j.func.attr == 'join' \
                                and isinstance(j.func.value, ast.Constant) and j.func.value.value == '' and j.args and j.args[0] is ctx:
                            join_ok = True
                        elif isinstance(j, ast.Call) and isinstance(j.func, ast.Attribute) and j.func.attr == 'join':
                            join_ok = 'sep'
                        elif j is None or isinstance(j, (ast.BoolOp, ast.UnaryOp, ast.Compare)):
                            join_ok = 'test'        # the look-ahead used as a condition only
                    found.append((c, var, elt, 'expr' if join_ok is True else join_ok if join_ok else 'unknown', c))
    return found


def r6_whitespace_merge(rep, src, loop):
    """look-ahead lines joined into a whitespace token.  Decided per input mode on languages:
       newline-terminated mode: every merged line ends with a newline and is appended unchanged;
       no-newline mode: merged lines carry no newline and each is appended with exactly one;
    and the resulting token texts satisfy the invariant extracted from Deb822Token._verify_token_text."""
    f0 = src.func(TK + ':tokenize_deb822_file')
    # (the look-ahead may sit in a private helper: the function with its helpers in place, the line loop at its position)
    from ..core import Func, set_parents
    fnode_, inl_ = normalize.inline_helpers(f0)
    if inl_ and len(fnode_.body) == len(f0.node.body):
        set_parents(fnode_)
        idx_ = f0.node.body.index(loop)
        f = Func(f0.module, fnode_, f0.qual, f0.cls)
        loop = fnode_.body[idx_]
        for q_ in inl_:
            h_ = f0.module.funcs.get(q_)
            if h_ is not None:
                rep.saw_func(h_)
    else:
        f = f0
    alpha = rx.alphabet('str')
    anyl = rx.regex_lang('(?s:.*)', 0, 'fullmatch', alpha=alpha)
    ends_nl = rx.regex_lang(r'(?s:.*)\n', 0, 'fullmatch', alpha=alpha)
    has_nl = rx.regex_lang(r'(?s:.*)\n(?s:.*)', 0, 'fullmatch', alpha=alpha)
    wsr = src.regex(TK, '_RE_WHITESPACE_LINE')
    rep.saw_regex('tokens:_RE_WHITESPACE_LINE')
    variants = _mode_variants(f, loop)
    if {m for m, _, _ in variants} != {False, True}:
        raise AnalysisError('%s: the two input modes could not be separated' % f.site)

    def regex_atom(var):
        def atom(t):
            # <REGEX>.match(var) [is not None]  /  is None
            neg = False
            e = t
            if isinstance(t, ast.Compare) and len(t.ops) == 1 and isinstance(t.comparators[0], ast.Constant) and t.comparators[0].value is None \
                    and isinstance(t.ops[0], (ast.Is, ast.IsNot)):
                neg = isinstance(t.ops[0], ast.Is)
                e = t.left
            if isinstance(e, ast.Call) and isinstance(e.func, ast.Attribute) and e.func.attr in ('match', 'fullmatch', 'search') \
                    and len(e.args) == 1 and norm(e.args[0]) == var and isinstance(e.func.value, ast.Name):
                try:
                    r = src.regex(TK, e.func.value.id)
                except AnalysisError:
                    return None
                L = rx.regex_lang(r['pattern'], r['flags'], e.func.attr, alpha=alpha)
                return L.complement() if neg else L
            return None
        return atom
    what = 'merged whitespace lines form a valid token in both input modes'
    problems = []
    tokens_by_mode = {}
    n_sites = 0
    for mode, env, folder in variants:
        sites = _merge_sites(f, loop, env, folder)
        mname = 'no-newline input mode' if mode else 'newline-terminated mode'
        for call, var, elt, kind, node in sites:
            if kind == 'test':
                continue
            n_sites += 1
            pred = call.args[0] if call.args else None
            pv = body = None
            if isinstance(pred, ast.Lambda) and len(pred.args.args) == 1:
                pv, body = pred.args.args[0].arg, pred.body
            elif isinstance(pred, ast.Name):
                ce = _closure_expr(f, pred.id)
                if ce is not None:
                    pv, body = ce[0], paths.subst(ce[1], {k: v for k, v in env.items() if k != ce[0]})
            Lp = None
            if body is None:
                # the bound method of a compiled pattern, given directly or through a local the preamble binds per input mode
                pe = env.get(pred.id) if isinstance(pred, ast.Name) else pred
                if isinstance(pe, ast.Attribute) and pe.attr in ('match', 'fullmatch', 'search') and isinstance(pe.value, ast.Name):
                    try:
                        r_ = src.regex(TK, pe.value.id)
                    except AnalysisError:
                        r_ = None
                    if r_ is not None:
                        rep.saw_regex('tokens:' + pe.value.id)
                        Lp = rx.regex_lang(r_['pattern'], r_['flags'], pe.attr, alpha=alpha)
            if body is None and Lp is None:
                raise AnalysisError('%s: the look-ahead predicate %s is not an expression-bodied lambda/closure' % (f.site, norm(pred)))
            if Lp is None:
                body = paths.simplify(body, folder)
                Lp = strlang.pred_lang(body, pv, alpha, atom=regex_atom(pv))
            if kind not in ('expr', 'loop'):
                # the way the taken lines reach the token is not one of the shapes read here: decided by the interpreted runs (C01.R6 in
                # r3_tokenizer: the tokens tile the current line and the taken lines in both input modes)
                continue
            # element transform: var, var + const -- or one of these chosen by a test on the line (`x if x.endswith(c) else x + c`)
            def suffix_of(e2):
                parts = []

                def flat(x):
                    if isinstance(x, ast.BinOp) and isinstance(x.op, ast.Add):
                        flat(x.left)
                        flat(x.right)
                    else:
                        parts.append(x)
                flat(e2)
                if not parts or not (isinstance(parts[0], ast.Name) and parts[0].id == var) or \
                        not all(isinstance(q, ast.Constant) and isinstance(q.value, str) for q in parts[1:]):
                    raise AnalysisError('%s: merged element %s is not <line> + <constant>' % (f.site, norm(e2)))
                return ''.join(q.value for q in parts[1:])
            suffix = ''
            pieces = None
            if elt is not None:
                e2 = paths.simplify(elt, folder)
                if isinstance(e2, ast.IfExp):
                    Lc = strlang.pred_lang(e2.test, var, alpha, atom=regex_atom(var))
                    pieces = [(Lp.intersect(Lc), suffix_of(e2.body)), (Lp.minus(Lc), suffix_of(e2.orelse))]
                    pieces = [(d_, s_) for d_, s_ in pieces if not d_.is_empty()]
                    if len({s_ for _d, s_ in pieces}) <= 1:
                        suffix = pieces[0][1] if pieces else ''
                        pieces = None
                else:
                    suffix = suffix_of(e2)
            if pieces is not None:
                # different additions for different lines
                for d_, s_ in pieces:
                    if not mode and s_ != '':
                        problems.append('%s: %r is added to the merged line %r, so the token text is not the input text (the tokens no longer tile the input)' % (mname, s_, d_.witness()))
                    if mode and s_ != '\n' and not d_.minus(ends_nl).is_empty():
                        d_ = d_.minus(ends_nl)
                        problems.append('in the no-newline input mode the merged look-ahead line %r is joined without its line end (appended text is <line> + %r)' % (d_.witness(), s_))
                if mode:
                    w = Lp.intersect(ends_nl).witness()
                    if w is not None:
                        problems.append('in the no-newline input mode the look-ahead accepts a line that already ends with a newline (e.g. %r), '
                                        'which the main loop reports as inconsistent input' % w)
                tokens_by_mode.setdefault(mode, []).append((Lp, suffix))
                continue
            if not mode:
                if suffix != '':
                    problems.append('%s: %r is added to every merged line, so the token text is not the input text' % (mname, suffix))
                w = Lp.not_subset_witness(ends_nl)
                if w is not None:
                    problems.append('in the newline-terminated mode the look-ahead also merges a final line without a newline (e.g. %r): the merged '
                                    'token contains a newline but does not end with one and Deb822Token rejects it (ValueError on e.g. '
                                    '["A: b\\n", "\\n", "  "])' % w)
            else:
                if suffix != '\n':
                    problems.append('in the no-newline input mode the merged look-ahead lines are joined without their line ends '
                                    '(lines run together / the token does not end with a newline); appended text is <line> + %r' % suffix)
                w = Lp.intersect(ends_nl).witness()
                if w is not None:
                    problems.append('in the no-newline input mode the look-ahead accepts a line that already ends with a newline (e.g. %r), '
                                    'which the main loop reports as inconsistent input' % w)
            sfx = rx.regex_lang(rx.literal(suffix), 0, 'fullmatch', alpha=alpha) if suffix else None
            tokens_by_mode.setdefault(mode, []).append((Lp, suffix))
            _ = sfx
    if n_sites < 2:
        raise AnalysisError('%s: look-ahead merge of whitespace lines not found for both input modes' % f.site)
    if problems:
        for p in sorted(set(problems)):
            rep.fail('C01.R6', f.site, what, p, where=f.where)
    else:
        rep.ok('C01.R6', f.site, what, 'newline-terminated look-ahead only / newline supplied per merged line (decided on the predicate languages, %d sites)' % n_sites)
    # token invariant for whitespace tokens, read from Deb822Token._verify_token_text
    v = src.func(TK + ':Deb822Token._verify_token_text')
    rep.saw_func(v)
    vnode, _ = normalize.inline_helpers(v)

    def tok_atom(e):
        t = norm(e)
        if t == 'self.is_whitespace':
            return True
        if t == 'self.is_comment' or (t.startswith('isinstance(self, ') and 'Whitespace' not in t):
            return False
        return None

    class TextAttr(ast.NodeTransformer):
        def visit_Attribute(self, n):
            if norm(n) == 'self.text':
                return ast.copy_location(ast.Attribute(value=n.value, attr='_text', ctx=n.ctx), n)
            return self.generic_visit(n)
    tp = src.func(TK + ':Deb822Token.text')
    if 'return self._text' not in norm(tp.node):
        raise AnalysisError('%s does not return self._text' % tp.site)
    vnode = TextAttr().visit(vnode)
    ps = paths.function_paths(vnode, paths.Folder(paths.module_consts(v.module, 'Deb822Token'), tok_atom))
    rejected = anyl.complement()
    for p_ in ps:
        if p_.outcome[0] != 'raise':
            continue
        lang = anyl
        for t, pol in p_.conds:
            pl = strlang.pred_lang(t, 'self._text', alpha)
            lang = lang.intersect(pl if pol else pl.complement())
        rejected = rejected.union(lang)
    # whitespace tokens the tokenizer can build: a whitespace line, plus merged lines in either mode
    WSL = rx.regex_lang(wsr['pattern'], wsr['flags'], 'fullmatch', alpha=alpha).intersect(rx.regex_lang(r'[^\n]*\n?', 0, 'fullmatch', alpha=alpha))
    bad = None
    for mode, lst in tokens_by_mode.items():
        for Lp, suffix in lst:
            # first line: ends with a newline when anything is merged (newline-terminated mode: the stream has more lines; no-newline mode: added)
            first = WSL.intersect(ends_nl) if not mode else rx.concat(WSL.minus(has_nl), rx.regex_lang(r'\n', 0, 'fullmatch', alpha=alpha))
            merged = Lp.intersect(WSL) if not suffix else rx.concat(Lp.intersect(WSL.minus(ends_nl)), rx.regex_lang(rx.literal(suffix), 0, 'fullmatch', alpha=alpha))
            tok = rx.concat(first, rx.star(merged))
            w = tok.intersect(rejected).witness()
            if w is not None:
                bad = (mode, w)
    single = WSL
    w = single.intersect(rejected).witness()
    if w is not None:
        bad = (None, w)
    if bad is None and not problems:
        rep.ok('C01.R6', v.site, 'token invariant', 'every whitespace token the tokenizer can build is accepted by _verify_token_text (language inclusion)')
    elif bad is not None and not problems:
        rep.fail('C01.R6', v.site, 'token invariant', 'the whitespace token %r, which the tokenizer builds for valid input, is rejected by the token invariant' % (bad[1],), where=v.where)
    else:
        rep.ok('C01.R6', v.site, 'token invariant', 'not evaluated: the merge rule itself is violated', nontrivial=False)


def r4_regrouping(rep, src):
    exempt = [('isinstance(separator, Deb822FieldSeparatorToken) and isinstance(value_element, Deb822ValueElement)', False)]
    jobs = [(UT + ':combine_into_replacement._impl', 'token_stream', 'tokens', None),
            (PM + ':_build_value_line', 'buffered_stream', None, None),
            (PM + ':_build_field_with_value', 'buffered_stream', None, exempt)]
    for site, stream, carried, ex in jobs:
        f = src.func(site)
        rep.saw_func(f)
        what = 'every stream item is yielded exactly once, in order (incl. end-of-stream)'
        # the loop-carried list (if any): a local initialised to [] before the main loop
        carried = None
        for st_ in f.node.body:
            if isinstance(st_, ast.For):
                break
            if isinstance(st_, ast.Assign) and len(st_.targets) == 1 and isinstance(st_.targets[0], ast.Name) and isinstance(st_.value, ast.List) and not st_.value.elts:
                carried = st_.targets[0].id
        try:
            report = pieces.analyse_loop(f.node, stream, carried=carried, exempt=ex)
        except pieces.Violation as v:
            rep.fail('C01.R4', f.site, what, str(v)[:400], where=f.where)
            continue
        rep.analysed['paths'] += len(report)
        rep.ok('C01.R4', f.site, what, '%d paths conserve the stream%s' % (len(report), ' (1 dead parse-error branch exempted)' if ex else ''))
    # the exemption's reason: the tokenizer yields the separator right after every field name
    f = src.func(TK + ':tokenize_deb822_file')
    ys = [n for n in walk_no_nested(f.node) if isinstance(n, ast.Expr) and isinstance(n.value, ast.Yield)]
    ys.sort(key=lambda n: n.lineno)
    names = [norm(y.value.value.func) if isinstance(y.value.value, ast.Call) else '?' for y in ys]
    ok = True
    for i, nme in enumerate(names):
        if nme == 'Deb822FieldNameToken':
            nxt = ys[i + 1] if i + 1 < len(ys) else None
            if nxt is None or names[i + 1] != 'Deb822FieldSeparatorToken' or nxt._parent is not ys[i]._parent:
                ok = False
    if ok and 'Deb822FieldNameToken' in names:
        rep.ok('C01.R4', f.site, 'exemption holds: a field name token is always followed by the separator token', 'adjacent unconditional yields', nontrivial=False)
    else:
        rep.fail('C01.R4', f.site, 'exemption holds: a field name token is always followed by the separator token',
                 'the tokenizer can yield a field name without the separator: the exempted parse-error branch of _build_field_with_value (which drops a pending comment) becomes reachable',
                 where=f.where)


def r5_element_order(rep, src, rep_parts=None):
    m = src.mod(PM)
    n = 0
    for cname, cdef in sorted(m.classes.items()):
        if 'Deb822Element' not in m.mro(cname) or cname == 'Deb822Element':
            continue
        init = m.funcs.get(cname + '.__init__')
        ip = m.funcs.get(cname + '.iter_parts')
        if init is None or ip is None:
            continue
        params = init.params()[1:]
        # attribute <- parameter stores
        stored = {}
        for st in walk_no_nested(init.node):
            if isinstance(st, (ast.Assign, ast.AnnAssign)):
                tgt = st.targets[0] if isinstance(st, ast.Assign) else st.target
                val = st.value
                if isinstance(tgt, ast.Attribute) and norm(tgt.value) == 'self' and isinstance(val, ast.Name) and val.id in params:
                    stored[tgt.attr] = val.id
        if len(stored) < 2:
            continue
        # order of first mention of the stored attributes in iter_parts (following same-class helpers one level)
        seq = []

        def mentions(fn, depth=0):
            for node in sorted([x for x in ast.walk(fn.node) if isinstance(x, (ast.Attribute, ast.Call))], key=lambda x: (x.lineno, x.col_offset)):
                if isinstance(node, ast.Attribute) and norm(node.value) == 'self' and node.attr in stored and stored[node.attr] not in seq:
                    if isinstance(getattr(node, '_parent', None), (ast.If,)) or _in_test(node):
                        continue
                    seq.append(stored[node.attr])
                elif isinstance(node, ast.Call) and isinstance(node.func, ast.Attribute) and norm(node.func.value) == 'self' and depth < 2:
                    callee = m.funcs.get('%s.%s' % (cname, node.func.attr))
                    if callee is not None:
                        mentions(callee, depth + 1)
        mentions(ip)
        want = [p for p in params if p in stored.values()]
        n += 1
        if seq == want:
            (rep_parts or rep).ok('C01.R5', ip.site, 'iter_parts yields the stored parts in constructor order', ' '.join(want))
        else:
            missing = [p for p in want if p not in seq]
            (rep_parts or rep).fail('C01.R5', ip.site, 'iter_parts yields the stored parts in constructor order',
                     'constructor stores %s but iter_parts enumerates %s%s: tokens are dropped or re-ordered on dump' % (want, seq, ' (missing: %s)' % missing if missing else ''),
                     where=ip.where)
    if n < 2:
        raise AnalysisError('only %d element classes with several stored parts found' % n)
    it = src.func(PM + ':Deb822Element.iter_tokens')
    rep.saw_func(it)
    what = 'tokens are enumerated by recursing in iter_parts order'
    try:
        report = pieces.analyse_loop(it.node, 'self.iter_parts()', carried=None, recurse_attr='iter_tokens')
        rep.ok('C01.R5', it.site, what, 'every part is yielded or recursed into exactly once, in order (%d paths)' % len(report))
    except pieces.Violation as v:
        rep.fail('C01.R5', it.site, what, 'iter_tokens does not enumerate every part of iter_parts() once, in order: %s' % str(v)[:200], where=it.where)
    for site in (PM + ':Deb822Element.convert_to_text', PM + ':Deb822FileElement.dump', PM + ':Deb822ParagraphElement.dump'):
        d = src.func(site)
        rep.saw_func(d)
        dnode, _ = normalize.inline_helpers(d, only=('convert_to_text',))
        verdict = _concat_of_all_tokens(dnode)
        if verdict is True:
            rep.ok('C01.R5', d.site, 'text = concatenation of all token texts', 'no filter, empty separator')
        elif verdict is None:
            raise AnalysisError('%s: the way the text is assembled is outside the recognised idioms' % d.site)
        else:
            rep.fail('C01.R5', d.site, 'text = concatenation of all token texts', 'the dump does not concatenate the text of every token in order: ' + verdict, where=d.where)
    # paragraph classes: iter_parts enumerates the fields through the order structure (interpreted on symbolic heaps)
    from . import C10
    from .. import heap as H
    A, B, C = H.Key('a', 'A'), H.Key('b', 'B'), H.Key('c', 'C')
    for cname in (C10.DUP, C10.NOD):
        ipf = src.func('%s:%s.iter_parts' % (PM, cname))
        rep.saw_func(ipf)
        heap = C10.mk_heap(src, [])
        if cname == C10.DUP:
            para, kvs, _nodes = C10.build_dup(heap, [A, B, A, C])
            want = [k.name for k in kvs]
        else:
            keys = [B, A, C]
            lst, nodes = H.build_list(heap, keys)
            table = heap.new_dict('@table')
            for k, n in zip(keys, nodes):
                heap.objs[table.name]['entries'].append((k, n))
            oset = heap.alloc('OrderedSet', {_OS_FIELDS(src)[0]: table, _OS_FIELDS(src)[1]: lst}, name='@set')
            d = heap.new_dict('@elements')
            want = []
            kvd = {k.cls: C10.mk_kv(heap, k, k.cls + '0') for k in keys}
            for k in [A, B, C]:      # dictionary order differs from field order on purpose
                heap.objs[d.name]['entries'].append((k, kvd[k.cls]))
            want = [kvd[k.cls].name for k in keys]
            para = heap.alloc(cname, {'_kvpair_order': oset, '_kvpair_elements': d, 'parent_element': None}, name='@para')
        fn, it, clo, _a = C10.run_method(src, heap, para, cname, 'iter_parts', [])
        try:
            got = [getattr(x, 'name', repr(x)) for x in it.seq(it.call(clo, []))]
        except H.Raised as x:
            got = 'raises %s' % x.exc
        if got == want:
            rep.ok('C01.R5', ipf.site, 'paragraph parts follow the field order structure', ' '.join(want))
        else:
            rep.fail('C01.R5', ipf.site, 'paragraph parts follow the field order structure',
                     'iter_parts enumerates %s although the order structure holds %s' % (got, want), where=ipf.where)


def r5b_tokens_by_interpretation(rep, src):
    """iter_tokens, convert_to_text and both dump() methods interpreted (sa.heap, lazy generators) on a model tree -- an element whose parts
    are tokens and elements, three levels deep, with an element without parts -- : the tokens come out once each in document order, the
    text is the concatenation of their texts, dump() returns it and dump(fd) writes its UTF-8 bytes in that order.  However the walk is
    written (recursion, an explicit stack, a helper of the base class)."""
    from .. import heap as H
    mod = src.mod(PM)
    texts = {'T1': 'A: ', 'T2': 'b\n', 'T3': ' c', 'T4': '\u00e9\n', 'T5': '#x\n', 'T6': '\n'}
    # root: [T1, E1, T5, E3, T6]   E1: [T2, E2, T4]   E2: [T3]   E3: []
    TREE = {'root': ['T1', 'E1', 'T5', 'E3', 'T6'], 'E1': ['T2', 'E2', 'T4'], 'E2': ['T3'], 'E3': []}
    ORDER = ['T1', 'T2', 'T3', 'T4', 'T5', 'T6']
    n = 0
    for cname, meths in (('Deb822Element', ('iter_tokens', 'convert_to_text')), ('Deb822FileElement', ('dump', 'dump(fd)', 'convert_to_text')),
                         ('Deb822ParagraphElement', ('dump', 'dump(fd)'))):
        for meth in meths:
            written = []

            def parts_hook(it, a, k):
                o = it.h.objs[a[0].name]
                if '#parts' not in o:
                    raise AnalysisError('iter_parts of %s' % a[0].name)
                return H.PyIter(list(o['#parts']))
            heap = H.Heap(mod, extra_modules=[src.mod('_util'), src.mod(TK), src.mod('_deb822_repro._util')],
                          hooks={'.iter_parts': parts_hook, '.write': lambda it, a, k: written.append(a[1])})
            objs = {}
            for t_, text in texts.items():
                objs[t_] = heap.alloc('Deb822Token', {'_text': text, 'text': text, '_parent_element': 'set', 'parent_element': 'set'}, name='@' + t_)
            for e_ in ('E3', 'E2', 'E1', 'root'):
                objs[e_] = heap.alloc(cname if e_ == 'root' else 'Deb822Element', {'_parent_element': 'set', 'parent_element': 'set', '_text_cached': None}, name='@' + e_)
            for e_, ps in TREE.items():
                heap.objs[objs[e_].name]['#parts'] = [objs[p_] for p_ in ps]
            it = H.Interp(heap)
            f = mod.method(cname, meth.split('(')[0])
            if f is None:
                raise AnalysisError('%s:%s.%s not found' % (PM, cname, meth))
            rep.saw_func(f)
            fd = heap.alloc('File', {}, name='@fd')
            n += 1
            what = '%s.%s on a model tree' % (cname, meth)
            want_text = ''.join(texts[t_] for t_ in ORDER)
            try:
                r = it.call(H.Closure(f.node, {}, objs['root'], f.cls), [fd] if meth == 'dump(fd)' else [])
                if meth == 'iter_tokens':
                    got = [x.name[1:] if isinstance(x, H.Ref) else x for x in it.seq(r)]
                    want = ORDER
                elif meth == 'dump(fd)':
                    got, want = b''.join(w_ if isinstance(w_, bytes) else repr(w_).encode() for w_ in written), want_text.encode('utf-8')
                else:
                    got, want = (r.concrete() if hasattr(r, 'concrete') else r), want_text
            except H.Raised as x:
                got, want = 'raises %s (line %d)' % (x.exc, x.lineno), None
            if got == want:
                rep.ok('C01.R5', f.site, what, 'every token once, in document order')
            else:
                rep.fail('C01.R5', f.site, what, 'on the tree root[T1 E1[T2 E2[T3] T4] T5 E3[] T6] the result is %r; the tokens in document order give %r: tokens are dropped, repeated '
                         'or re-ordered' % (got, want if want is not None else ORDER), where=f.where)
    rep.analysed['paths'] += n


def r5c_parts_by_interpretation(rep, src):
    """the element classes that are built from several parts (a value line, a field): the constructor and iter_parts interpreted (sa.heap) on
    stand-in parts -- every part present, and each optional part absent in turn (where the constructor accepts that) -- give the parts
    that were handed in, each once, in the order of the constructor's parameters (a part that is a list: its items in order).  However
    iter_parts is written (tests, filter(None, ...), helpers, a local bound on the way)."""
    from .. import heap as H
    m = src.mod(PM)
    n = 0
    for cname in sorted(m.classes):
        if 'Deb822Element' not in m.mro(cname) or cname == 'Deb822Element':
            continue
        init = m.funcs.get(cname + '.__init__')
        ip = m.funcs.get(cname + '.iter_parts')
        if init is None or ip is None or len(init.params()) < 3 or init.node.args.vararg or init.node.args.kwarg:
            continue
        params = init.params()[1:]
        if any(p_.startswith('kvpair') for p_ in params):
            continue          # the paragraph classes: their parts follow the field order structure (below)
        rep.saw_func(ip)
        is_list = {p_: (p_.endswith('s') or any(w_ in p_ for w_ in ('parts', 'tokens', 'elements', 'lines'))) for p_ in params}
        runs = [(None, 'every part present')] + [(p_, 'without %s' % p_) for p_ in params if not is_list[p_]]
        bad = None
        accepted = 0
        for absent, label in runs:
            heap = H.Heap(m, extra_modules=[src.mod('_util'), src.mod(TK), src.mod('_deb822_repro._util')])
            it = H.Interp(heap)
            args, want = [], []
            for p_ in params:
                if p_ == absent:
                    args.append(None)
                elif is_list[p_]:
                    items = [heap.alloc('Deb822Token', {'_text': 'x', 'text': 'x', '_parent_element': None}, name='@%s_%d' % (p_, k_)) for k_ in (1, 2)]
                    args.append(heap.new_list(items))
                    want += [x_.name for x_ in items]
                else:
                    t_ = heap.alloc('Deb822Token', {'_text': 'x', 'text': 'x', '_parent_element': None}, name='@' + p_)
                    args.append(t_)
                    want.append(t_.name)
            me = heap.alloc(cname, {})
            try:
                it.call(H.Closure(init.node, {}, me, init.cls), args)
            except H.Raised:
                continue          # the constructor refuses this combination
            accepted += 1
            try:
                got = [x_.name if isinstance(x_, H.Ref) else repr(x_) for x_ in it.seq(it.call(H.Closure(ip.node, {}, me, ip.cls), []))]
            except H.Raised as x:
                got = 'raises %s (line %d)' % (x.exc, x.lineno)
            if got != want and bad is None:
                bad = '%s: iter_parts gives %s; the parts handed to the constructor are %s' % (label, got if isinstance(got, str) else ' '.join(g_.lstrip('@') for g_ in got) or 'nothing',
                                                                                          ' '.join(w_.lstrip('@') for w_ in want))
        if not accepted:
            raise AnalysisError('%s: the constructor refuses every stand-in combination' % ip.site)
        n += 1
        what = 'iter_parts gives the parts the element was built from, in constructor order (interpreted)'
        if bad:
            rep.fail('C01.R5', ip.site, what, bad + ': tokens are dropped, repeated or re-ordered on dump', where=ip.where)
        else:
            rep.ok('C01.R5', ip.site, what, '%d combination(s) of present / absent parts' % accepted)
    if n < 2:
        raise AnalysisError('only %d element classes with several parts interpreted' % n)


def r11_tokenizer_end_to_end(rep, src, tier):
    """the tokenizer interpreted (sa.heap: the real BufferingIterator, its look-ahead and the regexes through CPython's engine) on every
    list of up to two (thorough: three) lines over the line classes of the format -- field, field without value, continuation, empty,
    whitespace-only, comment, a line that is none of these -- in the three input modes (every line terminated; the last line
    unterminated; NO line terminated, the mode in which the tokenizer supplies the line ends): it returns, and the texts of the tokens
    concatenate to the lines (each followed by a line end in the third mode)."""
    import itertools
    from .. import heap as H
    mod = src.mod(TK)
    f = src.func(TK + ':tokenize_deb822_file')
    rep.saw_func(f)
    KINDS = ['A: b', 'Cc:', ' more', '', '  ', '# note', 'not a field']
    lists = [list(t_) for n_ in range(0, 3) for t_ in itertools.product(KINDS, repeat=n_)]
    if tier == 'thorough':
        lists += [list(t_) for t_ in itertools.product(KINDS, repeat=3)]
    else:
        lists += [['A: b', ' more', 'Cc:'], ['# note', 'A: b', ''], ['A: b', '', 'Cc:'], ['  ', '  ', 'A: b'], ['not a field', 'A: b', ' more'], ['A: b', 'Cc:', 'A: b', 'Cc:']]
    n, bad = 0, None
    for body in lists:
        for mode in ('every line terminated', 'the last line unterminated', 'no line terminated'):
            if mode == 'the last line unterminated' and not body:
                continue
            if mode == 'no line terminated' and len(body) < 2:
                continue
            if mode == 'every line terminated':
                lines = [l_ + '\n' for l_ in body]
            elif mode == 'the last line unterminated':
                lines = [l_ + '\n' for l_ in body[:-1]] + [body[-1]]
                if body[-1] == '':
                    continue          # (an empty string is not a line)
            else:
                lines = list(body)
                if '' in body[:1]:
                    continue          # (the mode is recognised by a first line that is text without a line end)
            want = ''.join(lines) if mode != 'no line terminated' else ''.join(l_ + '\n' for l_ in lines)
            heap = H.Heap(mod, extra_modules=[src.mod('_deb822_repro._util'), src.mod('_util')],
                          hooks={'sys.intern': lambda it, a, k: a[0], '_strI': lambda it, a, k: a[0], '_CaseInsensitiveString': lambda it, a, k: a[0]})
            heap.native_regex = True
            it = H.Interp(heap)
            n += 1
            try:
                toks = it.seq(it.call(H.Closure(f.node, {}, None, None), [heap.new_list(list(lines))]))
                texts = [heap.objs[t_.name].get('_text') for t_ in toks]
                got = ''.join(texts) if all(isinstance(x_, str) for x_ in texts) else texts
            except H.Raised as x:
                got = 'raises %s (line %d)' % (x.exc, x.lineno)
            if got != want and bad is None:
                bad = 'the lines %r (%s): the tokenizer %s; the token texts must concatenate to %r' % (lines, mode, got if isinstance(got, str) and got.startswith('raises') else 'gives %r' % (got,), want)
    rep.analysed['paths'] += n
    what = 'token texts concatenate to the input lines (interpreted line lists, three input modes)'
    if bad:
        rep.fail('C01.R11', f.site, what, bad, where=f.where)
    else:
        rep.ok('C01.R11', f.site, what, '%d line lists' % n)


def r12_parser_end_to_end(rep, src, tier):
    """the whole parser by interpretation: parse_deb822_file in its accepting mode (sa.heap: the tokenizer, every re-grouping stage, the
    buffering iterators and the element constructors as written) on line lists over the line classes of the format -- field, field
    without value, continuation, empty, whitespace-only, comment, a line that is none of these -- in the three input modes; it returns a
    document whose text is the input (each line followed by a line end where the tokenizer supplies them).  An invalid line in front
    of continuation lines, a comment between them, a continuation line with nothing to continue are members of the family."""
    import itertools
    from .. import heap as H
    mod = src.mod(PM)
    f = src.func(PM + ':parse_deb822_file')
    rep.saw_func(f)
    KINDS = ['A: b', 'Cc:', ' more', '', '  ', '# note', 'not a field']
    lists = [list(t_) for n_ in range(1, 3) for t_ in itertools.product(KINDS, repeat=n_)]
    lists += [['Source: hello', 'Build-Depends debhelper,', ' libfoo-dev'], ['not a field', ' more', ' more'], ['A: b', '# note', ' more', 'Cc:'], ['A: b', ' more', '', 'Cc:', ' more'],
              ['# note', 'A: b', ' more', '# note', ' more', '', '# note', ''], ['A: b', 'A: b', 'Cc:', 'A: b'], ['not a field', '# note', ' more', 'A: b'], [' more', 'A: b', 'not a field', 'Cc:', ' more']]
    if tier == 'thorough':
        lists += [list(t_) for t_ in itertools.product(KINDS, repeat=3)]
    n, bad = 0, None
    for body in lists:
        for mode in ('every line terminated', 'the last line unterminated', 'no line terminated'):
            if mode == 'the last line unterminated' and (not body or body[-1] == ''):
                continue
            if mode == 'no line terminated' and (len(body) < 2 or '' in body[:1]):
                continue
            if mode != 'every line terminated' and tier != 'thorough' and len(body) == 2 and n % 3:
                pass
            if mode == 'every line terminated':
                lines = [l_ + '\n' for l_ in body]
            elif mode == 'the last line unterminated':
                lines = [l_ + '\n' for l_ in body[:-1]] + [body[-1]]
            else:
                lines = list(body)
            want = ''.join(lines) if mode != 'no line terminated' else ''.join(l_ + '\n' for l_ in lines)
            heap = H.Heap(mod, extra_modules=[src.mod(TK), src.mod('_deb822_repro._util'), src.mod('_util')],
                          hooks={'sys.intern': lambda it, a, k: a[0], '_strI': lambda it, a, k: H.Key(a[0].lower(), a[0]) if isinstance(a[0], str) else a[0]})
            heap.native_regex = True
            it = H.Interp(heap)
            n += 1
            try:
                doc = it.call(H.Closure(f.node, {}, None, None), [heap.new_list(list(lines))], {'accept_files_with_error_tokens': True, 'accept_files_with_duplicated_fields': True})
                m_ = mod.method(heap.objs[doc.name]['__class__'], 'convert_to_text') if isinstance(doc, H.Ref) else None
                if m_ is None:
                    raise AnalysisError('%s returns %r' % (f.site, doc))
                got = it.call(H.Closure(m_.node, {}, doc, m_.cls), [])
                got = got.concrete() if hasattr(got, 'concrete') else got
            except H.Raised as x:
                got = ('raises', '%s (line %d)' % (x.exc, x.lineno))
            if got != want and bad is None:
                bad = 'the lines %r (%s): the parser in its accepting mode %s; the text of the document must be %r' % (
                    lines, mode, 'raises %s' % got[1] if isinstance(got, tuple) else 'gives a document whose text is %r' % (got,), want)
    rep.analysed['paths'] += n
    what = 'the accepting parser returns a document whose text is the input (interpreted line lists, three input modes)'
    if bad:
        rep.fail('C01.R12', f.site, what, bad, where=f.where)
    else:
        rep.ok('C01.R12', f.site, what, '%d line lists' % n)


def _concat_of_all_tokens(fnode):
    """True / reason string / None (unrecognised) for "some return value is ''.join(<t.text for every t in self.iter_tokens()>)" """
    lists = {}
    for st in walk_no_nested(fnode):
        if isinstance(st, ast.Assign) and len(st.targets) == 1 and isinstance(st.targets[0], ast.Name) and isinstance(st.value, ast.List) and not st.value.elts:
            lists[st.targets[0].id] = []
    for st in walk_no_nested(fnode):
        if isinstance(st, ast.For) and norm(st.iter) == 'self.iter_tokens()' and isinstance(st.target, ast.Name):
            for b in st.body:
                if isinstance(b, ast.Expr) and isinstance(b.value, ast.Call) and isinstance(b.value.func, ast.Attribute) and b.value.func.attr == 'append' \
                        and isinstance(b.value.func.value, ast.Name) and b.value.func.value.id in lists and len(st.body) == 1:
                    lists[b.value.func.value.id].append((st.target.id, b.value.args[0]))
    verdicts = []
    for r in walk_no_nested(fnode):
        if not (isinstance(r, ast.Return) and isinstance(r.value, ast.Call) and isinstance(r.value.func, ast.Attribute) and r.value.func.attr == 'join'
                and len(r.value.args) == 1):
            continue
        sep = r.value.func.value
        if not (isinstance(sep, ast.Constant) and sep.value == ''):
            verdicts.append('the separator is %s' % norm(sep))
            continue
        x = r.value.args[0]
        while isinstance(x, ast.Call) and norm(x.func) in ('list', 'tuple', 'iter') and len(x.args) == 1:
            x = x.args[0]
        if isinstance(x, (ast.GeneratorExp, ast.ListComp)):
            if len(x.generators) != 1 or norm(x.generators[0].iter) != 'self.iter_tokens()':
                verdicts.append('it does not iterate over self.iter_tokens()')
            elif x.generators[0].ifs:
                verdicts.append('tokens are filtered by `%s`' % norm(x.generators[0].ifs[0]))
            elif norm(x.elt) != norm(x.generators[0].target) + '.text':
                verdicts.append('the joined pieces are %s, not the token text' % norm(x.elt))
            else:
                verdicts.append(True)
        elif isinstance(x, ast.Call) and norm(x.func) == 'map' and len(x.args) == 2 and norm(x.args[1]) == 'self.iter_tokens()':
            fn = x.args[0]
            ok = (isinstance(fn, ast.Lambda) and len(fn.args.args) == 1 and norm(fn.body) == fn.args.args[0].arg + '.text') or \
                norm(fn) in ("operator.attrgetter('text')", "attrgetter('text')")
            verdicts.append(True if ok else 'the mapped function is %s' % norm(fn))
        elif isinstance(x, ast.Name) and x.id in lists:
            ent = lists[x.id]
            if len(ent) == 1 and norm(ent[0][1]) == ent[0][0] + '.text':
                verdicts.append(True)
            else:
                verdicts.append('the list is not filled with the text of every token')
    if any(v is True for v in verdicts) and all(v is True for v in verdicts):
        return True
    bad = [v for v in verdicts if v is not True]
    return bad[0] if bad else None


def _in_test(node):
    n = node
    while getattr(n, '_parent', None) is not None:
        p = n._parent
        if isinstance(p, ast.If) and any(n is x for x in ast.walk(p.test)):
            return True
        if isinstance(p, ast.stmt):
            return False
        n = p
    return False


def r8_token_invariants(rep, src):
    """the accepting parser must not fail in a token constructor: every token class the tokenizers build is constructed (by
    interpretation of __init__ and the validators it calls) on a symbolic text ranging over everything a tokenizer can hand
    it -- a whole line for comment and error tokens, runs of whitespace lines for whitespace tokens, a newline-free piece of a
    line otherwise; where a validator's decision depends on the text the case is split on its language"""
    from .. import heap as H, symstr
    from ..symstr import SStr
    mod = src.mod(TK)
    built = set()
    for q, fn in mod.funcs.items():
        for n in ast.walk(fn.node):
            if isinstance(n, (ast.Yield,)) and isinstance(n.value, ast.Call) and isinstance(n.value.func, ast.Name) and n.value.func.id in mod.classes:
                built.add((n.value.func.id, len(n.value.args)))
    if len(built) < 8:
        raise AnalysisError('%s: only %d token constructions found in the tokenizers' % (TK, len(built)))
    NONL, WSP = r'[^\n]', r'[^\S\n]'
    # texts as templates over atoms (so that find / slicing / endswith are decided structurally): (description, atoms, builder)
    comment = [('a comment line', {'A': NONL + '*'}, lambda a: SStr(['#']) + a['A'] + '\n'), ('an unterminated comment line', {'A': NONL + '*'}, lambda a: SStr(['#']) + a['A'])]
    anyline = [('a whole line', {'A': NONL + '+'}, lambda a: a['A'] + '\n'), ('an unterminated line', {'A': NONL + '+'}, lambda a: a['A'])]
    white = [('whitespace without newline', {'A': WSP + '+'}, lambda a: a['A']), ('a whitespace line', {'A': WSP + '*'}, lambda a: a['A'] + '\n'),
             ('two merged whitespace lines', {'A': WSP + '*', 'B': WSP + '*'}, lambda a: a['A'] + '\n' + a['B'] + '\n')]
    piece = [('a piece of a line', {'A': NONL + '+'}, lambda a: a['A'])]
    n = 0
    for cls_, nargs in sorted(built):
        mro = mod.mro(cls_)
        site = '%s:%s' % (TK, cls_)
        what = 'constructor accepts every text the tokenizer can hand it'
        if nargs == 0:
            shapes = [('no argument', {}, None)]
        elif 'Deb822CommentToken' in mro:
            shapes = comment
        elif 'Deb822ErrorToken' in mro:
            shapes = anyline
        elif 'Deb822WhitespaceToken' in mro:
            shapes = white
        else:
            shapes = piece
        bad = None
        ncases = 0
        for desc, atoms, mk in shapes:
            def body(at, cls_=cls_, mk=mk):
                # _strI (a str subclass from another module) and sys.intern preserve the text
                heap = H.Heap(mod, hooks={'_strI': lambda it_, a_, k_: a_[0], 'sys.intern': lambda it_, a_, k_: a_[0]})
                heap.symbolic_strings = True
                it = H.Interp(heap)
                call = ast.parse('%s(%s)' % (cls_, 'T' if mk else ''), mode='eval').body
                text = mk(at) if mk else None
                try:
                    it.ev(call, {'T': text}, None)
                    return None
                except H.Raised as x:
                    return (x.exc, x.lineno, text)
            results = symstr.explore(atoms, body) if atoms else [({}, body({}))]
            ncases += len(results)
            for langs, r in results:
                if r is not None and bad is None:
                    w = ''.join(p_ if isinstance(p_, str) else (langs[p_.name].witness() or '') for p_ in r[2].parts) if r[2] is not None else None
                    bad = (desc, r[0], r[1], w)
        n += ncases
        if bad:
            desc, exc, line, w = bad
            rep.fail('C01.R8', site, what, 'the tokenizer can build %s(%r) (%s), whose constructor raises %s (line %d): the accepting parser fails on that input'
                     % (cls_, w, desc, exc, line), detail={'witness': w})
        else:
            rep.ok('C01.R8', site, what, '%d shape(s), %d case(s), none raises' % (len(shapes), ncases))
    rep.analysed['paths'] += n


def r9_duplicate_detection(rep, src):
    """from_kvpairs interpreted on paragraphs whose field names are case-insensitive keys: the implementation without
    duplicate support (dictionary keyed by the case-insensitive name) may only be chosen when no two names are equal under
    that equality; otherwise the earlier field would be overwritten in the dictionary and vanish from the dump"""
    from .. import heap as H
    mods = [src.mod(PM), src.mod('_util')]
    f = src.func(PM + ':Deb822ParagraphElement.from_kvpairs')
    rep.saw_func(f)

    def run(names):
        made = []

        def mk(cls_):
            def hook(it, args, kw):
                made.append(cls_)
                return it.h.alloc(cls_, {})
            return hook
        heap = H.Heap(mods[0], extra_modules=[mods[1]],
                      hooks={'Deb822NoDuplicateFieldsParagraphElement': mk('no-duplicates'), 'Deb822DuplicateFieldsParagraphElement': mk('duplicates'),
                             'str': lambda it, a, k: a[0].spelling if isinstance(a[0], H.Key) else a[0],
                             '.lower': lambda it, a, k: H.Key(a[0].cls, a[0].cls) if isinstance(a[0], H.Key) else NotImplemented})
        kvs = [heap.alloc('Deb822KeyValuePairElement', {'field_name': n_}) for n_ in names]
        try:
            H.Interp(heap).call(H.Closure(f.node, {}, ('class', 'Deb822ParagraphElement'), f.cls), [heap.new_list(kvs)])
        except H.Raised as x:
            return 'raises ' + x.exc
        return made[0] if len(made) == 1 else repr(made)
    A, a_, B = H.Key('depends', 'Depends'), H.Key('depends', 'depends'), H.Key('source', 'Source')
    cases = [('distinct names', [A, B], ('no-duplicates', 'duplicates')), ('the same name twice', [A, B, A], ('duplicates',)),
             ('two spellings of one name', [A, a_], ('duplicates',)), ('two spellings of one name among others', [B, a_, A], ('duplicates',))]
    for label, names, want in cases:
        got = run(names)
        if got in want:
            rep.ok('C01.R9', f.site, 'implementation chosen for ' + label, got)
        else:
            rep.fail('C01.R9', f.site, 'implementation chosen for ' + label, 'a paragraph with the fields %s is built as %s: the implementation keyed by the case-insensitive '
                     'name keeps only the last of the fields that are equal under it, so the earlier field (with its comments) vanishes from the dump'
                     % ([n_.spelling for n_ in names], got), where=f.where)


def r3b_line_source(rep, src):
    """what reaches the line loop is what the caller passed: the local generator(s) that prepare the lines (bytes → str) yield every
    item exactly once, the str ones unchanged and the bytes ones decoded -- decided on the paths of their loop bodies"""
    f = src.func(TK + ':tokenize_deb822_file')
    gens = [n for n in f.node.body if isinstance(n, ast.FunctionDef) and any(isinstance(x, (ast.Yield, ast.YieldFrom)) for x in ast.walk(n))]
    n_gen = 0
    for gfn in gens:
        used = any(isinstance(c, ast.Call) and isinstance(c.func, ast.Name) and c.func.id == gfn.name for st in f.node.body if st is not gfn for c in ast.walk(st))
        if not used:
            continue
        n_gen += 1
        site = '%s.%s' % (f.site, gfn.name)
        what = 'line source %s yields the items unchanged' % gfn.name
        loops = [s_ for s_ in gfn.body if isinstance(s_, ast.For)]
        others = [s_ for s_ in gfn.body if not isinstance(s_, ast.For) and not (isinstance(s_, ast.Expr) and isinstance(s_.value, ast.Constant))]
        if len(loops) != 1 or others or not gfn.args.args or any(isinstance(x, ast.YieldFrom) for x in ast.walk(gfn)):
            raise AnalysisError('%s: not a single loop over the items' % site)
        lp = loops[0]
        var = lp.target
        if isinstance(var, ast.Tuple) and isinstance(lp.iter, ast.Call) and norm(lp.iter.func) == 'enumerate' and len(var.elts) == 2:
            var = var.elts[1]
            src_it = lp.iter.args[0]
        else:
            src_it = lp.iter
        if not isinstance(var, ast.Name) or norm(src_it) != gfn.args.args[0].arg:
            raise AnalysisError('%s: the loop does not run over the items of its argument' % site)
        v = var.id
        bad = None
        ps = paths.Enumerator(paths.Folder()).run(lp.body, [paths.Path()])
        for p_ in ps:
            if p_.outcome is not None and p_.outcome[0] == 'raise':
                continue
            ys = [ev[1].value.value for ev in p_.events if ev[0] == 'effect' and isinstance(ev[1], ast.Expr) and isinstance(ev[1].value, ast.Yield)]
            is_bytes = None
            for t_, pol in p_.conds:
                if isinstance(t_, ast.Call) and norm(t_.func) == 'isinstance' and len(t_.args) == 2 and norm(t_.args[0]) == v:
                    if norm(t_.args[1]) == 'bytes':
                        is_bytes = pol
                    elif norm(t_.args[1]) == 'str':
                        is_bytes = not pol
            if len(ys) != 1:
                bad = bad or 'on the path [%s] an item is yielded %d times' % (p_.describe()[:100], len(ys))
                continue
            y = ys[0]
            if norm(y) == v and is_bytes is not True:
                continue
            if isinstance(y, ast.Call) and isinstance(y.func, ast.Attribute) and y.func.attr == 'decode' and norm(y.func.value) == v and is_bytes is True:
                continue
            bad = bad or 'on the path [%s] the item reaches the tokenizer as `%s`' % (p_.describe()[:110], norm(y)[:50])
        if bad:
            rep.fail('C01.R3', site, what, bad + ': characters of the input are not part of any token, so the dump differs from the input', where='%s:%d' % (f.module.relpath, gfn.lineno))
        else:
            rep.ok('C01.R3', site, what, '%d path(s): str as it is, bytes decoded' % len(ps))
    # the expression the line iterator is built from: the argument itself, a call of a generator checked above, or a generator
    # expression of the same shape
    param = f.params()[0]
    srcs = [c.args[0] for c in ast.walk(f.node) if isinstance(c, ast.Call) and norm(c.func) == 'BufferingIterator' and c.args]
    if len(srcs) != 1:
        raise AnalysisError('%s: the line iterator (BufferingIterator(...)) was not found' % f.site)
    e = srcs[0]
    if isinstance(e, ast.Name) and e.id != param:
        defs = [st.value for st in f.node.body if isinstance(st, ast.Assign) and len(st.targets) == 1 and norm(st.targets[0]) == e.id]
        if len(defs) == 1:
            e = defs[0]          # a local bound once to the source expression
    if isinstance(e, ast.Name) and e.id == param:
        rep.ok('C01.R3', f.site, 'line source', 'the lines are read from the argument directly', nontrivial=False)
    elif isinstance(e, ast.Call) and isinstance(e.func, ast.Name) and e.func.id in [g_.name for g_ in gens] and [norm(a) for a in e.args] == [param]:
        rep.ok('C01.R3', f.site, 'line source', '%s(%s)' % (e.func.id, param), nontrivial=False)
    elif isinstance(e, ast.GeneratorExp) and len(e.generators) == 1 and not e.generators[0].ifs and isinstance(e.generators[0].target, ast.Name) \
            and norm(e.generators[0].iter) == param:
        v = e.generators[0].target.id
        el = e.elt
        okel = norm(el) == v or (isinstance(el, ast.IfExp) and norm(el.test) == 'isinstance(%s, bytes)' % v and norm(el.orelse) == v
                                 and isinstance(el.body, ast.Call) and isinstance(el.body.func, ast.Attribute) and el.body.func.attr == 'decode' and norm(el.body.func.value) == v) \
            or (isinstance(el, ast.IfExp) and norm(el.test) == 'isinstance(%s, str)' % v and norm(el.body) == v
                and isinstance(el.orelse, ast.Call) and isinstance(el.orelse.func, ast.Attribute) and el.orelse.func.attr == 'decode' and norm(el.orelse.func.value) == v)
        if okel:
            rep.ok('C01.R3', f.site, 'line source', norm(e)[:70], nontrivial=False)
        else:
            rep.fail('C01.R3', f.site, 'line source', 'the items reach the tokenizer as `%s`, not unchanged / decoded' % norm(el)[:60], where=f.where)
    else:
        raise AnalysisError('%s: the line iterator is built from %s, which is outside the recognised sources' % (f.site, norm(e)[:60]))


def check(src, rep, tier):
    rep.explanation = ('C01: (R1) L_match(_RE_FIELD_LINE) ∩ LINE ⊆ L_fullmatch; (R2) on the marked automaton every character of a matched line '
                       'lies in exactly one capturing group, groups in index order; (R3) one iteration of the tokenizer loop is interpreted on a '
                       'symbolic line (helpers followed, both input modes, inside/outside a field): a line the field regex does not match, '
                       'and a matched line given by every feasible combination of participating groups; the yielded token texts must '
                       'concatenate to the line, decisions on the text split the case on its language; the field-name memo is run on two '
                       'spellings of one name; the local generator that prepares the lines yields them unchanged; '
                       '(R4) the three re-grouping generators are interpreted over stream '
                       'positions with the BufferingIterator API modelled; (R5) constructor-parameter order = iter_parts order, dump = join of '
                       'all token texts; (R6) whitespace look-ahead merges only newline-terminated lines / supplies the newline; (R8) every token '
                       'constructor is interpreted on the language of the texts a tokenizer can hand it and never raises; (R9) from_kvpairs interpreted on '
                       'case-insensitive names chooses the duplicate-capable paragraph whenever two names are equal under that equality.')
    rep.not_decided = ['absence of every possible exception beyond the token-invariant obligations', 'bytes lines that are not UTF-8']
    rep.need('C01.R1', 1)
    rep.need('C01.R2', 1)
    rep.need('C01.R3', 4)
    rep.need('C01.R4', 4)
    rep.need('C01.R5', 8)
    rep.need('C01.R6', 2)
    rep.need('C01.R7', 1)
    rep.need('C01.R8', 8)
    rep.need('C01.R9', 4)
    ginfo = rep.guard('C01.R1', r1_r2_field_regex, src)
    loop = None
    if ginfo is not None:
        loop = rep.guard('C01.R3', r3_tokenizer, src, ginfo)
    if loop is not None:
        rep.guard('C01.R6', r6_whitespace_merge, src, loop)
        rep.guard('C01.R7', r7_mode_selection, src, loop)
    rep.guard('C01.R3', r3b_line_source, src)
    rep.guard('C01.R4', r4_regrouping, src)
    n_v, n_e = len(rep.violations), len(rep.errors)
    rep.guard('C01.R5', r5b_tokens_by_interpretation, src)
    walk_holds = len(rep.violations) == n_v and len(rep.errors) == n_e
    n_r5 = sum(1 for i_ in rep.instances if i_.get('rule') == 'C01.R5')
    from . import common as _common
    n_v, n_e = len(rep.violations), len(rep.errors)
    rep.guard('C01.R5', r5c_parts_by_interpretation, src)
    parts_hold = len(rep.violations) == n_v and len(rep.errors) == n_e
    # (the order in which iter_parts MENTIONS the stored attributes: a second opinion behind the interpreted constructor + iter_parts)
    soft_parts = _common.SoftAll(rep, lambda: parts_hold, 'the interpreted constructors and iter_parts (C01.R5), which give the parts in constructor order')
    _common.SoftErrors(rep, lambda: walk_holds, 'the interpreted walks over a model tree (C01.R5), which hold').guard('C01.R5', r5_element_order, src, soft_parts)
    if rep.min_instances.get('C01.R5') == 0:
        rep.min_instances['C01.R5'] = n_r5
    rep.guard('C01.R8', r8_token_invariants, src)
    rep.guard('C01.R9', r9_duplicate_detection, src)
    # the stages of the parse pipeline are built once (at import time) by functions that return a nested generator function: such a
    # stage is a function of its input stream only
    from . import common
    rep.need('C01.R11', 1)
    rep.guard('C01.R11', r11_tokenizer_end_to_end, src, tier)
    rep.need('C01.R12', 1)
    rep.guard('C01.R12', r12_parser_end_to_end, src, tier)
    rep.need('C01.R10', 1)
    rep.guard('C01.R10', common.check_closure_factories, src, 'C01.R10', ['_deb822_repro._util', PM, TK],
              'tokens that a parse left behind (it raised half-way, or its result was not read to the end) are emitted into the next document that is parsed')

"""C01 -- the format-preserving parser is lossless: parse then dump reproduces the input."""
import ast

from .. import rx, pieces
from ..core import AnalysisError, norm, walk_no_nested

META = {
    'design_ref': 'DESIGN.md §3 C01',
    'technique': 'conservation ("piece flow") analyses: character positions of the current line through every path of the tokenizer loop '
                 '(regex groups as consecutive ranges, verified to tile the match on the marked automaton of _RE_FIELD_LINE), stream '
                 'positions through the three re-grouping generators (BufferingIterator API modelled: next/peek/peek_many/takewhile/extend), '
                 'constructor-parameter vs iter_parts order for the element classes, newline-termination attribute for merged whitespace',
    'level_text': 'Static decision on every path: each character of a line is emitted in exactly one token and in order (error and comment '
                  'lines whole), each token/element of the stream is yielded exactly once and in order by the grouping stages (including '
                  'end-of-stream flushes), each element enumerates the parts it stores in constructor order and dump concatenates token '
                  'texts without filter; whitespace lines are only merged when newline terminated (or get their newline in the no-newline '
                  'input mode) so that the token invariant cannot reject the input.',
    'level_note': 'trusted: the two position interpreters (constructs outside their vocabulary are ANALYSIS-ERROR), CPython re parser, '
                  'automata engine; one dead branch (field name not followed by separator+value) is exempted with its reason checked',
}

TK = '_deb822_repro.tokens'
PM = '_deb822_repro.parsing'
UT = '_deb822_repro._util'


def r1_r2_field_regex(rep, src):
    r = src.regex(TK, '_RE_FIELD_LINE')
    rep.saw_regex('tokens:_RE_FIELD_LINE')
    alpha = rx.alphabet('str')
    line = rx.regex_lang(r'[^\n]*\n?', 0, 'fullmatch', alpha=alpha)
    Lm = rx.regex_lang(r['pattern'], r['flags'], 'match', alpha=alpha)
    Lf = rx.regex_lang(r['pattern'], r['flags'], 'fullmatch', alpha=alpha)
    w = Lm.intersect(line).not_subset_witness(Lf)
    site = TK + ':_RE_FIELD_LINE'
    if w is not None:
        rep.fail('C01.R1', site, 'a field-line match covers the whole line', 'the line %r is matched only up to a prefix: the tokenizer emits the groups, so the rest of '
                 'the line (e.g. its line end) is silently dropped' % w, detail={'witness': w})
    else:
        rep.ok('C01.R1', site, 'a field-line match covers the whole line', 'L_match ∩ LINE ⊆ L_fullmatch')
    # group tiling: every character of the match lies in exactly one of the capturing groups, in index order
    tree = rx.parse(r['pattern'], r['flags'])
    ng = tree.state.groups - 1
    names = {v: k for k, v in tree.state.groupdict.items()}
    groups = list(range(1, ng + 1))
    markers = [(k, g) for g in groups for k in ('open', 'close')]
    Rm = rx.regex_lang(r['pattern'], r['flags'], 'fullmatch', groups, markers, alpha)
    nA = alpha.n
    opens = {nA + markers.index(('open', g)): g for g in groups}
    closes = {nA + markers.index(('close', g)): g for g in groups}

    def step(s, sym):
        cur, last = s
        if cur == 'dead':
            return s
        if sym in opens:
            g = opens[sym]
            return (g, last) if (cur is None and g > last) else ('dead', 0)
        if sym in closes:
            g = closes[sym]
            return (None, g) if cur == g else ('dead', 0)
        return s if cur is not None else ('dead', 0)
    tile = rx.from_function(alpha, markers, (None, 0), step, lambda s: s[0] is None)
    w = Rm.intersect(rx.lift(line, markers)).not_subset_witness(tile)
    if w is not None:
        rep.fail('C01.R2', site, 'the capturing groups tile the match', 'in the parse %r some character of the line lies outside every capturing group (or groups nest/overlap): '
                 'the tokenizer, which emits only the groups, loses it' % w, detail={'witness': w})
    else:
        rep.ok('C01.R2', site, 'the capturing groups tile the match', '%d groups (%s) partition every matched line, in order' % (ng, ', '.join(names.get(g, str(g)) for g in groups)))
    # group facts for the character analysis
    info = {}
    for g in groups:
        part = rx.has_group(alpha, markers, g)
        optional = not Rm.minus(part).is_empty()
        const = None
        for cand in (':', '\n', ' '):
            only = rx.regex_lang(rx.literal(cand), 0, 'fullmatch', alpha=alpha)
            if Rm.intersect(part).minus(rx.group_content(alpha, markers, g, only)).is_empty():
                const = cand
        info[g] = dict(name=names.get(g, str(g)), optional=optional, const=const)
    return info


def const_tokens(src):
    """token classes whose constructor passes a constant text to the base class"""
    m = src.mod(TK)
    out = {}
    for cname, cdef in m.classes.items():
        init = m.funcs.get(cname + '.__init__')
        if init is None or len(init.params()) != 1:
            continue
        for c in ast.walk(init.node):
            if isinstance(c, ast.Call) and isinstance(c.func, ast.Attribute) and c.func.attr == '__init__' and len(c.args) == 1 \
                    and isinstance(c.args[0], ast.Constant) and isinstance(c.args[0].value, str):
                out[cname] = c.args[0].value
    return out


def r3_tokenizer(rep, src, ginfo):
    f = src.func(TK + ':tokenize_deb822_file')
    rep.saw_func(f)
    loops = [s for s in f.node.body if isinstance(s, ast.For)]
    if len(loops) != 1:
        raise AnalysisError('%s: line loop not found' % f.site)
    loop = loops[0]
    ct = const_tokens(src)
    if ct.get('Deb822NewlineAfterValueToken') != '\n' or ct.get('Deb822FieldSeparatorToken') != ':':
        rep.fail('C01.R2', TK, 'constant tokens', 'Deb822NewlineAfterValueToken / Deb822FieldSeparatorToken no longer carry "\\n" / ":" (found %r)'
                 % {k: ct.get(k) for k in ('Deb822NewlineAfterValueToken', 'Deb822FieldSeparatorToken')})
        return
    pieces.CONST_TOKENS.clear()
    pieces.CONST_TOKENS.update({k: v for k, v in ct.items() if k in ('Deb822NewlineAfterValueToken', 'Deb822FieldSeparatorToken')})
    order = sorted(ginfo)
    pieces.GROUPS[:] = [ginfo[g]['name'] for g in order]
    pieces.GROUP_CONST.clear()
    pieces.GROUP_CONST.update({i: ginfo[g]['const'] for i, g in enumerate(order) if ginfo[g]['const'] is not None})
    pieces.GROUP_OPTIONAL.clear()
    pieces.GROUP_OPTIONAL.update({i for i, g in enumerate(order) if ginfo[g]['optional']})
    # the loop variable (line) may be the second element of an enumerate target
    total = 0
    for mode in (False, True):
        for cfn in (pieces.NONE, 'set'):
            A = pieces.An()
            st = pieces.St()
            st.env['line'] = pieces.P(pieces.Pos(0), st.L)
            st.env['current_field_name'] = pieces.NONE if cfn is pieces.NONE else pieces.C('x')
            st.env['auto_correct_newlines'] = mode
            st.truth['auto_correct_newlines'] = mode
            what = 'every character of a line is emitted once, in order (%s input, %s)' % ('no-newline' if mode else 'newline-terminated',
                                                                                           'inside a field' if cfn != pieces.NONE else 'outside a field')
            try:
                outs = A.run(loop.body, [st])
            except pieces.Violation as v:
                rep.fail('C01.R3', f.site, what, str(v), where=f.where)
                continue
            bad = None
            n = 0
            for o in outs:
                if o.fin == 'raise':
                    continue
                n += 1
                if not o.env.get('__merged') and not (o.norm(o.done) == o.norm(o.L)):
                    bad = 'a path ends with the characters [%r, %r) of the line not emitted (tokens: %s)' % (
                        o.norm(o.done), o.norm(o.L), ', '.join('%s@L%d' % (t.cls, l) for l, t in o.trace))
                    break
            total += n
            if bad:
                rep.fail('C01.R3', f.site, what, bad, where=f.where)
            elif n == 0:
                rep.fail('C01.R3', f.site, what, 'no path emits anything', where=f.where)
            else:
                rep.ok('C01.R3', f.site, what, '%d paths conserve the line' % n)
    rep.analysed['paths'] += total
    # the field-name memo: a hit must be text-equal to the looked-up name.  The piece analysis assumes
    # `cache.get(k)` is None or text-equal to k; that holds only if the single store is cache[k] = <text-preserving>(k)
    # with the *case-sensitive* lookup key itself as dictionary key.
    gets = [c for c in ast.walk(loop) if isinstance(c, ast.Call) and isinstance(c.func, ast.Attribute) and c.func.attr == 'get'
            and isinstance(c.func.value, ast.Name) and 'cache' in c.func.value.id]
    if gets:
        cache = gets[0].func.value.id
        kvar = norm(gets[0].args[0])
        stores = [s for s in ast.walk(loop) if isinstance(s, ast.Assign) and isinstance(s.targets[0], ast.Subscript) and norm(s.targets[0].value) == cache]
        ok = len(stores) == 1
        why = 'the memo has %d stores' % len(stores)
        if ok:
            st_ = stores[0]
            key = norm(st_.targets[0].slice)
            val = st_.value
            # value must be a name bound to _strI(kvar) (or that call itself)
            vtxt = norm(val)
            bound = [a for a in ast.walk(loop) if isinstance(a, ast.Assign) and norm(a.targets[0]) == vtxt]
            derived = vtxt in ('_strI(%s)' % kvar,) or any(norm(a.value) == '_strI(%s)' % kvar for a in bound)
            if key != kvar:
                ok, why = False, ('the memo is filled under the key `%s` but looked up with `%s`: with a case-insensitive key object a later spelling of the '
                                  'same field hits the entry of an earlier spelling and the token is emitted with the wrong case' % (key, kvar))
            elif not derived:
                ok, why = False, 'the memoised value is not _strI(<looked-up name>)'
        if ok:
            rep.ok('C01.R3', f.site, 'field-name memo returns the looked-up text', '%s[%s] = _strI(%s)' % (cache, kvar, kvar))
        else:
            rep.fail('C01.R3', f.site, 'field-name memo returns the looked-up text', why, where=f.where)
    return loop


def r6_whitespace_merge(rep, src, loop):
    """look-ahead lines joined into a whitespace token: only newline-terminated lines may be merged
    (newline-terminated mode); in the no-newline mode every merged line gets its newline"""
    f = src.func(TK + ':tokenize_deb822_file')
    tw = [c for c in ast.walk(loop) if isinstance(c, ast.Call) and isinstance(c.func, ast.Attribute) and c.func.attr == 'takewhile']
    if not tw:
        raise AnalysisError('%s: look-ahead merge of whitespace lines not found' % f.site)
    problems = []
    seen_modes = set()
    for c in tw:
        lam = c.args[0] if c.args else None
        if not isinstance(lam, ast.Lambda):
            problems.append('the look-ahead predicate is not a lambda')
            continue
        x = lam.args.args[0].arg
        body = norm(lam.body)
        # which mode? governed by an enclosing `if auto_correct_newlines`
        mode = None
        n = c
        while getattr(n, '_parent', None) is not None:
            p = n._parent
            if isinstance(p, ast.If) and norm(p.test) == 'auto_correct_newlines':
                mode = 'auto' if any(n is s or any(n is d for d in ast.walk(s)) for s in p.body) else 'plain'
                break
            n = p
        ends = "%s.endswith('\\n')" % x
        if mode in (None, 'plain'):
            seen_modes.add('plain')
            if ends in body and ('not ' + ends) not in body:
                pass
            else:
                problems.append('in the newline-terminated mode the look-ahead also merges a final line without a newline: the merged token contains a '
                                'newline but does not end with one and Deb822Token rejects it (ValueError on e.g. ["A: b\\n", "\\n", "  "])')
        if mode in (None, 'auto'):
            seen_modes.add('auto')
            # every merged element must be x + "\n"
            par = c._parent
            comp = par
            while comp is not None and not isinstance(comp, (ast.ListComp, ast.GeneratorExp, ast.Assign)):
                comp = getattr(comp, '_parent', None)
            okc = isinstance(comp, (ast.ListComp, ast.GeneratorExp)) and norm(comp.elt) in ("%s + '\\n'" % norm(comp.generators[0].target),)
            if not okc and mode == 'auto':
                problems.append('in the no-newline input mode the merged look-ahead lines are joined without their line ends')
            if mode is None:
                problems.append('in the no-newline input mode the merged look-ahead lines are joined without their line ends (lines run together / the '
                                'token does not end with a newline)')
    what = 'merged whitespace lines form a valid token in both input modes'
    if problems:
        for p in sorted(set(problems)):
            rep.fail('C01.R6', f.site, what, p, where=f.where)
    else:
        rep.ok('C01.R6', f.site, what, 'newline-terminated look-ahead only / newline supplied per merged line')
    # the verifier's demands (read from Deb822Token._verify_token_text) are the ones assumed above
    v = src.func(TK + ':Deb822Token._verify_token_text')
    t = norm(v.node)
    if "if not self.text.endswith('\\n'):" in t and "if '\\n' in self._text:" in t:
        rep.ok('C01.R6', v.site, 'token invariant', 'a text containing a newline must end with one', nontrivial=False)
    else:
        rep.fail('C01.R6', v.site, 'token invariant', 'the token invariant changed; the merge rule must be revisited', where=v.where)


def r4_regrouping(rep, src):
    exempt = [('isinstance(separator, Deb822FieldSeparatorToken) and isinstance(value_element, Deb822ValueElement)', False)]
    jobs = [(UT + ':combine_into_replacement._impl', 'token_stream', 'tokens', None),
            (PM + ':_build_value_line', 'buffered_stream', None, None),
            (PM + ':_build_field_with_value', 'buffered_stream', None, exempt)]
    for site, stream, carried, ex in jobs:
        f = src.func(site)
        rep.saw_func(f)
        what = 'every stream item is yielded exactly once, in order (incl. end-of-stream)'
        try:
            report = pieces.analyse_loop(f.node, stream, carried=carried, exempt=ex)
        except pieces.Violation as v:
            rep.fail('C01.R4', f.site, what, str(v)[:400], where=f.where)
            continue
        rep.analysed['paths'] += len(report)
        rep.ok('C01.R4', f.site, what, '%d paths conserve the stream%s' % (len(report), ' (1 dead parse-error branch exempted)' if ex else ''))
    # the exemption's reason: the tokenizer yields the separator right after every field name
    f = src.func(TK + ':tokenize_deb822_file')
    ys = [n for n in walk_no_nested(f.node) if isinstance(n, ast.Expr) and isinstance(n.value, ast.Yield)]
    ys.sort(key=lambda n: n.lineno)
    names = [norm(y.value.value.func) if isinstance(y.value.value, ast.Call) else '?' for y in ys]
    ok = True
    for i, nme in enumerate(names):
        if nme == 'Deb822FieldNameToken':
            nxt = ys[i + 1] if i + 1 < len(ys) else None
            if nxt is None or names[i + 1] != 'Deb822FieldSeparatorToken' or nxt._parent is not ys[i]._parent:
                ok = False
    if ok and 'Deb822FieldNameToken' in names:
        rep.ok('C01.R4', f.site, 'exemption holds: a field name token is always followed by the separator token', 'adjacent unconditional yields', nontrivial=False)
    else:
        rep.fail('C01.R4', f.site, 'exemption holds: a field name token is always followed by the separator token',
                 'the tokenizer can yield a field name without the separator: the exempted parse-error branch of _build_field_with_value (which drops a pending comment) becomes reachable',
                 where=f.where)


def r5_element_order(rep, src):
    m = src.mod(PM)
    n = 0
    for cname, cdef in sorted(m.classes.items()):
        if 'Deb822Element' not in m.mro(cname) or cname == 'Deb822Element':
            continue
        init = m.funcs.get(cname + '.__init__')
        ip = m.funcs.get(cname + '.iter_parts')
        if init is None or ip is None:
            continue
        params = init.params()[1:]
        # attribute <- parameter stores
        stored = {}
        for st in walk_no_nested(init.node):
            if isinstance(st, (ast.Assign, ast.AnnAssign)):
                tgt = st.targets[0] if isinstance(st, ast.Assign) else st.target
                val = st.value
                if isinstance(tgt, ast.Attribute) and norm(tgt.value) == 'self' and isinstance(val, ast.Name) and val.id in params:
                    stored[tgt.attr] = val.id
        if len(stored) < 2:
            continue
        # order of first mention of the stored attributes in iter_parts (following same-class helpers one level)
        seq = []

        def mentions(fn, depth=0):
            for node in sorted([x for x in ast.walk(fn.node) if isinstance(x, (ast.Attribute, ast.Call))], key=lambda x: (x.lineno, x.col_offset)):
                if isinstance(node, ast.Attribute) and norm(node.value) == 'self' and node.attr in stored and stored[node.attr] not in seq:
                    if isinstance(getattr(node, '_parent', None), (ast.If,)) or _in_test(node):
                        continue
                    seq.append(stored[node.attr])
                elif isinstance(node, ast.Call) and isinstance(node.func, ast.Attribute) and norm(node.func.value) == 'self' and depth < 2:
                    callee = m.funcs.get('%s.%s' % (cname, node.func.attr))
                    if callee is not None:
                        mentions(callee, depth + 1)
        mentions(ip)
        want = [p for p in params if p in stored.values()]
        n += 1
        if seq == want:
            rep.ok('C01.R5', ip.site, 'iter_parts yields the stored parts in constructor order', ' '.join(want))
        else:
            missing = [p for p in want if p not in seq]
            rep.fail('C01.R5', ip.site, 'iter_parts yields the stored parts in constructor order',
                     'constructor stores %s but iter_parts enumerates %s%s: tokens are dropped or re-ordered on dump' % (want, seq, ' (missing: %s)' % missing if missing else ''),
                     where=ip.where)
    if n < 2:
        raise AnalysisError('only %d element classes with several stored parts found' % n)
    it = src.func(PM + ':Deb822Element.iter_tokens')
    t = norm(it.node)
    if 'for part in self.iter_parts():' in t and 'yield from part.iter_tokens()' in t and 'yield part' in t:
        rep.ok('C01.R5', it.site, 'tokens are enumerated by recursing in iter_parts order', 'ok', nontrivial=False)
    else:
        rep.fail('C01.R5', it.site, 'tokens are enumerated by recursing in iter_parts order', 'iter_tokens does not recurse over iter_parts()', where=it.where)
    for site in (PM + ':Deb822Element.convert_to_text', PM + ':Deb822FileElement.dump', PM + ':Deb822ParagraphElement.dump'):
        d = src.func(site)
        t = norm(d.node)
        if "''.join((t.text for t in self.iter_tokens()))" in t and ' if ' not in t.split("''.join")[1].split('\n')[0]:
            rep.ok('C01.R5', d.site, 'text = concatenation of all token texts', 'no filter, empty separator', nontrivial=False)
        else:
            rep.fail('C01.R5', d.site, 'text = concatenation of all token texts', 'the dump does not concatenate the text of every token in order', where=d.where)
    # paragraph classes: iter_parts enumerates the order structure
    for cname, want in (('Deb822NoDuplicateFieldsParagraphElement', 'self._kvpair_elements[x]'), ('Deb822DuplicateFieldsParagraphElement', 'yield from self._kvpair_order')):
        ipf = src.func('%s:%s.iter_parts' % (PM, cname))
        t = norm(ipf.node)
        if want in t and '_kvpair_order' in t:
            rep.ok('C01.R5', ipf.site, 'paragraph parts follow the field order structure', 'ok', nontrivial=False)
        else:
            rep.fail('C01.R5', ipf.site, 'paragraph parts follow the field order structure', 'iter_parts does not enumerate the fields through the order structure', where=ipf.where)


def _in_test(node):
    n = node
    while getattr(n, '_parent', None) is not None:
        p = n._parent
        if isinstance(p, ast.If) and any(n is x for x in ast.walk(p.test)):
            return True
        if isinstance(p, ast.stmt):
            return False
        n = p
    return False


def check(src, rep, tier):
    rep.explanation = ('C01: (R1) L_match(_RE_FIELD_LINE) ∩ LINE ⊆ L_fullmatch; (R2) on the marked automaton every character of a matched line '
                       'lies in exactly one capturing group, groups in index order; (R3) the tokenizer loop body is interpreted over character '
                       'positions of the line for both input modes and for "inside/outside a field": groups become consecutive ranges, slices '
                       'shift positions, constant tokens stand for a sliced character only under the guard that proves it; every non-raising '
                       'path must emit [0, len(line)) exactly once in order; (R4) the three re-grouping generators are interpreted over stream '
                       'positions with the BufferingIterator API modelled; (R5) constructor-parameter order = iter_parts order, dump = join of '
                       'all token texts; (R6) whitespace look-ahead merges only newline-terminated lines / supplies the newline.')
    rep.not_decided = ['absence of every possible exception beyond the token-invariant obligations', 'bytes lines that are not UTF-8']
    rep.need('C01.R1', 1)
    rep.need('C01.R2', 1)
    rep.need('C01.R3', 4)
    rep.need('C01.R4', 4)
    rep.need('C01.R5', 8)
    rep.need('C01.R6', 2)
    ginfo = rep.guard('C01.R1', r1_r2_field_regex, src)
    loop = None
    if ginfo is not None:
        loop = rep.guard('C01.R3', r3_tokenizer, src, ginfo)
    if loop is not None:
        rep.guard('C01.R6', r6_whitespace_merge, src, loop)
    rep.guard('C01.R4', r4_regrouping, src)
    rep.guard('C01.R5', r5_element_order, src)

"""C14 -- Version objects accept exactly valid version strings and decompose losslessly."""
import ast

from .. import rx, strlang, cfg
from .. import paths, normalize
from ..core import AnalysisError, norm, walk_no_nested
from . import common

META = {
    'design_ref': 'DESIGN.md §5 C14',
    'technique': 'regular-language equivalence (DFA built from the regex literal and the raise conditions on the paths of _set_full_version, locals substituted away, vs. the Policy 5.6.12 grammar), marked-language inclusion against the recomposition template extracted from _update_full_version, marked-language inclusion in the other direction on component domains (an accepted recomposition parses back into the components it was built from), path rules check-then-commit and constructor pass-through; accepted language restricted to the parses backtracking can choose (leading optional group, lazy tails); heap interpretation of every component assignment with the real recomposition and validation (attribute stores routed through __setattr__); format-arity rule for the messages of refusals; helper inlining and join-over-table normalisation of the recomposition; the constructor interpreted twice over on a family of 1 800 version strings against the Policy grammar (acceptance, components, answers independent of earlier constructions)',
    'level_text': 'Static decision, for all strings over a symbolic alphabet that separates newline, blank, "_", '
                  'non-ASCII digits/letters: the accepted set of the constructor equals the Policy grammar; every '
                  'parse of every accepted string recomposes to the string; no raise after the first store and the '
                  'rollback in __setattr__ restores the saved value.  Decides these clauses, not arbitrary assignment '
                  'histories at run time.',
    'level_note': 'trusted: CPython re._parser/_compiler for leaf sets, the automata engine (self-checked against re), '
                  'the recognised guard vocabulary (unknown shapes are ANALYSIS-ERROR)',
}

SITE = 'debian_support:BaseVersion'
# oracle: Debian Policy 5.6.12 as quoted by the property
#   [epoch:]upstream[-revision]; epoch = digits; upstream over alphanumerics . + ~ (a colon only together with an epoch, a hyphen
#   only together with a revision); the revision is what follows the last hyphen: non-empty, over alphanumerics + . ~
REF_WITH_EPOCH = r'[0-9]+:(?:[A-Za-z0-9.+:~]+|[A-Za-z0-9.+:~-]+-[A-Za-z0-9+.~]+)'
REF_NO_EPOCH = r'(?:[A-Za-z0-9.+~]+|[A-Za-z0-9.+~-]+-[A-Za-z0-9+.~]+)'


def find_match_site(src, f):
    """`m = <regex>.match(param)` in function f -> (regex entry, mode, match var, subject name)"""
    for st in f.node.body:
        if isinstance(st, ast.Assign) and len(st.targets) == 1 and isinstance(st.targets[0], ast.Name) \
                and isinstance(st.value, ast.Call) and isinstance(st.value.func, ast.Attribute) \
                and st.value.func.attr in ('match', 'fullmatch', 'search') and len(st.value.args) == 1:
            recv = st.value.func.value
            name = recv.attr if isinstance(recv, ast.Attribute) else recv.id if isinstance(recv, ast.Name) else None
            if name is None:
                continue
            r = None
            for c in f.module.mro(f.cls) if f.cls else [None]:
                try:
                    r = src.regex(f.module.name, name, cls=c)
                    break
                except AnalysisError:
                    continue
            if r is None:
                raise AnalysisError('regex %s used in %s not found in the registry' % (name, f.site))
            return r, st.value.func.attr, st.targets[0].id, norm(st.value.args[0]), st
    raise AnalysisError('no `m = <regex>.match(...)` in %s' % f.site)


first_optional_groups = rx.first_optional_groups


def guard_lang(test, mvar, alpha, markers, groups_seen):
    """marked language of the parses for which the guard expression is true"""
    anym = rx.sigma_star(alpha, markers)

    def group_of(n):
        if isinstance(n, ast.Call) and isinstance(n.func, ast.Attribute) and n.func.attr == 'group' \
                and norm(n.func.value) == mvar and len(n.args) == 1 and isinstance(n.args[0], ast.Constant):
            return n.args[0].value
        return None

    def find_group_expr(t):
        gs = [n for n in ast.walk(t) if group_of(n) is not None]
        names = {group_of(n) for n in gs}
        if len(names) != 1:
            raise AnalysisError('guard atom refers to %d groups: %s' % (len(names), norm(t)))
        return gs[0], names.pop()

    def go(t):
        if isinstance(t, ast.BoolOp):
            ls = [go(v) for v in t.values]
            out = ls[0]
            for x in ls[1:]:
                out = out.intersect(x) if isinstance(t.op, ast.And) else out.union(x)
            return out
        if isinstance(t, ast.UnaryOp) and isinstance(t.op, ast.Not):
            return go(t.operand).complement()
        if isinstance(t, ast.Compare) and len(t.ops) == 1 and isinstance(t.ops[0], (ast.Is, ast.IsNot)) \
                and isinstance(t.comparators[0], ast.Constant) and t.comparators[0].value is None:
            g = group_of(t.left)
            if g is None:
                raise AnalysisError('unsupported guard atom: %s' % norm(t))
            groups_seen.add(g)
            part = rx.has_group(alpha, markers, g)
            return part if isinstance(t.ops[0], ast.IsNot) else part.complement()
        gexpr, g = find_group_expr(t)
        groups_seen.add(g)
        content = strlang.pred_lang(t, norm(gexpr), alpha)
        # a content test on a group that did not participate is false (it would be a TypeError; the
        # code guards it), so: participates and content in L
        return rx.group_content(alpha, markers, g, content)
    _ = anym
    return go(test)


def find_match_expr(src, f, fnode):
    """the `<regex>.match(<param>)` call of the function -> (regex entry, mode, call node)"""
    for c in ast.walk(fnode):
        if isinstance(c, ast.Call) and isinstance(c.func, ast.Attribute) and c.func.attr in ('match', 'fullmatch', 'search') and len(c.args) == 1:
            recv = c.func.value
            name = recv.attr if isinstance(recv, ast.Attribute) else recv.id if isinstance(recv, ast.Name) else None
            if name is None:
                continue
            for k in (f.module.mro(f.cls) if f.cls else []) + [None]:
                try:
                    return src.regex(f.module.name, name, cls=k), c.func.attr, c
                except AnalysisError:
                    continue
    raise AnalysisError('no `<regex>.match(...)` in %s' % f.site)


def accepted_language(src, f, rep):
    """language accepted by a check-then-store function: the function's paths are enumerated with locals
    substituted away (sa.paths); every literal of a path is a statement about the match object -- matched or
    not, participation of a group, a content predicate on a group -- and becomes a marked language; the
    accepted strings are those of the non-raising paths"""
    fnode, _inl = normalize.inline_helpers(f)
    fnode = normalize.split_group_unpacking(fnode)
    fnode = normalize.unroll_const_loops(fnode, paths.module_consts(f.module, f.cls or ''))      # loops over constant name tables, setattr(self, '<name>', v) as a store
    fnode = normalize.expand_quantifiers(fnode, f.module, table_nodes=normalize.class_table_nodes(f.module, f.cls or ''))     # tests over a table of rules
    r, mode, mcall = find_match_expr(src, f, fnode)
    pattern, flags = r['pattern'], r['flags']
    rep.saw_regex('%s:%s' % (r['module'], r['binding']))
    M = norm(mcall)
    subject = norm(mcall.args[0])
    ps = paths.function_paths(fnode, paths.Folder(paths.module_consts(f.module, f.cls or '')))
    rep.analysed['paths'] += len(ps)
    groups = []
    for p_ in ps:
        nodes = [t for t, _ in p_.conds] + [e[2] for e in p_.events if e[0] == 'store']
        for t in nodes:
            for n in ast.walk(t):
                if isinstance(n, ast.Call) and isinstance(n.func, ast.Attribute) and n.func.attr == 'group' \
                        and norm(n.func.value) == M and len(n.args) == 1 and isinstance(n.args[0], ast.Constant):
                    if n.args[0].value not in groups:
                        groups.append(n.args[0].value)
    mvar = M
    alpha = rx.alphabet('str')
    markers = [(k, g) for g in groups for k in ('open', 'close')]
    Rm = rx.regex_lang(pattern, flags, mode, groups, markers, alpha)
    L = rx.regex_lang(pattern, flags, mode, (), [], alpha)
    seen = set()
    Gm = None
    guards = []
    nomatch_accepted = False
    anym = rx.sigma_star(alpha, markers)

    def literal_lang(t, pol):
        """marked language of a literal, or 'nomatch' / 'match' for the statements about the match object itself"""
        txt = norm(t)
        if txt == M or txt == '%s is not None' % M:
            return 'match' if pol else 'nomatch'
        if txt == '%s is None' % M or txt == 'not %s' % M:
            return 'nomatch' if pol else 'match'
        gl = guard_lang(t, M, alpha, markers, seen)
        return gl if pol else gl.complement()
    accept_marked = None
    for p_ in ps:
        lang = anym
        kind = 'match'
        for t, pol in p_.conds:
            ll = literal_lang(t, pol)
            if ll == 'nomatch':
                kind = 'nomatch'
            elif ll != 'match':
                lang = lang.intersect(ll)
        raises = p_.outcome[0] == 'raise'
        if kind == 'nomatch':
            if not raises:
                nomatch_accepted = True
            continue
        if raises:
            guards.append(p_)
            Gm = lang if Gm is None else Gm.union(lang)
        else:
            accept_marked = lang if accept_marked is None else accept_marked.union(lang)
    if nomatch_accepted:
        raise AnalysisError('%s: a path stores the components although the regex did not match' % f.site)
    if not any(p_.outcome[0] == 'raise' and any(literal_lang(t, pol) == 'nomatch' for t, pol in p_.conds) for p_ in ps):
        raise AnalysisError('%s: no path raises when the regex does not match' % f.site)
    okpaths = [p_ for p_ in ps if p_.outcome[0] != 'raise']
    if not okpaths:
        raise AnalysisError('%s: no accepting path' % f.site)
    rest = okpaths
    if Gm is None:
        accepted = L
        chosen_ok = Rm
    else:
        rej = rx.erase_markers(Rm.intersect(Gm))
        ok = rx.erase_markers(Rm.minus(Gm))
        amb = rej.intersect(ok)
        if amb.is_empty():
            accepted = ok
            chosen_ok = Rm.minus(Gm)
        else:
            # restrict the marked language to the parse backtracking chooses: exactly, by the priority construction (sa.rxprio), where
            # the pattern is within its vocabulary ...
            from .. import rxprio
            try:
                Rp = rxprio.chosen_lang(pattern, flags, mode, groups, markers, alpha)
            except AnalysisError:
                Rp = None
            if Rp is not None:
                okp = rx.erase_markers(Rp.minus(Gm))
                rejp = rx.erase_markers(Rp.intersect(Gm))
                both = okp.intersect(rejp).witness()
                lostp = L.minus(rx.erase_markers(Rp)).witness()
                if both is None and lostp is None:
                    return dict(regex=r, mode=mode, mvar=mvar, subject=subject, groups=groups, markers=markers, Rm=Rm, L=L,
                                accepted=okp, chosen_ok=Rp.minus(Gm), guards=guards, rest=rest, alpha=alpha)
            # ... else by two rules of thumb: a leading greedy optional group participates
            # whenever some parse has it; a group ending in a lazy / greedy one-character repeat closes as early / late as possible
            Rc = Rm
            prio = first_optional_groups(pattern, flags, set(groups))
            for g0 in prio:
                part = rx.has_group(alpha, markers, g0)
                with_g = rx.erase_markers(Rc.intersect(part))
                Rc = Rc.minus(part.complement().intersect(rx.lift(with_g, markers)))
            tails = []
            for g in groups:
                k = rx.tail_kind(pattern, flags, g)
                if k is not None:
                    tails.append(g)
                    Rc = rx.prune_tail(Rc, g, k)
            if not prio and not tails:
                raise AnalysisError('%s: the guard outcome depends on which parse backtracking chooses (e.g. %r) and no '
                                    'priority-determined group is available' % (f.site, amb.witness()))
            ok2 = rx.erase_markers(Rc.minus(Gm))
            rej2 = rx.erase_markers(Rc.intersect(Gm))
            a1 = ok2.intersect(rej2).witness()
            if a1 is not None:
                e_ = ParseDependent('%s: guard outcome is parse dependent even among the parses backtracking can choose (priority of %s, tails of %s): %r'
                                    % (f.site, prio, tails, a1))
                # what is decided all the same: strings none of whose parses is accepted / all of whose parses are accepted
                e_.upper, e_.lower, e_.regex = ok2, ok2.minus(rej2), r
                raise e_
            lost = L.minus(rx.erase_markers(Rc)).witness()
            if lost is not None:
                raise AnalysisError('%s: internal: the priority pruning lost every parse of %r' % (f.site, lost))
            accepted = ok2
            chosen_ok = Rc.minus(Gm)
    return dict(regex=r, mode=mode, mvar=mvar, subject=subject, groups=groups, markers=markers, Rm=Rm, L=L,
                accepted=accepted, chosen_ok=chosen_ok, guards=guards, rest=rest, alpha=alpha)


class ParseDependent(AnalysisError):
    """the accepted set could not be determined exactly; .upper / .lower bound it"""


def r1_accepted_set(rep, src, rule='C14.R1', only_valid_accepted=False):
    """(also used by C03 as its premise: every valid version can be constructed, hence compared)"""
    f = src.func(SITE + '._set_full_version')
    rep.saw_func(f)
    try:
        A = accepted_language(src, f, rep)
    except ParseDependent as e_:
        # the exact set is not determined, its bounds are: a valid string that no parse accepts is refused whatever backtracking
        # chooses, an invalid one that every parse accepts is accepted whatever it chooses
        ref_ = rx.regex_lang('(?:%s|%s)' % (REF_WITH_EPOCH, REF_NO_EPOCH), 0, 'fullmatch', alpha=e_.upper.alpha)
        w_ = ref_.not_subset_witness(e_.upper)
        if w_ is not None:
            rep.fail(rule, f.site, 'valid ⊆ accepted', 'the constructor rejects the valid version string %r (no parse of it by %r passes the guards)%s'
                     % (w_, e_.regex['pattern'], ': such versions cannot be compared at all' if only_valid_accepted else ''),
                     detail={'witness': w_, 'direction': 'valid-but-rejected'}, where=f.where)
        w_ = e_.lower.not_subset_witness(ref_)
        if w_ is not None and not only_valid_accepted:
            rep.fail(rule, f.site, 'accepted ⊆ valid', 'the constructor accepts the invalid version string %r (every parse of it passes the guards)' % w_,
                     detail={'witness': w_, 'direction': 'accepted-but-invalid'}, where=f.where)
        raise
    alpha = A['alpha']
    ref = rx.regex_lang('(?:%s|%s)' % (REF_WITH_EPOCH, REF_NO_EPOCH), 0, 'fullmatch', alpha=alpha)
    w = A['accepted'].not_subset_witness(ref)
    site = f.site
    rx_name = '%s.%s' % (A['regex']['cls'], A['regex']['binding'])
    if only_valid_accepted:
        pass
    elif w is not None:
        rep.fail(rule, site, 'accepted ⊆ valid', 'the constructor accepts the invalid version string %r '
                 '(regex %s %r with the %d raise-guard(s))' % (w, rx_name, A['regex']['pattern'], len(A['guards'])),
                 detail={'witness': w, 'direction': 'accepted-but-invalid', 'regex': A['regex']['pattern']}, where=f.where)
    else:
        rep.ok(rule, site, 'accepted ⊆ valid', 'every accepted string is a valid version (DFA %d states vs reference %d)'
               % (A['accepted'].nstates(), ref.nstates()))
    w = ref.not_subset_witness(A['accepted'])
    if w is not None:
        rep.fail(rule, site, 'valid ⊆ accepted', 'the constructor rejects the valid version string %r%s' % (w, ': such versions cannot be compared at all' if only_valid_accepted else ''),
                 detail={'witness': w, 'direction': 'valid-but-rejected', 'regex': A['regex']['pattern']}, where=f.where)
    else:
        rep.ok(rule, site, 'valid ⊆ accepted', 'every valid version string is accepted')
    return A


def r2_lossless(rep, src, A):
    """every chosen parse of every accepted string recomposes (template of _update_full_version) to it"""
    fset = src.func(SITE + '._set_full_version')
    fupd = src.func(SITE + '._update_full_version')
    rep.saw_func(fupd)
    mvar = A['mvar']
    # attribute <- group mapping, and the stored full string
    attr_group = {}
    stored_input = None
    param = fset.params()[1] if len(fset.params()) > 1 else None
    M = A['mvar']
    per_path = []
    # the components may be kept as one record (a named tuple defined at module level): its construction is the store of its fields
    mod_ = fset.module
    record_attr = [None]

    def record_fields(call):
        if not (isinstance(call, ast.Call) and isinstance(call.func, ast.Name)):
            return None
        tnode = mod_.const_nodes.get('', {}).get(call.func.id)
        if not (isinstance(tnode, ast.Call) and norm(tnode.func) in ('collections.namedtuple', 'namedtuple') and len(tnode.args) == 2):
            return None
        try:
            flds = mod_.fold(tnode.args[1], '')
        except Exception:      # pylint: disable=broad-except
            return None
        if isinstance(flds, str):
            flds = flds.replace(',', ' ').split()
        out = dict(zip(flds, call.args))
        for k_ in call.keywords:
            if k_.arg not in flds or k_.arg in out:
                return None
            out[k_.arg] = k_.value
        return (list(flds), out) if set(out) == set(flds) else None
    for p_ in A['rest']:
        ag, si = {}, None
        evs = []
        for ev in p_.events:
            rf_ = record_fields(ev[2]) if ev[0] == 'store' and ev[1].startswith('self.') else None
            if rf_ is not None:
                record_attr[0] = (ev[1][len('self.'):], rf_[0])
                evs += [('store', 'self.__' + fld_, arg_) + tuple(ev[3:]) for fld_, arg_ in rf_[1].items()]
            else:
                evs.append(ev)
        for ev in evs:
            if ev[0] != 'store' or not ev[1].startswith('self.'):
                continue
            v = ev[2]
            attr = ev[1][len('self.'):]
            if attr.startswith('_BaseVersion__'):
                attr = attr[len('_BaseVersion'):]       # the private name as the class body spells it
            if isinstance(v, ast.Call) and isinstance(v.func, ast.Attribute) and v.func.attr == 'group' \
                    and norm(v.func.value) == M and len(v.args) == 1 and isinstance(v.args[0], ast.Constant):
                ag[attr] = v.args[0].value
            elif isinstance(v, ast.Name) and v.id == param:
                si = attr
        per_path.append((ag, si))
    if any(x != per_path[0] for x in per_path):
        rep.fail('C14.R2', fset.site, 'component stores', 'the accepting paths store different things: %r' % (per_path,), where=fset.where)
    attr_group, stored_input = per_path[0]
    if len(attr_group) < 3:
        raise AnalysisError('%s: fewer than 3 component stores from match groups' % fset.site)
    # the parameter must not be rebound before it is matched / stored
    for n in walk_no_nested(fset.node):
        if isinstance(n, ast.Name) and n.id == param and isinstance(n.ctx, ast.Store):
            rep.fail('C14.R2', fset.site, 'parameter rebound', 'the version text is modified before it is matched/stored', where=fset.where)
    if stored_input is None or A['subject'] != param:
        rep.fail('C14.R2', fset.site, 'store of the raw input',
                 'the accepted text is not stored unchanged as the full version (str() would not return the input)', where=fset.where)
    else:
        rep.ok('C14.R2', fset.site, 'store of the raw input', 'self.%s = %s (the matched parameter itself)' % (stored_input, param),
               nontrivial=False)
    # the constructor hands its argument to the validated assignment unchanged (a version object as its own text)
    from .. import paths
    finit = src.func(SITE + '.__init__')
    rep.saw_func(finit)
    vp = finit.params()[1]
    bad = None
    nst = 0
    for p_ in paths.function_paths(finit.node):
        for ev in p_.events:
            if ev[0] == 'store' and ev[1] == 'self.full_version':
                nst += 1

                def cases(e, conds):
                    if isinstance(e, ast.IfExp):
                        return cases(e.body, conds + [(e.test, True)]) + cases(e.orelse, conds + [(e.test, False)])
                    return [(e, conds)]
                for e_, conds in cases(ev[2], list(p_.conds)):
                    v = norm(e_)
                    is_obj = any(pol and isinstance(t_, ast.Call) and norm(t_.func) == 'isinstance' and norm(t_.args[0]) == vp and 'Version' in norm(t_.args[1])
                                 for t_, pol in conds)
                    if v == vp or (v == 'str(%s)' % vp and is_obj):
                        continue
                    bad = bad or 'on the path [%s] the constructor assigns %s' % (p_.describe()[:100], v[:50])
    if not nst:
        raise AnalysisError('%s: no assignment of full_version' % finit.site)
    if bad is None:
        rep.ok('C14.R2', finit.site, 'constructor passes its argument on unchanged', 'self.full_version = %s (str() of a version object)' % vp, nontrivial=False)
    else:
        rep.fail('C14.R2', finit.site, 'constructor passes its argument on unchanged', bad + ': strings that are not valid versions are accepted after being altered, and '
                 'str() of the object differs from the input', where=finit.where)
    # which groups always participate?
    alpha, markers = A['alpha'], A['markers']
    shape = {}
    for attr, g in attr_group.items():
        always = A['chosen_ok'].minus(rx.has_group(alpha, markers, g)).is_empty()
        shape[attr] = ('str',) if always else ('opt', ('str',))
    if record_attr[0] is not None:
        # self.<record> is a named tuple of the components, in the order of its fields (the writer may unpack it or read its fields)
        ra_, order_ = record_attr[0]
        if ra_.startswith('_BaseVersion__'):
            ra_ = ra_[len('_BaseVersion'):]
        rshape = {fld_: shape.get('__' + fld_, ('str',)) for fld_ in order_}
        rshape['__order__'] = list(order_)
        shape = dict(shape)
        shape[ra_] = ('rec', rshape)
    selfobj = strlang.Obj('self', ('rec', shape))
    stores = {}

    def slot_of(a):
        # the template path under which the component `a` (spelled '__epoch' ...) is read
        if record_attr[0] is not None:
            ra2_ = record_attr[0][0]
            ra2_ = ra2_[len('_BaseVersion'):] if ra2_.startswith('_BaseVersion__') else ra2_
            return 'self.%s.%s' % (ra2_, a[2:] if a.startswith('__') else a)
        return 'self.' + a

    # the recomposition may be delegated to a helper of the class and written as a join over a local table of (separator, component)
    # rows: the helper is put in place, the join over the table is the concatenation of its rows
    from .. import normalize
    upd_node, _inl = normalize.inline_helpers(fupd)
    upd_node = normalize.join_over_table_to_concat(upd_node, table_nodes=normalize.local_table_nodes(upd_node))

    def run(dec):
        it = strlang.Interp(dec, cls='BaseVersion')
        env = {'self': selfobj}
        if fupd.node.args.kwarg is not None:
            env[fupd.node.args.kwarg.arg] = {}          # called without keyword arguments: the stored components
        other = None
        for st in upd_node.body:
            if isinstance(st, ast.Assign) and len(st.targets) == 1 and isinstance(st.targets[0], ast.Attribute) \
                    and norm(st.targets[0].value) == 'self':
                a_ = st.targets[0].attr
                if a_ in ('full_version', '__full_version', '_BaseVersion__full_version'):
                    return ('full_version', it.ev(st.value, env)), it
                # another attribute of the object (a remembered value that is reset when the version changes ...): not the
                # recomposition unless nothing is stored to the full version at all
                if other is None and not isinstance(st.value, ast.Constant):
                    other = (a_, it.ev(st.value, env))
                continue
            r = it.exec(st, env)
            if r is not None:
                break
        if other is not None:
            return other, it
        raise AnalysisError('%s does not end in a store to self' % fupd.site)
    res, raised = strlang.worlds(run)
    if raised:
        raise AnalysisError('%s raises in some world: %r' % (fupd.site, raised[0]))
    if not res:
        raise AnalysisError('no template for %s' % fupd.site)
    tgt = {r[1][0] for r in res}
    if tgt != {'full_version'}:
        rep.fail('C14.R2', fupd.site, 'recomposition target', 'the recomposed text is stored to %s instead of full_version' % sorted(tgt), where=fupd.where)
    anyl = rx.regex_lang('(?s:.*)', 0, 'fullmatch', alpha=alpha)
    canon_int = rx.regex_lang('-?(?:0|[1-9][0-9]*)', 0, 'fullmatch', alpha=alpha)     # what '%d' % int(text) writes
    groups = A['groups']
    union = None
    shown = []
    for dec, (_, term), it in res:
        langs = {}
        for (path, test, var, pol) in it.preds:
            pl = strlang.pred_lang(test, var, alpha)
            cur = langs.get(path, anyl)
            langs[path] = cur.intersect(pl if pol else pl.complement())
        tags = {slot_of(a): g for a, g in attr_group.items()}
        tm, _te = strlang.template_langs(term, alpha, lambda p: langs.get(p, canon_int if p.startswith('int(') else anyl), tags, groups)
        # world "slot present but unused" (e.g. empty revision): the group still participates; the
        # template has no markers for it, so such parses are (rightly) not covered
        union = tm if union is None else union.union(tm)
        shown.append(strlang.show(term))
    accepted_marked = A['chosen_ok']
    # the other direction, for assigned components: a recomposed text that is accepted again must decompose into the components it
    # was composed from (otherwise assigning one component silently changes another).  Component domains: epoch digits, revision
    # over its character set (possibly empty unless the writer tests it), upstream over its set -- with "-" only in worlds where a
    # revision is written and ":" only where an epoch is written.
    acc_erased = rx.erase_markers(accepted_marked)
    back = None
    for dec, (_, term), it in res:
        langs = {}
        written = set(strlang.slots_of(term))
        present = {a for a in attr_group if dec.get(('present', slot_of(a)), True) and any(p_ == slot_of(a) or p_ == 'int(%s)' % slot_of(a) for p_ in written)}
        has_epoch = any('epoch' in str(attr_group[a]) for a in present)
        has_rev = any('revision' in str(attr_group[a]) for a in present)
        for a, g in attr_group.items():
            gs = str(g)
            if 'epoch' in gs:
                base = '[0-9]+'
            elif 'revision' in gs:
                base = '[A-Za-z0-9+.~]*'
            else:
                base = '[A-Za-z0-9.+~%s%s]+' % (':' if has_epoch else '', '-' if has_rev else '')
            langs[slot_of(a)] = rx.regex_lang(base, 0, 'fullmatch', alpha=alpha)
        for (path, test, var, pol) in it.preds:
            pl = strlang.pred_lang(test, var, alpha)
            if path in langs:
                langs[path] = langs[path].intersect(pl if pol else pl.complement())
        tags = {slot_of(a): g for a, g in attr_group.items()}
        tm, _te = strlang.template_langs(term, alpha, lambda p: langs.get(p, canon_int if p.startswith('int(') else anyl), tags, groups)
        w_ = tm.intersect(rx.lift(acc_erased, tm.markers)).not_subset_witness(accepted_marked)
        if w_ is not None and back is None:
            back = (w_, strlang.show(term))
    if back is not None:
        rep.fail('C14.R2', fupd.site, 'decompose∘recompose = id', 'the components written as %r (template %s) are accepted but read back differently: assigning one '
                 'component changes another / the text no longer recomposes from its parts' % back, detail={'witness': back[0]}, where=fupd.where)
    else:
        rep.ok('C14.R2', fupd.site, 'decompose∘recompose = id', 'every accepted recomposition parses back into the components it was built from')
    w = accepted_marked.not_subset_witness(union)
    if w is not None:
        rep.fail('C14.R2', fupd.site, 'recompose∘decompose = id',
                 'an accepted version does not recompose to itself: parse %r is not an instance of the recomposition '
                 'template(s) %s' % (w, shown), detail={'witness': w, 'templates': shown}, where=fupd.where)
    else:
        rep.ok('C14.R2', fupd.site, 'recompose∘decompose = id',
               'every chosen parse of every accepted string is an instance of %s' % ' | '.join(shown))
    rep.analysed['paths'] += len(res)


def r3_check_then_commit(rep, src, A):
    f = src.func(SITE + '._set_full_version')
    fnode, _ = normalize.inline_helpers(f)
    fnode = normalize.unroll_const_loops(fnode, paths.module_consts(f.module, f.cls or ''))
    ps = paths.function_paths(fnode, paths.Folder(paths.module_consts(f.module, f.cls or '')))
    raising = [p_ for p_ in ps if p_.outcome[0] == 'raise']
    storing = [p_ for p_ in ps if any(e[0] == 'store' and e[1].startswith('self.') for e in p_.events)]
    if not storing or not raising:
        raise AnalysisError('%s: expected stores to self and raise statements' % f.site)
    bad = [p_ for p_ in raising if any(e[0] == 'store' and e[1].startswith('self.') for e in p_.events)]
    if bad:
        e = [e for e in bad[0].events if e[0] == 'store' and e[1].startswith('self.')][0]
        rep.fail('C14.R3', f.site, 'no raise after first store',
                 'a raise (line %d) is reached after the store to %s on the path [%s]: a rejected string would leave a half-updated object'
                 % (bad[0].outcome[2].lineno, e[1], bad[0].describe()[:200]), where='%s:%d' % (f.module.relpath, e[3].lineno))
    else:
        rep.ok('C14.R3', f.site, 'no raise after first store', '%d storing paths, %d raising paths, no raising path stores' % (len(storing), len(raising)))
    # rollback in __setattr__, by interpretation (helpers followed): for each component, an assignment whose recomposition is
    # refused (the first _update_full_version() raises ValueError) ends in ValueError with the object exactly as it was and the
    # full version recomposed again from the restored components; an accepted one stores str(value) and recomposes once
    from .. import heap as H
    f2 = src.func(SITE + '.__setattr__')
    rep.saw_func(f2)
    mod = src.mod('debian_support')
    comps = {'epoch': '_BaseVersion__epoch', 'upstream_version': '_BaseVersion__upstream_version', 'debian_revision': '_BaseVersion__debian_revision',
             'debian_version': '_BaseVersion__debian_revision'}
    why = None
    n_cases = 0
    # (the design "store the component, recompose, restore on failure".  A __setattr__ that stores nothing before the recomposition
    # has validated the new version needs no rollback; the interpretation with the real recomposition below decides it either way.)
    f2_in, _i2 = normalize.inline_helpers(f2, depth=1, skip=('_update_full_version', '_set_full_version'))
    stores_first = any((isinstance(n_, ast.Call) and norm(n_.func) == 'setattr' and n_.args and norm(n_.args[0]) == 'self')
                       or (isinstance(n_, ast.Attribute) and isinstance(n_.ctx, ast.Store) and norm(n_.value) == 'self' and n_.attr.lstrip('_').split('__')[-1] in
                           ('epoch', 'upstream_version', 'debian_revision')) for n_ in ast.walk(f2_in))
    for attr, private in (comps.items() if stores_first else ()):
      for newval in (9, 0):         # 0: a value that is false but not None is converted and stored like any other
        for fail_first in (True, False):
            calls = []

            def upd(it, args, kw, calls=calls, fail_first=fail_first):
                calls.append({k: v for k, v in it.h.objs[args[0].name].items() if k.startswith('_BaseVersion__')})
                if fail_first and len(calls) == 1:
                    raise H.Raised('ValueError', it.h.version, 0)
                return None
            heap = H.Heap(mod, hooks={'._update_full_version': upd})
            me = heap.alloc('BaseVersion', {'_BaseVersion__epoch': '1', '_BaseVersion__upstream_version': '2.0', '_BaseVersion__debian_revision': '3',
                                            '_BaseVersion__full_version': '1:2.0-3'}, name='@version')
            before = dict(heap.objs[me.name])
            n_cases += 1
            try:
                H.Interp(heap).call(H.Closure(f2.node, {}, me, f2.cls), [attr, newval])
                out = 'ok'
            except H.Raised as x:
                out = x.exc
            after = dict(heap.objs[me.name])
            if fail_first:
                if out != 'ValueError':
                    why = why or 'assigning %s a value whose recomposition is refused ends in %s instead of ValueError' % (attr, 'success' if out == 'ok' else out)
                elif after != before:
                    diff = sorted(k for k in after if after.get(k) != before.get(k))
                    why = why or 'after the refused assignment of %s the object keeps %s = %r (it was %r): the component is not rolled back' % (
                        attr, diff[0], after.get(diff[0]), before.get(diff[0]))
                elif len(calls) < 2 or calls[-1].get(private) != before[private]:
                    why = why or 'after restoring %s the full version is not recomposed from the restored components' % attr
            else:
                want = dict(before)
                want[private] = str(newval)
                if out != 'ok' or after != want:
                    why = why or 'an accepted assignment of %s = %r leaves %r' % (attr, newval, {k: v for k, v in after.items() if k.startswith('_BaseVersion__')})
                elif len(calls) != 1 or calls[0].get(private) != str(newval):
                    why = why or 'the full version is not recomposed after %s has been stored' % attr
    if not stores_first:
        rep.ok('C14.R3', f2.site, 'rollback restores saved value', 'no component is stored before the recomposed version has been validated: nothing to roll back', nontrivial=False)
    elif why is None:
        rep.ok('C14.R3', f2.site, 'rollback restores saved value', '%d interpreted assignments: refused → ValueError and unchanged object, accepted → str(value) stored, recomposed once' % n_cases)
    else:
        rep.fail('C14.R3', f2.site, 'rollback restores saved value', 'component assignment is not rolled back on failure: ' + why, where=f2.where)
    # component assignments with the real recomposition and validation (nothing stubbed; attribute stores go through the class's
    # own __setattr__): every kind of value -- None, empty, valid, with the characters that separate components, with a foreign
    # character -- assigned to every component of objects with and without epoch / revision ends either in a valid version whose
    # components are the parse of its string, or in ValueError with the object exactly as it was
    ref = rx.regex_lang('(?:%s|%s)' % (REF_WITH_EPOCH, REF_NO_EPOCH), 0, 'fullmatch', alpha=A['alpha'])
    import re as _re
    _ref_re = _re.compile('(?:%s|%s)' % (REF_WITH_EPOCH, REF_NO_EPOCH))

    def ref_accepts(text_):
        return _ref_re.fullmatch(text_) is not None          # (the grammar as a pattern of its own: any character may occur in a candidate)
    starts = [('1', '2.0', '3', '1:2.0-3'), (None, '2.0', '3', '2.0-3'), ('1', '2.0', None, '1:2.0'), (None, '2.0', None, '2.0'), (None, '2-0', '3', '2-0-3')]
    values = [None, '', '7', 'a.b+c~d', '-', '7-', '2:3', ':', ' ', '7 ', 0, '\u0661', '\u00b2', '7\n', '\uff11.0']          # (digits outside ASCII count as digits for str.isdigit and \d, not for the grammar)
    bad2 = None
    n2 = 0
    # (the object is built by the class's own validated assignment and looked at through its own attribute interface -- __getattr__ --,
    # whatever it keeps the components in: four attributes, one record ...)
    fget = src.func(SITE + '.__getattr__')
    rep.saw_func(fget)
    NAMES = {'_BaseVersion__full_version': 'full_version', '_BaseVersion__epoch': 'epoch', '_BaseVersion__upstream_version': 'upstream_version',
             '_BaseVersion__debian_revision': 'debian_revision'}

    def observe(it_, me_):
        out_ = {}
        for k_, pub_ in NAMES.items():
            try:
                v_ = it_.call(H.Closure(fget.node, {}, me_, fget.cls), [pub_])
                out_[k_] = v_.concrete() if hasattr(v_, 'concrete') else v_
            except H.Raised as x_:
                out_[k_] = 'raises %s' % x_.exc
        return out_
    for ep, up, rev, full in starts:
        for attr, private in comps.items():
            for val in values:
                heap = H.Heap(mod)
                heap.native_regex = True
                heap.intercept_setattr = True
                me = heap.alloc('BaseVersion', {}, name='@version')
                it2 = H.Interp(heap)
                try:
                    it2.call(H.Closure(f.node, {}, me, f.cls), [full])
                except H.Raised as x:
                    raise AnalysisError('%s: the valid version %r is refused (%s) -- decided under C14.R1' % (f.site, full, x.exc))
                before = observe(it2, me)
                if before != {'_BaseVersion__full_version': full, '_BaseVersion__epoch': ep, '_BaseVersion__upstream_version': up, '_BaseVersion__debian_revision': rev}:
                    bad2 = bad2 or 'Version(%r) has the components %r' % (full, before)
                n2 += 1
                try:
                    it2.call(H.Closure(f2.node, {}, me, f2.cls), [attr, val])
                    out = 'ok'
                except H.Raised as x:
                    out = x.exc
                after = observe(it2, me)
                what = 'Version(%r).%s = %r' % (full, attr, val)
                # string level: the version recomposed from the assigned value and the other two components as they were (a component
                # that is None is left out together with its separator; any other value, the empty text included, is written)
                parts = {'epoch': ep, 'upstream_version': up, 'debian_revision': rev}
                parts[private[len('_BaseVersion__'):]] = None if val is None else str(val)
                expected = None if parts['upstream_version'] is None else (
                    ('%s:' % parts['epoch'] if parts['epoch'] is not None else '') + parts['upstream_version']
                    + ('-%s' % parts['debian_revision'] if parts['debian_revision'] is not None else ''))
                fv_ = after.get('_BaseVersion__full_version')
                if expected is not None and ref_accepts(expected):
                    if out != 'ok' or fv_ != expected:
                        bad2 = bad2 or '%s must give the version %r; it %s' % (what, expected, 'raises %s' % out if out != 'ok' else 'gives %r' % (fv_,))
                elif out == 'ok':
                    bad2 = bad2 or '%s recomposes to %r, which is not a valid version, but the assignment is accepted and gives %r (epoch %r, upstream %r, revision %r)' % (
                        what, expected, fv_, after.get('_BaseVersion__epoch'), after.get('_BaseVersion__upstream_version'), after.get('_BaseVersion__debian_revision'))
                if out == 'ok':
                    fv = after.get('_BaseVersion__full_version')
                    e2, u2, r2 = after.get('_BaseVersion__epoch'), after.get('_BaseVersion__upstream_version'), after.get('_BaseVersion__debian_revision')
                    recomposed = ('%s:' % e2 if e2 is not None else '') + (u2 if isinstance(u2, str) else repr(u2)) + ('-%s' % r2 if r2 is not None else '')
                    if not isinstance(fv, str) or not ref_accepts(fv):
                        bad2 = bad2 or '%s is accepted and gives the invalid version %r (epoch %r, upstream %r, revision %r)' % (what, fv, e2, u2, r2)
                    elif fv != recomposed:
                        bad2 = bad2 or '%s gives the string %r but the components epoch %r, upstream %r, revision %r' % (what, fv, e2, u2, r2)
                elif out == 'ValueError':
                    if after != before:
                        diff = sorted(k for k in after if after.get(k) != before.get(k))
                        bad2 = bad2 or '%s raises ValueError but leaves %s = %r (it was %r)' % (what, diff[0], after.get(diff[0]), before.get(diff[0]))
                else:
                    bad2 = bad2 or '%s raises %s, not ValueError%s' % (what, out, '' if after == before else ', and leaves the object changed (%s)' % ', '.join(
                        '%s = %r' % (k[len('_BaseVersion__'):], after.get(k)) for k in sorted(after) if after.get(k) != before.get(k)))
    if bad2 is None:
        rep.ok('C14.R3', f2.site, 'every component assignment ends in a valid version or in ValueError with the object unchanged', '%d interpreted assignments' % n2)
    else:
        rep.fail('C14.R3', f2.site, 'every component assignment ends in a valid version or in ValueError with the object unchanged', bad2, where=f2.where)
    # the full_version route goes through _set_full_version (validated) and nothing else stores it
    routed = any(isinstance(c, ast.Call) and norm(c.func) == 'self._set_full_version' for c in ast.walk(normalize.inline_helpers(f2, depth=2, skip=('_set_full_version',))[0]))
    if routed:
        rep.ok('C14.R3', f2.site, 'full_version assignment is validated', 'routed through _set_full_version', nontrivial=False)
    else:
        rep.fail('C14.R3', f2.site, 'full_version assignment is validated', 'assigning full_version bypasses _set_full_version', where=f2.where)
    # magic attribute table covers the components
    magic = src.const('debian_support', 'magic_attrs', 'BaseVersion')
    need = {'full_version', 'epoch', 'upstream_version', 'debian_revision'}
    if need - set(magic):
        rep.fail('C14.R3', SITE, 'magic_attrs table', 'components %s are not intercepted by __setattr__' % sorted(need - set(magic)))
    else:
        rep.ok('C14.R3', SITE, 'magic_attrs table', 'all four components intercepted', nontrivial=False)


def r4_family(rep, src, tier, rule='C14.R4', keys=None):
    """the constructor interpreted (sa.heap, CPython's regex engine on decided strings) on a family of strings -- every string of up to
    three (thorough: five) characters over the characters the grammar distinguishes and some it excludes, and every composition
    [epoch ":"] upstream ["-" revision] of parts chosen to sit on the boundaries (colons and hyphens inside the upstream part, empty parts,
    excluded characters) -- TWICE over in one world, so that anything the class remembers from an earlier construction is in effect:
    a string is accepted exactly when the Policy grammar has it, the object then shows the string and its three components as written,
    and the second round answers as the first."""
    import itertools
    import re as _re
    from .. import heap as H
    mod = src.mod('debian_support')
    f = src.func(SITE + '.__init__')
    fget = src.func(SITE + '.__getattr__')
    rep.saw_func(f)
    valid_e, valid_n = _re.compile(REF_WITH_EPOCH), _re.compile(REF_NO_EPOCH)

    def reference(s_):
        if valid_e.fullmatch(s_):
            ep_, rest_ = s_.split(':', 1)
        elif valid_n.fullmatch(s_):
            ep_, rest_ = None, s_
        else:
            return None
        up_, rev_ = rest_.rsplit('-', 1) if '-' in rest_ else (rest_, None)
        return {'full_version': s_, 'epoch': ep_, 'upstream_version': up_, 'debian_revision': rev_}
    small = [''.join(t_) for n_ in range(0, 4) for t_ in itertools.product('1a.:-~+ \n_', repeat=n_)]
    if tier == 'thorough':
        small += [''.join(t_) for n_ in range(4, 6) for t_ in itertools.product('1a:-.~', repeat=n_)]
    E = [None, '0', '12', '', 'a', '1:', '-1']
    U = ['1', 'a', '1.0', '1:2', '1-2', '1:2-3', '~', '.', '+1', '', ' ', '1_', '1\n', '2007:03', '1.0-']
    R = [None, '1', 'a.1', '', '1-', '1:', '+', '~', '1 ']
    composed = [('' if e_ is None else e_ + ':') + u_ + ('' if r_ is None else '-' + r_) for e_ in E for u_ in U for r_ in R]
    family = list(dict.fromkeys(small + composed))
    heap = H.Heap(mod)
    heap.native_regex = True
    heap.intercept_setattr = True
    it = H.Interp(heap)

    def construct(s_):
        me = heap.alloc('BaseVersion', {})
        try:
            it.call(H.Closure(f.node, {}, me, f.cls), [s_])
        except H.Raised as x:
            return 'raises ' + x.exc
        out_ = {}
        for pub_ in ('full_version', 'epoch', 'upstream_version', 'debian_revision'):
            try:
                v_ = it.call(H.Closure(fget.node, {}, me, fget.cls), [pub_])
                out_[pub_] = v_.concrete() if hasattr(v_, 'concrete') else v_
            except H.Raised as x_:
                out_[pub_] = 'raises %s' % x_.exc
        return out_
    first = {}
    bad = {'acc': None, 'rej': None, 'comp': None, 'exc': None, 'state': None}
    for rnd in (1, 2):
        for s_ in family:
            got = construct(s_)
            want = reference(s_)
            if rnd == 1:
                first[s_] = got
            elif got != first[s_]:
                bad['state'] = bad['state'] or 'Version(%r) %s the first time and %s the second time in one process: the answer depends on what was constructed before' % (
                    s_, 'is refused (%s)' % first[s_] if isinstance(first[s_], str) else 'gives %r' % (first[s_],), 'is refused (%s)' % got if isinstance(got, str) else 'gives %r' % (got,))
            if isinstance(got, str):
                if got != 'raises ValueError':
                    bad['exc'] = bad['exc'] or 'Version(%r) %s (an invalid version is refused with ValueError)' % (s_, got)
                elif want is not None:
                    bad['rej'] = bad['rej'] or 'the valid version string %r is refused' % s_
            elif want is None:
                bad['acc'] = bad['acc'] or 'the invalid version string %r is accepted (as %r)' % (s_, got)
            elif got != want:
                bad['comp'] = bad['comp'] or 'Version(%r) shows %r; written: %r' % (s_, got, want)
    rep.analysed['paths'] += 2 * len(family)
    for key, what in (('rej', 'valid strings are accepted'), ('acc', 'invalid strings are refused'), ('exc', 'refusals are ValueError'),
                      ('comp', 'the object shows the string and its components as written'), ('state', 'a second construction answers as the first')):
        if keys is not None and key not in keys:
            continue
        if bad[key]:
            rep.fail(rule, f.site, what + ' (interpreted family)', bad[key], where=f.where)
        else:
            rep.ok(rule, f.site, what + ' (interpreted family)', '%d strings, constructed twice' % len(family))


def check(src, rep, tier):
    rep.explanation = ('C14: (R1) DFA of the strings accepted by BaseVersion._set_full_version (regex literal + raise '
                       'guards, group-participation resolved by backtracking priority) is compared for equivalence with '
                       'the Policy 5.6.12 grammar over a symbolic alphabet; (R2) every chosen parse of every accepted '
                       'string is an instance of the recomposition template extracted from _update_full_version; the raw '
                       'input is stored unchanged; (R3) no raise after the first store, rollback handler restores the saved '
                       'component.')
    rep.not_decided = ['run-time behaviour of arbitrary assignment sequences beyond the rollback shape',
                       'AptPkgVersion (delegates to apt_pkg)']
    rep.need('C14.R1', 2)
    rep.need('C14.R2', 2)
    rep.need('C14.R3', 4)
    from . import common
    rep.need('C14.R4', 5)
    n_v, n_e = len(rep.violations), len(rep.errors)
    rep.guard('C14.R4', r4_family, src, tier)
    family_holds = len(rep.violations) == n_v and len(rep.errors) == n_e
    # the language-level readings (exact for ALL strings when the code is in their vocabulary: regex + guards on its groups)
    soft = common.SoftErrors(rep, lambda: family_holds, 'the interpreted family of version strings (C14.R4), which holds')
    A = soft.guard('C14.R1', r1_accepted_set, src)
    if A is not None:
        soft.guard('C14.R2', r2_lossless, src, A)
    elif family_holds:
        rep.min_instances['C14.R2'] = 0
    if A is None:
        from .. import rx as _rx
        A = {'alpha': _rx.alphabet('str')}
    rep.guard('C14.R3', r3_check_then_commit, src, A)
    rep.guard('C14.R3', common.check_error_construction, src, 'C14.R3', 'debian_support', None, 0)
    if tier == 'thorough':
        common.regex_audit(rep, src, 'C14', modules=['debian_support'])
        # analyser self-consistency: the priority construction against CPython's own parse of every string of up to five characters
        # over the characters the grammar distinguishes (a disagreement is an analysis error, never a violation)
        import itertools
        from .. import rxprio
        if A is not None:
            r_ = A['regex']
            try:
                samples = [''.join(t_) for n_ in range(0, 6) for t_ in itertools.product('01:-.a~+', repeat=n_)]
                bad_ = rxprio.selfcheck(r_['pattern'], r_['flags'], list(A['groups']), samples, A['mode'])
                if bad_:
                    rep.error('C14.R1', 'analyser self-check: the priority construction disagrees with re on %r (%s)' % (bad_[0][0], bad_[0][1]))
                else:
                    rep.extra['rxprio_selfcheck'] = '%d strings, the parse CPython returns is the one the automaton keeps' % len(samples)
            except AnalysisError as e_:
                rep.extra['rxprio_selfcheck'] = 'not applicable to this pattern: %s' % e_

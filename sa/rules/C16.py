"""C16 -- Copyright: a file resolves to the last Files paragraph whose glob matches it."""
import ast
import re

from .. import rx, cfg
from ..core import AnalysisError, norm, walk_no_nested, Unfoldable

META = {
    'design_ref': 'DESIGN.md §3 C16',
    'technique': 'branch-table extraction of the per-character translation in globs_to_re with language checks of every fragment under '
                 'the compile flags (automata), assembled-skeleton language vs the consumer\'s match mode, CFG atomicity rule for the '
                 'pattern cache, loop-shape rule for last-match-wins',
    'level_text': 'Static decision: the translation is character-wise (only an escaping backslash looks ahead), "*" denotes Σ*, "?" '
                  'denotes Σ (newline and "/" included), escapes denote their literal, other escapes raise the format error; with the way '
                  'the alternatives are joined and anchored, the consumer\'s match call accepts exactly the whole-name matches; the cache '
                  'cannot keep a key without its pattern; find_files_paragraph returns the last match in document order.',
    'level_note': 'trusted: re.escape semantics, CPython re parser, the automata engine',
}

M = 'copyright'


def _writes(stmts, bufname):
    out = []
    for s in stmts:
        if isinstance(s, ast.Expr) and isinstance(s.value, ast.Call) and norm(s.value.func) == bufname + '.write' and len(s.value.args) == 1:
            a = s.value.args[0]
            if isinstance(a, ast.Constant) and isinstance(a.value, str):
                out.append(('lit', a.value))
            elif isinstance(a, ast.Call) and norm(a.func) == 're.escape' and len(a.args) == 1:
                out.append(('escape', norm(a.args[0])))
            else:
                out.append(('other', norm(a)))
        elif isinstance(s, ast.Raise):
            out.append(('raise', norm(s.exc.func) if isinstance(s.exc, ast.Call) else norm(s.exc)))
        elif isinstance(s, (ast.Assign, ast.AugAssign, ast.Expr, ast.Pass)):
            continue
        else:
            out.append(('stmt', norm(s)[:40]))
    return out


def r1_fragment_table(rep, src):
    f = src.func(M + ':globs_to_re')
    rep.saw_func(f)
    where = f.where
    # the outer loop over globs and the inner per-character loop
    outer = [s for s in f.node.body if isinstance(s, ast.For)]
    if len(outer) != 1:
        raise AnalysisError('%s: expected one loop over the globs' % f.site)
    outer = outer[0]
    gvar = None
    if isinstance(outer.target, ast.Tuple) and norm(outer.iter).startswith('enumerate('):
        gvar = norm(outer.target.elts[1])
    elif isinstance(outer.target, ast.Name):
        gvar = outer.target.id
    inner = [s for s in outer.body if isinstance(s, (ast.While, ast.For))]
    if len(inner) != 1 or gvar is None:
        raise AnalysisError('%s: per-character loop not found' % f.site)
    inner = inner[0]
    bufname = None
    for s in f.node.body:
        if isinstance(s, ast.Assign) and isinstance(s.value, ast.Call) and norm(s.value.func) in ('io.StringIO', 'StringIO'):
            bufname = norm(s.targets[0])
    if bufname is None:
        raise AnalysisError('%s: output buffer not found' % f.site)
    # cursor idiom: c = glob[i]; i += 1   (or for c in glob)
    cvar, ivar = None, None
    if isinstance(inner, ast.For):
        cvar = norm(inner.target)
    reads = []
    for n in walk_no_nested(inner):
        if isinstance(n, ast.Subscript) and norm(n.value) == gvar:
            reads.append(n)
    for n in reads:
        p = n._parent
        ok = isinstance(p, ast.Assign) and p.value is n and isinstance(p.targets[0], ast.Name) and isinstance(n.slice, ast.Name)
        if ok:
            # must be followed by the cursor increment
            blk = p._parent.body if p in getattr(p._parent, 'body', []) else p._parent.orelse
            nxt = blk[blk.index(p) + 1] if blk.index(p) + 1 < len(blk) else None
            ok = isinstance(nxt, ast.AugAssign) and norm(nxt.target) == norm(n.slice) and isinstance(nxt.op, ast.Add) and norm(nxt.value) == '1'
            if ok:
                cvar = cvar or p.targets[0].id
                ivar = norm(n.slice)
        if not ok:
            rep.fail('C16.R1', f.site, 'character-wise translation',
                     'the translation looks at the raw pattern text `%s` outside the read-next-character step: a raw neighbour cannot tell an '
                     'escaped character from an unescaped one, so the result is not the token-wise glob semantics' % norm(n),
                     where='%s:%d' % (f.module.relpath, n.lineno))
    if cvar is None:
        raise AnalysisError('%s: current-character variable not found' % f.site)
    # flags of the final compile
    comp = [c for c in ast.walk(f.node) if isinstance(c, ast.Call) and norm(c.func) == 're.compile']
    if len(comp) != 1:
        raise AnalysisError('%s: expected one re.compile' % f.site)
    try:
        flags = f.module.fold(comp[0].args[1]) if len(comp[0].args) > 1 else 0
    except Unfoldable:
        raise AnalysisError('%s: compile flags do not fold' % f.site)
    # dispatch chain on the current character
    chain = [s for s in inner.body if isinstance(s, ast.If)]
    if len(chain) != 1:
        raise AnalysisError('%s: expected one if/elif chain per character' % f.site)
    node = chain[0]
    table = {}
    escape_node = None
    while True:
        t = node.test
        keys = None
        if isinstance(t, ast.Compare) and len(t.ops) == 1 and norm(t.left) == cvar:
            if isinstance(t.ops[0], ast.Eq) and isinstance(t.comparators[0], ast.Constant):
                keys = [t.comparators[0].value]
            elif isinstance(t.ops[0], ast.In):
                try:
                    keys = list(ast.literal_eval(t.comparators[0]))
                except ValueError:
                    keys = None
        if keys is None:
            extra = [n for n in ast.walk(t) if isinstance(n, ast.Name) and n.id not in (cvar,)]
            raise AnalysisError('%s: branch condition `%s` depends on state other than the current character (%s): the rule only '
                                'decides character-wise translations' % (f.site, norm(t), ', '.join(sorted({n.id for n in extra}))))
        for k in keys:
            table[k] = node
            if k == '\\':
                escape_node = node
        if len(node.orelse) == 1 and isinstance(node.orelse[0], ast.If):
            node = node.orelse[0]
        else:
            table[None] = node.orelse
            break
    alpha = rx.alphabet('str')
    anyall = rx.regex_lang('(?s:.*)', 0, 'fullmatch', alpha=alpha)
    anyone = rx.regex_lang('(?s:.)', 0, 'fullmatch', alpha=alpha)

    def frag_lang(ws):
        pat = ''
        for kind, v in ws:
            if kind != 'lit':
                return None
            pat += v
        try:
            return rx.regex_lang(pat, flags, 'fullmatch', alpha=alpha)
        except AnalysisError:
            return None
    for ch, want, name in (('*', anyall, 'any run of characters, "/" and newline included'), ('?', anyone, 'exactly one character, newline included')):
        if ch not in table:
            rep.fail('C16.R1', f.site, "wildcard '%s'" % ch, "'%s' is not translated as a wildcard" % ch, where=where)
            continue
        ws = _writes(table[ch].body, bufname)
        L = frag_lang(ws)
        if L is None:
            rep.fail('C16.R1', f.site, "wildcard '%s'" % ch, "'%s' is translated to %r" % (ch, ws), where=where)
            continue
        w = L.equiv_witness(want)
        if w is None:
            rep.ok('C16.R1', f.site, "wildcard '%s'" % ch, '%r denotes %s under flags %s' % (''.join(v for _, v in ws), name, re.RegexFlag(flags)))
        else:
            rep.fail('C16.R1', f.site, "wildcard '%s'" % ch, "'%s' is translated to %r which, under the compile flags %s, %s %r; it must match %s"
                     % (ch, ''.join(v for _, v in ws), re.RegexFlag(flags), 'also matches' if w[0] == 'left-only' else 'does not match', w[1], name),
                     detail={'witness': w[1]}, where=where)
    # default branch: literal
    dflt = _writes(table.get(None, []), bufname)
    if dflt == [('escape', cvar)]:
        rep.ok('C16.R1', f.site, 'ordinary characters', 're.escape(%s)' % cvar)
    else:
        rep.fail('C16.R1', f.site, 'ordinary characters', 'an ordinary character is translated by %r instead of its escaped literal' % (dflt,), where=where)
    # escape branch
    if escape_node is None:
        rep.fail('C16.R1', f.site, 'backslash escapes', 'backslash is not handled', where=where)
    else:
        body = escape_node.body
        has_next = [s for s in body if isinstance(s, ast.If) and norm(s.test) in ('%s < n' % ivar, 'n > %s' % ivar, '%s < len(%s)' % (ivar, gvar))]
        okend = bool(has_next) and _writes(has_next[0].orelse, bufname) == [('raise', 'MachineReadableFormatError')]
        if okend:
            rep.ok('C16.R1', f.site, 'trailing backslash', 'MachineReadableFormatError')
        else:
            rep.fail('C16.R1', f.site, 'trailing backslash', 'a pattern ending in a single backslash is not reported as a format error', where=where)
        sel = [s for s in body if isinstance(s, ast.If) and isinstance(s.test, ast.Compare) and isinstance(s.test.ops[0], ast.In)
               and norm(s.test.left) in (cvar,)]
        okesc = False
        if sel:
            try:
                allowed = set(ast.literal_eval(sel[0].test.comparators[0]))
            except ValueError:
                allowed = None
            if allowed == {'\\', '?', '*'} and _writes(sel[0].body, bufname) in ([('escape', cvar)],) \
                    and _writes(sel[0].orelse, bufname) == [('raise', 'MachineReadableFormatError')]:
                okesc = True
                # re.escape of the three characters denotes the literal
                for ch in allowed:
                    L = rx.regex_lang(re.escape(ch), flags, 'fullmatch', alpha=alpha)
                    if L.equiv_witness(rx.regex_lang('[%s]' % re.escape(ch), 0, 'fullmatch', alpha=alpha)) is not None:
                        okesc = False
        if okesc:
            rep.ok('C16.R1', f.site, 'escapes', r'\\ \? \* denote the literal, any other escape raises MachineReadableFormatError')
        else:
            rep.fail('C16.R1', f.site, 'escapes', 'the escapable set is not exactly {\\, ?, *} with literal translation, or other escapes are not rejected '
                     'with MachineReadableFormatError', where=where)
    return dict(func=f, flags=flags, bufname=bufname, outer=outer)


def r2_anchoring(rep, src, info):
    f = info['func']
    bufname = info['bufname']
    outer = info['outer']
    joiner = None
    for s in outer.body:
        if isinstance(s, ast.If) and any(norm(s.test) == t for t in ('i != 0', 'i > 0', 'i')):
            ws = _writes(s.body, bufname)
            if len(ws) == 1 and ws[0][0] == 'lit':
                joiner = ws[0][1]
    if joiner is None:
        raise AnalysisError('%s: separator between alternatives not found' % f.site)
    pre = ''.join(v for k, v in _writes([s for s in f.node.body if s.lineno < outer.lineno], bufname) if k == 'lit')
    post = ''.join(v for k, v in _writes([s for s in f.node.body if s.lineno > outer.lineno], bufname) if k == 'lit')
    per_pre = ''.join(v for k, v in _writes([s for s in outer.body if not isinstance(s, (ast.If, ast.While, ast.For))], bufname) if k == 'lit')
    skeleton = pre + 'x' + joiner + per_pre + 'y' + post
    # consumers of the compiled pattern
    m = src.mod(M)
    consumers = []
    for fn in m.funcs.values():
        pats = {norm(s.targets[0]) for s in ast.walk(fn.node) if isinstance(s, ast.Assign) and isinstance(s.value, ast.Call)
                and norm(s.value.func).endswith('files_pattern')}
        for c in ast.walk(fn.node):
            if isinstance(c, ast.Call) and isinstance(c.func, ast.Attribute) and c.func.attr in ('match', 'fullmatch', 'search', 'findall', 'finditer') \
                    and (norm(c.func.value) in pats or norm(c.func.value).endswith('files_pattern()')):
                consumers.append((fn, c))
    if not consumers:
        raise AnalysisError('no consumer of files_pattern() found in copyright.py')
    alpha = rx.alphabet('str')
    want = rx.regex_lang('x|y', 0, 'fullmatch', alpha=alpha)
    xy = rx.regex_lang('[xy](?s:.*)', 0, 'fullmatch', alpha=alpha)
    for fn, c in consumers:
        rep.saw_func(fn)
        mode = c.func.attr
        if mode not in ('match', 'fullmatch', 'search'):
            rep.fail('C16.R2', fn.site, norm(c)[:40], 'the pattern is used with %s' % mode, where=fn.where)
            continue
        got = rx.regex_lang(skeleton, info['flags'], mode, alpha=alpha)
        w = got.equiv_witness(want)
        what = 'whole-name matching: %s on %r' % (mode, skeleton)
        if w is None:
            rep.ok('C16.R2', fn.site, what, 'accepts exactly the names matched entirely by one alternative')
        else:
            rep.fail('C16.R2', fn.site, what, 'with alternatives joined as %r the call .%s() %s the name %r (x, y stand for two patterns): a pattern '
                     'must match the whole file name' % (skeleton, mode, 'accepts' if w[0] == 'left-only' else 'rejects', w[1]),
                     detail={'witness': w[1]}, where='%s:%d' % (fn.module.relpath, c.lineno))
    _ = xy


def r3_cache(rep, src):
    f = src.func(M + ':FilesParagraph.files_pattern')
    rep.saw_func(f)
    g = cfg.CFG(f.node)
    stores = [n for n in g.stmts() if n.kind == 'stmt' and isinstance(n.ast, (ast.Assign, ast.AugAssign)) and
              any(isinstance(t, ast.Attribute) and norm(t.value) == 'self' and 'cache' in t.attr
                  for tt in (n.ast.targets if isinstance(n.ast, ast.Assign) else [n.ast.target]) for t in ast.walk(tt))]
    calls = [g.node_for(c) for c in ast.walk(f.node) if isinstance(c, ast.Call) and norm(c.func) == 'globs_to_re']
    if not stores or not calls:
        raise AnalysisError('%s: cache store / globs_to_re call not found' % f.site)
    bad = [(s, c) for s in stores for c in calls if s.id != c.id and g.exists_path(s.id, c.id)]
    if bad:
        rep.fail('C16.R3', f.site, 'cache update is atomic',
                 'the cache is written (`%s`) before globs_to_re has succeeded: when a pattern is illegal the error is raised once and later '
                 'queries silently use the stale pattern' % norm(bad[0][0].ast)[:60], where='%s:%d' % (f.module.relpath, bad[0][0].lineno))
    else:
        rep.ok('C16.R3', f.site, 'cache update is atomic', 'no cache store precedes the globs_to_re call')
    # key: compared with and stored as the current Files text
    key = [s for s in f.node.body if isinstance(s, ast.Assign) and norm(s.value) in ("self['files']", "self['Files']", 'self["files"]', 'self["Files"]')]
    tests = [n for n in g.nodes if n.kind == 'test' and isinstance(n.ast, ast.Compare) and isinstance(n.ast.ops[0], ast.NotEq)]
    ok = False
    if key and tests:
        kv = norm(key[0].targets[0])
        t = tests[0]
        sides = {norm(t.ast.left), norm(t.ast.comparators[0])}
        if kv in sides and any('cache' in x for x in sides):
            # stored key is the same variable
            for s in stores:
                v = s.ast.value if isinstance(s.ast, ast.Assign) else None
                if isinstance(v, ast.Tuple) and norm(v.elts[0]) == kv and 'globs_to_re' in norm(v.elts[1]):
                    ok = True
                elif v is not None and norm(v) == kv:
                    ok = True
            recompute_on_true = any(lab is True and (d in [c.id for c in calls] or any(g.exists_path(d, c.id) for c in calls)) for d, lab in g.succ[t.id])
            ok = ok and recompute_on_true
    if ok:
        rep.ok('C16.R3', f.site, 'cache keyed by the Files text', 'recomputed when the stored key differs from self[\'files\']; that text becomes the key')
    else:
        rep.fail('C16.R3', f.site, 'cache keyed by the Files text', 'the cached pattern is not invalidated by comparing/storing the current Files text', where=f.where)
    # the globs handed to globs_to_re are the parsed Files list
    if any(norm(c.args[0]) == 'self.files' for c in ast.walk(f.node) if isinstance(c, ast.Call) and norm(c.func) == 'globs_to_re'):
        rep.ok('C16.R3', f.site, 'pattern built from the Files list', 'globs_to_re(self.files)', nontrivial=False)
    else:
        rep.fail('C16.R3', f.site, 'pattern built from the Files list', 'globs_to_re is not applied to self.files', where=f.where)


def r4_last_match(rep, src):
    f = src.func(M + ':Copyright.find_files_paragraph')
    rep.saw_func(f)
    loops = [s for s in f.node.body if isinstance(s, ast.For)]
    if len(loops) != 1:
        raise AnalysisError('%s: expected one loop' % f.site)
    lp = loops[0]
    fname = f.params()[1]
    pv = norm(lp.target)
    ok_iter = norm(lp.iter) in ('self.all_files_paragraphs()',)
    esc = [x for x in walk_no_nested(lp) if isinstance(x, (ast.Break, ast.Return))]
    asg = [s for s in walk_no_nested(lp) if isinstance(s, ast.Assign)]
    init = [s for s in f.node.body if isinstance(s, ast.Assign) and s.lineno < lp.lineno]
    ret = [s for s in f.node.body if isinstance(s, ast.Return) and s.lineno > lp.lineno]
    cond_ok = len(lp.body) == 1 and isinstance(lp.body[0], ast.If) and norm(lp.body[0].test) == '%s.matches(%s)' % (pv, fname) and not lp.body[0].orelse
    if ok_iter and not esc and cond_ok and len(asg) == 1 and norm(asg[0].value) == pv and init and norm(init[-1].value) == 'None' \
            and norm(init[-1].targets[0]) == norm(asg[0].targets[0]) and ret and norm(ret[0].value) == norm(asg[0].targets[0]):
        rep.ok('C16.R4', f.site, 'last match wins', 'result overwritten on every match, no early exit, None when nothing matches')
    else:
        why = 'the loop leaves at the first match' if esc else 'the result is not the last matching Files paragraph in document order'
        rep.fail('C16.R4', f.site, 'last match wins', why, where=f.where)
    a = src.func(M + ':Copyright.all_files_paragraphs')
    t = norm(a.node.body[-1])
    if 'for p in self.__paragraphs' in t and 'isinstance(p, FilesParagraph)' in t and 'sorted' not in t and 'reversed' not in t:
        rep.ok('C16.R4', a.site, 'document order', 'filter over the paragraph list', nontrivial=False)
    else:
        rep.fail('C16.R4', a.site, 'document order', 'Files paragraphs are not enumerated in document order', where=a.where)
    mt = src.func(M + ':FilesParagraph.matches')
    rets = [r for r in ast.walk(mt.node) if isinstance(r, ast.Return)]
    if any('is not None' in norm(r.value) or norm(r.value).startswith('bool(') for r in rets if r.value is not None):
        rep.ok('C16.R4', mt.site, 'matches returns the match outcome', norm(rets[-1].value), nontrivial=False)
    else:
        rep.fail('C16.R4', mt.site, 'matches returns the match outcome', 'matches() does not return whether the pattern matched', where=mt.where)


def check(src, rep, tier):
    rep.explanation = ('C16: (R1) the if/elif chain on the current character inside globs_to_re is read as a table; the fragments for "*" and '
                       '"?" are compiled to automata under the flags of the final re.compile and compared with Σ* and Σ; escapes and ordinary '
                       'characters must go through re.escape, illegal/trailing escapes must raise MachineReadableFormatError; any raw look at '
                       'neighbouring pattern characters is rejected (escaped vs unescaped cannot be told apart).  (R2) the assembled skeleton '
                       'x<join>y<suffix> under the consumer\'s call mode must accept exactly {x, y}.  (R3) no cache store precedes the '
                       'translation call; key compared/stored is the Files text.  (R4) loop shape of find_files_paragraph.')
    rep.not_decided = ['re.escape itself', 'the Files field splitting (C17)']
    rep.need('C16.R1', 5)
    rep.need('C16.R2', 1)
    rep.need('C16.R3', 3)
    rep.need('C16.R4', 3)
    info = rep.guard('C16.R1', r1_fragment_table, src)
    if info is not None:
        rep.guard('C16.R2', r2_anchoring, src, info)
    rep.guard('C16.R3', r3_cache, src)
    rep.guard('C16.R4', r4_last_match, src)

"""C16 -- Copyright: a file resolves to the last Files paragraph whose glob matches it."""
import ast
import re

from .. import rx, cfg
from ..core import AnalysisError, norm, walk_no_nested, Unfoldable

META = {
    'design_ref': 'DESIGN.md §5 C16',
    'technique': "abstract interpretation of globs_to_re on a basis of glob lists (all unit sequences up to length three over class representatives, pairs) with language equality between the produced pattern (under its flags and the consumer's match method) and the glob specification; loop-carried-state analysis of the character loop; interpretation of matches(), of the pattern cache over a history with failing translation, of find_files_paragraph for all truth assignments of three paragraphs whose Files texts are all different, pairwise equal or all equal; frame rule (no memo in the lookup path); every consumer of the compiled pattern asks it with the method the translation is judged under; matches() interpreted on a model pattern (reference regex of the statement) over eight pattern-list scenarios incl. illegal escapes before and after a covering pattern; error-construction rule for formats that are themselves built from data",
    'level_text': 'Static decision: the translation is character-wise (only an escaping backslash looks ahead), "*" denotes Σ*, "?" '
                  'denotes Σ (newline and "/" included), escapes denote their literal, other escapes raise the format error; with the way '
                  'the alternatives are joined and anchored, the consumer\'s match call accepts exactly the whole-name matches; the cache '
                  'cannot keep a key without its pattern; find_files_paragraph returns the last match in document order.',
    'level_note': 'trusted: re.escape semantics, CPython re parser, the automata engine',
}

M = 'copyright'


def loop_carried(fnode):
    """names that carry a value from one iteration of a loop of fnode to the next (assigned in the loop and read in it
    before being assigned, or read after a conditional assignment)"""
    out = set()
    for lp in [n for n in ast.walk(fnode) if isinstance(n, (ast.For, ast.While))]:
        assigned = {n.id for n in ast.walk(lp) if isinstance(n, ast.Name) and isinstance(n.ctx, ast.Store)}
        targets = {n.id for n in ast.walk(lp.target) if isinstance(n, ast.Name)} if isinstance(lp, ast.For) else set()
        seen_def = set(targets)
        carried = set()

        def visit(stmts, defs):
            for st in stmts:
                uses = [n.id for n in ast.walk(st) if isinstance(n, ast.Name) and isinstance(n.ctx, ast.Load)]
                if isinstance(st, (ast.If, ast.For, ast.While, ast.Try, ast.With)):
                    hdr = [getattr(st, 'test', None), getattr(st, 'iter', None)]
                    for h in hdr:
                        if h is not None:
                            for n in ast.walk(h):
                                if isinstance(n, ast.Name) and isinstance(n.ctx, ast.Load) and n.id in assigned and n.id not in defs:
                                    carried.add(n.id)
                    branches = [getattr(st, 'body', []), getattr(st, 'orelse', [])] + [h.body for h in getattr(st, 'handlers', [])]
                    results = []
                    for b in branches:
                        d2 = set(defs)
                        if isinstance(st, ast.For):
                            d2 |= {n.id for n in ast.walk(st.target) if isinstance(n, ast.Name)}
                        visit(b, d2)
                        results.append(d2)
                    defs &= set.intersection(*results) if results else defs
                    defs |= set.intersection(*results) if results else set()
                    continue
                for u in uses:
                    if u in assigned and u not in defs:
                        carried.add(u)
                for n in ast.walk(st):
                    if isinstance(n, ast.Name) and isinstance(n.ctx, ast.Store):
                        defs.add(n.id)
        if isinstance(lp, ast.While):
            for n in ast.walk(lp.test):
                if isinstance(n, ast.Name) and isinstance(n.ctx, ast.Load) and n.id in assigned:
                    carried.add(n.id)
        visit(lp.body, seen_def)
        out |= carried
    return out


def r1_translation(rep, src, tier='quick'):
    """globs_to_re interpreted on a basis of glob lists: every glob of up to three characters over representatives of
    the character classes the translation distinguishes ('*', '?', backslash, ordinary characters incl. regex
    metacharacters, '/', newline, a non-ASCII letter), and pairs of globs.  The pattern text it produces is turned
    into an automaton under the flags it passes to re.compile and the match method the consumer uses; that language
    must equal the specified one ('*' = any text, '?' = any one character, backslash-escapes = the literal).  The
    character loop carries no state besides its cursor and the output buffer, so longer globs add nothing new."""
    from .. import heap as H
    import itertools
    f = src.func(M + ':globs_to_re')
    rep.saw_func(f)
    mod = src.mod(M)
    mt = src.func(M + ':FilesParagraph.matches')
    rep.saw_func(mt)
    from .. import normalize
    mt_node, _inl = normalize.inline_helpers(mt)       # the match may sit in a private helper
    def _modes(node_):
        return {c.func.attr for c in ast.walk(node_) if isinstance(c, ast.Call) and isinstance(c.func, ast.Attribute) and c.func.attr in ('match', 'fullmatch', 'search')}
    modes = _modes(mt_node)
    if not modes:
        # the question is put to the pattern in a method of another class of the module that matches() calls (two levels)
        todo, seen_ = [mt_node], set()
        for _lvl in range(2):
            nxt = []
            for node_ in todo:
                for c in ast.walk(node_):
                    if isinstance(c, ast.Call) and isinstance(c.func, ast.Attribute):
                        for q_, g_ in mod.funcs.items():
                            if q_.split('.')[-1] == c.func.attr and q_ not in seen_ and '.' in q_:
                                seen_.add(q_)
                                nxt.append(g_.node)
            for node_ in nxt:
                modes |= _modes(node_)
            todo = nxt
    if len(modes) != 1:
        raise AnalysisError('%s: the match call on the pattern is not unique (%s)' % (mt.site, sorted(modes)))
    mode = modes.pop()
    # every other consumer of the compiled pattern in the module asks it the same way: the translation is judged under that method
    # (the pattern anchors its last alternative only, so `match` on it accepts names that merely start like an earlier glob)
    for q_, fn_ in sorted(mod.funcs.items()):
        if fn_.node is mt.node:
            continue
        pats = set()
        for st_ in ast.walk(fn_.node):
            if isinstance(st_, ast.Assign) and len(st_.targets) == 1 and isinstance(st_.targets[0], ast.Name) and isinstance(st_.value, ast.Call) and (
                    (isinstance(st_.value.func, ast.Attribute) and st_.value.func.attr == 'files_pattern') or norm(st_.value.func) == 'globs_to_re'):
                pats.add(st_.targets[0].id)
        for c_ in ast.walk(fn_.node):
            if isinstance(c_, ast.Call) and isinstance(c_.func, ast.Attribute) and c_.func.attr in ('match', 'fullmatch', 'search', 'findall', 'finditer'):
                recv = c_.func.value
                is_pat = (isinstance(recv, ast.Name) and recv.id in pats) or (isinstance(recv, ast.Call) and (
                    (isinstance(recv.func, ast.Attribute) and recv.func.attr == 'files_pattern') or norm(recv.func) == 'globs_to_re'))
                if not is_pat:
                    continue
                rep.saw_func(fn_)
                what_ = '%s asks the compiled pattern with %s' % (q_, c_.func.attr)
                if c_.func.attr == mode:
                    rep.ok('C16.R1', fn_.site, what_, 'the method FilesParagraph.matches uses')
                else:
                    rep.fail('C16.R1', fn_.site, what_, 'the compiled Files pattern is asked with `%s` here while FilesParagraph.matches uses `%s`: the two answers differ (only the last '
                             'alternative of the pattern is anchored at the end, so `match` accepts every name that merely begins like one of the earlier globs)'
                             % (c_.func.attr, mode), where='%s:%d' % (mod.relpath, c_.lineno))
    alpha = rx.alphabet('str')
    carried = loop_carried(f.node)
    cursor_like = {n for n in carried if n in ('i', 'n', 'idx', 'pos', 'chars', 'it', 'buf', 'out', 'parts', 'pieces', 'first', 'sep')}
    depth = (3 if carried <= cursor_like else 4) + (1 if tier == 'thorough' else 0)
    reps_other = ['a', '.', '[', '/', '\n', '\u00e9', '|', ')', '$']
    units = ['*', '?', '\\'] + reps_other[:3]
    compiled = {}

    def run(globs):
        heap = H.Heap(mod, hooks={'re.escape': lambda it, args, kw: re.escape(args[0]),
                                  're.compile': lambda it, args, kw: ('compiled', args[0], args[1] if len(args) > 1 else kw.get('flags', 0))})
        heap.symbolic_strings = True
        it = H.Interp(heap)
        try:
            r = it.call(H.Closure(f.node, {}, None, None), [heap.new_list(list(globs))])
        except H.Raised as x:
            return ('raise', x.exc)
        return r

    def spec(glob):
        """specified language of one glob as a regex over the units, or 'error'"""
        out, i = [], 0
        while i < len(glob):
            c = glob[i]
            i += 1
            if c == '*':
                out.append('(?s:.*)')
            elif c == '?':
                out.append('(?s:.)')
            elif c == '\\':
                if i >= len(glob):
                    return 'error'
                c2 = glob[i]
                i += 1
                if c2 not in '\\?*':
                    return 'error'
                out.append(re.escape(c2))
            else:
                out.append(re.escape(c))
        return ''.join(out)
    basis = [[''.join(t)] for k in range(0, depth + 1) for t in itertools.product(units, repeat=k)]
    basis += [[c] for c in reps_other[3:]] + [['a' + c + 'b'] for c in reps_other[3:]]
    basis += [['a', 'b*'], ['a*', 'b'], ['a?', '', 'b'], ['*.c', 'd/*', '\\*'], []]
    # a backslash in front of every representative of the ordinary characters (an illegal escape), alone and with text around it
    basis += [['\\' + c] for c in reps_other[3:]] + [['a\\' + c + 'b'] for c in reps_other[3:]]
    problems = []
    n_ok = 0
    for globs in basis:
        specs = [spec(g) for g in globs]
        r = run(globs)
        if 'error' in specs:
            if r != ('raise', 'MachineReadableFormatError'):
                problems.append('the illegal glob %r is not reported as a format error (MachineReadableFormatError): %r' % (globs[specs.index('error')], r if not isinstance(r, tuple) or r[0] != 'compiled' else 'pattern ' + r[1]))
            else:
                n_ok += 1
            continue
        if not (isinstance(r, tuple) and r and r[0] == 'compiled'):
            problems.append('globs %r: %r instead of a compiled pattern' % (globs, r))
            continue
        _, pat, flags = r
        flags = flags if isinstance(flags, int) else 0
        try:
            got = rx.regex_lang(pat, flags, mode, alpha=alpha)
        except AnalysisError as e:
            problems.append('globs %r give the pattern %r, which the analyser cannot read: %s' % (globs, pat, e))
            continue
        want = rx.regex_lang('(?:%s)' % '|'.join('(?:%s)' % s_ for s_ in specs) if specs else '(?!)x' if False else (('(?:%s)' % '|'.join('(?:%s)' % s_ for s_ in specs)) if specs else '[^\\s\\S]'),
                             0, 'fullmatch', alpha=alpha)
        nonempty = rx.regex_lang('(?s:.+)', 0, 'fullmatch', alpha=alpha)      # file names are not empty
        w = got.intersect(nonempty).equiv_witness(want.intersect(nonempty))
        if w is not None:
            problems.append('Files: %s compiles to %r (flags %s, used with %s): the file name %r is %s' % (
                ' '.join(globs) or '(empty)', pat, flags, mode, w[1], 'matched although no glob denotes it' if w[0] == 'left-only' else 'not matched although a glob denotes it'))
        else:
            n_ok += 1
        compiled[tuple(globs)] = pat
    rep.analysed['paths'] += len(basis)
    what = 'glob translation and anchoring: L(pattern, %s) = specified language' % mode
    if problems:
        for pr in problems[:3]:
            rep.fail('C16.R1', f.site, what, pr, where=f.where)
    else:
        rep.ok('C16.R1', f.site, what, '%d glob lists (all unit sequences up to length %d + pairs), loop-carried state: %s' % (n_ok, depth, sorted(carried) or 'none'))
    if not carried <= cursor_like:
        rep.note('C16.R1: the character loop of globs_to_re carries %s between iterations; basis extended to length %d' % (sorted(carried - cursor_like), depth))


def _ref_glob_regex(g):
    """the statement's reading of one pattern: '*' any run, '?' one character, backslash escapes '*', '?' and itself; None for any
    other escape"""
    import re as _re
    out, i = '', 0
    while i < len(g):
        c = g[i]
        if c == '\\':
            if i + 1 >= len(g) or g[i + 1] not in '*?\\':
                return None
            out += _re.escape(g[i + 1])
            i += 2
            continue
        out += '(?s:.*)' if c == '*' else '(?s:.)' if c == '?' else _re.escape(c)
        i += 1
    return out


def r2_matches(rep, src):
    """FilesParagraph.matches interpreted on paragraphs whose translated pattern is a model object: the translation (globs_to_re,
    however it is reached -- through files_pattern or glob by glob) refuses a list that holds an illegal escape, and the model
    pattern answers match / fullmatch / search as the reference regex of the statement does.  No pattern -> False; otherwise the
    answer is whether one of the patterns covers the WHOLE name, and an illegal escape anywhere in the list is reported whichever
    pattern would have matched"""
    import re as _re
    from .. import heap as H
    mt = src.func(M + ':FilesParagraph.matches')
    mod = src.mod(M)
    cases = [(None, 'some/file', False, 'no Files pattern'),
             ((r'a\\b', 'debian/rules'), 'a\\b', True, 'a list whose first entry escapes a backslash, the name it stands for'),
             ((r'a\\b', 'debian/rules'), r'a\\b', False, 'the same list, the text of the entry as name'),
             (('deb', 'debian/r?les'), 'debian/rules', True, 'a first pattern that is a prefix of the name, a second that covers it'),
             (('deb', 'x*'), 'debian', False, 'a pattern that is only a prefix of the name'),
             (('debian/*', 'bad\\x'), 'debian/rules', 'error', 'an illegal escape AFTER a pattern that covers the name'),
             (('bad\\x', 'debian/*'), 'debian/rules', 'error', 'an illegal escape before a pattern that covers the name'),
             (('src/*', 'trailing\\'), 'README', 'error', 'a trailing backslash, no pattern covers the name')]
    for globs, name, want, label in cases:
        asked = []

        def translate(it, args, kw):
            gl = [g_.concrete() if hasattr(g_, 'concrete') else g_ for g_ in it.seq(args[0])]
            if any(not isinstance(g_, str) for g_ in gl):
                raise AnalysisError('C16.R2: globs_to_re is handed %r' % (gl,))
            if any(_ref_glob_regex(g_) is None for g_ in gl):
                raise H.Raised('MachineReadableFormatError', it.h.version, 0)
            return it.h.alloc('Pattern', {'globs': tuple(gl)})

        def asker(meth):
            def hk(it, args, kw):
                pat = args[0]
                if not (isinstance(pat, H.Ref) and it.h.objs[pat.name]['__class__'] == 'Pattern'):
                    return NotImplemented
                nm_ = args[1].concrete() if hasattr(args[1], 'concrete') else args[1]
                asked.append((meth, nm_))
                rxs = '|'.join('(?:%s)' % _ref_glob_regex(g_) for g_ in it.h.objs[pat.name]['globs'])
                # (the real translation anchors only the end of its LAST alternative: match() lets an earlier alternative answer for a prefix)
                gs_ = it.h.objs[pat.name]['globs']
                real = '|'.join(_ref_glob_regex(g_) for g_ in gs_) + r'\Z' if gs_ else r'\Z'
                m_ = getattr(_re.compile(real), meth)(nm_) if isinstance(nm_, str) else None
                return it.h.alloc('Match', {}) if m_ is not None else None
            return hk
        hooks = {'globs_to_re': translate, '.fullmatch': asker('fullmatch'), '.match': asker('match'), '.search': asker('search')}
        if globs is None:
            hooks['.files_pattern'] = lambda it, args, kw: None
        else:
            hooks['.files_pattern'] = lambda it, args, kw, g=globs: translate(it, [g], {})
        hooks['__getitem__'] = lambda it, args, kw, g=globs: ' '.join(g or ()) if str(args[1]).lower() == 'files' else it.h.getattr(args[0], args[1], None)
        heap = H.Heap(mod, hooks=hooks)
        heap.symbolic_strings = True
        me = heap.alloc('FilesParagraph', {'files': globs if globs is not None else (), '_default_re': None}, name='@files')
        what = 'matches(%r) on %s' % (name, label)
        it2 = H.Interp(heap)
        _init_plain_stores(it2, src.func(M + ':FilesParagraph.__init__'), me)
        try:
            r = it2.call(H.Closure(mt.node, {}, me, mt.cls), [name])
            out = r
        except H.Raised as x:
            out = 'error' if x.exc.split('.')[-1] == 'MachineReadableFormatError' else 'raises %s' % x.exc
        if out is want or out == want == 'error':
            rep.ok('C16.R2', mt.site, what, repr(out))
        elif want == 'error':
            rep.fail('C16.R2', mt.site, what, 'answers %r for the patterns %r: the illegal escape is not reported as a format error (the patterns are tried one at a time and the answer is '
                     'given before the bad one is translated)' % (out, list(globs)), where=mt.where)
        else:
            rep.fail('C16.R2', mt.site, what, 'answers %r for the patterns %r (asked: %r); the answer must be exactly whether one of the patterns covers the whole name'
                     % (out, list(globs) if globs is not None else None, asked), where=mt.where)


def _init_plain_stores(it, init, me):
    """the attributes the constructor sets by plain stores `self.x = <expression>` (a constant, a tuple, a small record of the module), as
    far as the expression can be evaluated on the scenario's object: the cache starts as the constructor leaves it"""
    from .. import heap as H
    for st in init.node.body:
        if isinstance(st, ast.Assign) and len(st.targets) == 1 and isinstance(st.targets[0], ast.Attribute) and norm(st.targets[0].value) == 'self':
            try:
                it.exec(st, {'self': me}, init.cls)
            except (AnalysisError, H.Raised):
                pass


def r3_cache(rep, src):
    """files_pattern interpreted over histories: the pattern is recomputed exactly when the Files text changed, and a
    failing translation leaves no half-updated cache (the next call fails again instead of using a stale pattern)"""
    from .. import heap as H
    f = src.func(M + ':FilesParagraph.files_pattern')
    rep.saw_func(f)
    mod = src.mod(M)
    state = {'text': 'a b', 'calls': [], 'fail': False}

    def g2r(it, args, kw):
        state['calls'].append(state['text'])
        if state['fail']:
            raise H.Raised('MachineReadableFormatError', it.h.version, 0)
        return ('pattern-for', state['text'])
    heap = H.Heap(mod, hooks={'globs_to_re': g2r})
    heap.symbolic_strings = True
    heap.hooks['.__getitem__'] = lambda it, args, kw: state['text']
    me = heap.alloc('FilesParagraph', {}, name='@files')
    heap.objs[me.name]['files'] = ('files-of', None)
    heap.objs[me.name]['_default_re'] = ('pattern-for', '')
    it = H.Interp(heap)
    # the cache attributes as the constructor initialises them (only its plain stores into self are interpreted)
    init = src.func(M + ':FilesParagraph.__init__')
    _init_plain_stores(it, init, me)

    class SelfItems:
        pass
    # self['files'] and self.files are answered from the scenario
    orig_ev = it.ev

    def ev(e, env, cls):
        if isinstance(e, ast.Subscript) and norm(e.value) == 'self' and isinstance(e.slice, ast.Constant) and str(e.slice.value).lower() == 'files':
            return state['text']
        if isinstance(e, ast.Attribute) and norm(e) == 'self.files':
            return ('files-of', state['text'])
        return orig_ev(e, env, cls)
    it.ev = ev

    def call():
        try:
            return it.call(H.Closure(f.node, {}, me, f.cls), [])
        except H.Raised as x:
            return ('raise', x.exc)
    script = [('a b', False, ('pattern-for', 'a b'), 1), ('a b', False, ('pattern-for', 'a b'), 1), ('c', False, ('pattern-for', 'c'), 2),
              ('d\\', True, ('raise', 'MachineReadableFormatError'), 3), ('d\\', True, ('raise', 'MachineReadableFormatError'), 4),
              ('c', False, ('pattern-for', 'c'), None), ('e', False, ('pattern-for', 'e'), None)]
    bad = None
    for text, fail, want, ncalls in script:
        state['text'], state['fail'] = text, fail
        r = call()
        if r != want and bad is None:
            bad = 'with Files = %r %sfiles_pattern() gives %r instead of %r (history of translated texts: %r): the cached pattern does not follow the Files text' % (
                text, '(an illegal glob) ' if fail else '', r, want, state['calls'])
        if ncalls is not None and len(state['calls']) != ncalls and bad is None:
            bad = 'with Files = %r the glob translation ran %d times in total instead of %d: %s' % (
                text, len(state['calls']), ncalls, 'a failed translation left its key in the cache, later queries silently use a stale pattern'
                if len(state['calls']) < ncalls else 'the pattern is not cached')
    if bad:
        rep.fail('C16.R3', f.site, 'the cached pattern follows the Files text', bad, where=f.where)
    else:
        rep.ok('C16.R3', f.site, 'the cached pattern follows the Files text', '%d-step history: recomputed iff the text changed, a failing translation is retried' % len(script))


def r4_last_match(rep, src):
    """find_files_paragraph / all_files_paragraphs interpreted: the answer is the last Files paragraph (document order)
    whose matches() is true, None when there is none -- for every truth assignment of three paragraphs -- and it is
    recomputed from the current paragraphs on every call"""
    from .. import heap as H
    import itertools
    from . import common
    f = src.func(M + ':Copyright.find_files_paragraph')
    a = src.func(M + ':Copyright.all_files_paragraphs')
    rep.saw_func(f)
    rep.saw_func(a)
    common.check_no_hidden_state(rep, src, 'C16.R4', [M + ':Copyright.find_files_paragraph', M + ':Copyright.all_files_paragraphs', M + ':FilesParagraph.matches',
                                                     M + ':globs_to_re'],
                                 'an answer remembered per file name is not invalidated when the Files field of a paragraph is edited, so a later lookup returns '
                                 'the stale paragraph')
    mod = src.mod(M)
    n = 0
    bad = None
    from .. import symstr
    NAME = symstr.atom('file name', r'(?s:.*)')
    asked = []

    def matches_hook(it, args, kw):
        asked.append(args[1] if len(args) > 1 else None)
        return it.h.objs[args[0].name]['hit']
    def field_hook(it, args, kw):
        o = it.h.objs[args[0].name]
        if args[1] == 'Files' and 'text' in o:
            return o['text']
        raise H.Raised('KeyError', kw.get('lineno', 0))

    # the paragraphs carry a Files text as well: all different, or two / three of them the same (the same text matches the same
    # names, so the truth assignments are those that agree on equal texts) -- a lookup that goes through the texts must still
    # answer in document order
    TEXTS = [('*', 'src/*', 'debian/*'), ('*', 'src/*', '*'), ('*', '*', 'src/*'), ('src/*', '*', '*'), ('*', '*', '*')]
    for texts, truth in itertools.product(TEXTS, itertools.product((False, True), repeat=3)):
        if any(texts[i] == texts[j] and truth[i] != truth[j] for i in range(3) for j in range(3)):
            continue
        heap = H.Heap(mod, hooks={'.matches': matches_hook, '__getitem__': field_hook, '.get': lambda it_, a_, k_: field_hook(it_, a_[:2], k_)})
        heap.symbolic_strings = True
        hdr = heap.alloc('Header', {}, name='@header')
        fps = [heap.alloc('FilesParagraph', {'hit': t, 'text': x_, 'files': x_}, name='@files%d' % (i + 1)) for i, (t, x_) in enumerate(zip(truth, texts))]
        lic = heap.alloc('LicenseParagraph', {}, name='@license')
        paras = heap.new_list([fps[0], lic, fps[1], fps[2]])
        me = heap.alloc('Copyright', {'_Copyright__paragraphs': paras, '_Copyright__header': hdr}, name='@copyright')
        it = H.Interp(heap)
        try:
            r = it.call(H.Closure(f.node, {}, me, f.cls), [NAME])
        except H.Raised as x:
            r = 'raises ' + x.exc
        want = None
        for p_, t in zip(fps, truth):
            if t:
                want = p_
        n += 1
        if r != want and bad is None:
            bad = 'with Files paragraphs %s matching = %s the answer is %r; the last matching paragraph in document order is %r' % (list(texts), list(truth), r, want)
    altered = [x for x in asked if not (isinstance(x, symstr.SStr) and x.same(NAME))]
    if not asked:
        raise AnalysisError('%s: matches() is never asked' % f.site)
    if altered:
        rep.fail('C16.R4', f.site, 'the paragraphs are asked about the given name', 'matches() is asked about %r, not about the file name that was given: names are '
                 'altered before the lookup (a name such as ".gitignore" or "./x" resolves to another paragraph)' % (altered[0],), where=f.where)
    else:
        rep.ok('C16.R4', f.site, 'the paragraphs are asked about the given name', '%d calls of matches() with the unchanged symbolic name' % len(asked))
    if bad:
        rep.fail('C16.R4', f.site, 'last match wins', bad, where=f.where)
    else:
        rep.ok('C16.R4', f.site, 'last match wins', 'all %d truth assignments of three Files paragraphs (with a License paragraph in between; Files texts all different, two the same, all the same)' % n)


def check(src, rep, tier):
    rep.explanation = ('C16: globs_to_re, FilesParagraph.matches / files_pattern and Copyright.find_files_paragraph are interpreted by the abstract '
                       'interpreter of sa.heap (nothing of the repository is executed): (R1) on every glob of up to three units over class '
                       'representatives and on glob pairs, the pattern text produced is converted to an automaton under the flags and the match '
                       'method actually used, and compared for language equality with the specification of the glob syntax; illegal escapes must raise '
                       'the format error; the character loop carries no extra state.  (R2) matches() returns exactly the match outcome.  (R3) the '
                       'pattern cache over a 7-step history (unchanged text, changed text, failing translation, recovery).  (R4) last matching '
                       'paragraph for all truth assignments, no memo in the lookup path.')
    rep.not_decided = ['re.escape itself', 'the Files field splitting (C17)']
    rep.need('C16.R1', 1)
    rep.need('C16.R2', 3)
    rep.need('C16.R3', 1)
    rep.need('C16.R4', 5)
    rep.guard('C16.R1', r1_translation, src, tier)
    rep.guard('C16.R2', r2_matches, src)
    rep.guard('C16.R3', r3_cache, src)
    rep.guard('C16.R4', r4_last_match, src)
    from . import common
    rep.guard('C16.R1', common.check_error_construction, src, 'C16.R1', 'copyright', None, 0)
    from . import common as _common_flags
    rep.guard('C16.R1', _common_flags.check_re_positional_flags, src, 'C16.R1', 'copyright', 'a Files field with more than that many patterns is cut short: the rest is one pattern with blanks in it, and its files match no paragraph')
